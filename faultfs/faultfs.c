// LD_PRELOAD shim used by the explorers (E1 determinism, E3a fault/crash enumeration, C17 descriptor trace).
//
//  VERIF_DETRAND=<seed>     getrandom() / syscall(SYS_getrandom) return a fixed byte pattern derived from <seed>
//                           (std's HashMap keys and rand's ThreadRng become deterministic).
//  FAULTFS_DIR=<dir>        calls on paths under <dir> are numbered 0,1,2,... in program order ("intercepted calls")
//  FAULTFS_LOG=<file>       one line per intercepted call:  <k> <op> <path> <len> <result>
//  FAULTFS_PLAN=k:ACT[,k:ACT...]   the environment's answer at intercepted call k:
//        ENOSPC | EIO       fail the call with that errno (for write-like calls: nothing written)
//        EPIPE EDQUOT EFBIG EAGAIN EROFS EBADF ENOMEM EACCES ETIMEDOUT ESTALE   likewise, with that errno
//        EINTR              fail once with EINTR (the retry succeeds)
//        SHORT1             write 1 byte, and fail every later write to the same fd with ENOSPC
//        SHORTM             write len-1 bytes (later calls succeed)
//        CRASH              _exit(137) immediately before the call (what SIGKILL leaves behind)
//        SIGINT|SIGTERM|SIGHUP|SIGUSR1|SIGQUIT|SIGPIPE   the signal is raised immediately before the call; if the
//                           process survives (a handler, an ignored signal) the call goes on undisturbed
//  FAULTFS_RPREFIX=<prefix> read() calls on files whose path starts with <prefix> are numbered 0,1,2,... on their own
//                           (logged as "R <k> read <path> <count> <result>")
//  FAULTFS_RPLAN=k:ACT[,..] the environment's answer at read call k:  SHORT1 (at most 1 byte) | SHORTH (at most half) |
//                           EINTR (fail once with EINTR, nothing consumed) | EIO (fail, nothing consumed) |
//                           SIGINT / SIGTERM / SIGHUP / SIGUSR1 (the signal is raised immediately before the read)
//  FAULTFS_TRACE=<prefix>   additionally log open/close/read/lseek on files whose path starts with <prefix> (not numbered)
#define _GNU_SOURCE
#include <dirent.h>
#include <dlfcn.h>
#include <errno.h>
#include <fcntl.h>
#include <signal.h>
#include <stdarg.h>
#include <stdint.h>
#include <stdio.h>
#include <stdlib.h>
#include <string.h>
#include <sys/syscall.h>
#include <sys/types.h>
#include <sys/uio.h>
#include <unistd.h>

static int inited = 0;
static const char *target_dir = NULL;
static size_t target_len = 0;
static const char *trace_prefix = NULL;
static size_t trace_len = 0;
static int log_fd = -1;
static long counter = 0;
static const char *rprefix = NULL;
static size_t rprefix_len = 0;
static long rcounter = 0;
#define MAXRPLAN 16
static long rplan_k[MAXRPLAN];
static int rplan_act[MAXRPLAN];
static int rplan_n = 0;
enum { R_NONE = 0, R_SHORT1, R_SHORTH, R_EINTR, R_EIO, R_SIGINT, R_SIGTERM, R_SIGHUP, R_SIGUSR1 };
static int detrand = 0;
static uint64_t detseed = 0;

#define MAXPLAN 64
static long plan_k[MAXPLAN];
static int plan_act[MAXPLAN];
static int plan_err[MAXPLAN]; // errno of an A_EIO entry named by another errno (EPIPE, EDQUOT, ...); 0 = EIO
static int plan_n = 0;
enum { A_NONE = 0, A_ENOSPC, A_EIO, A_EINTR, A_SHORT1, A_SHORTM, A_CRASH, A_SIG };
#define MAXFD 4096
static char fd_dead[MAXFD]; // fds whose later writes fail with ENOSPC (after SHORT1)

static ssize_t (*real_write)(int, const void *, size_t);
static ssize_t (*real_writev)(int, const struct iovec *, int);
static ssize_t (*real_read)(int, void *, size_t);
static int (*real_close)(int);
static int (*real_rename)(const char *, const char *);
static int (*real_open)(const char *, int, ...);
static int (*real_open64)(const char *, int, ...);
static int (*real_openat)(int, const char *, int, ...);
static int (*real_openat64)(int, const char *, int, ...);
static off_t (*real_lseek)(int, off_t, int);
static off64_t (*real_lseek64)(int, off64_t, int);
static int (*real_unlink)(const char *);
static int (*real_fsync)(int);
static long (*real_syscall)(long, ...);
static ssize_t (*real_getrandom)(void *, size_t, unsigned int);

// Idempotent; `inited` is published only after every pointer is resolved, so a thread that races with the first
// initialisation either runs it again itself (harmless) or sees fully resolved pointers - never a NULL pointer.
__attribute__((constructor)) static void init(void) {
    if (__atomic_load_n(&inited, __ATOMIC_ACQUIRE)) return;
    real_write = dlsym(RTLD_NEXT, "write");
    real_writev = dlsym(RTLD_NEXT, "writev");
    real_read = dlsym(RTLD_NEXT, "read");
    real_close = dlsym(RTLD_NEXT, "close");
    real_rename = dlsym(RTLD_NEXT, "rename");
    real_open = dlsym(RTLD_NEXT, "open");
    real_open64 = dlsym(RTLD_NEXT, "open64");
    real_openat = dlsym(RTLD_NEXT, "openat");
    real_openat64 = dlsym(RTLD_NEXT, "openat64");
    real_lseek = dlsym(RTLD_NEXT, "lseek");
    real_lseek64 = dlsym(RTLD_NEXT, "lseek64");
    real_unlink = dlsym(RTLD_NEXT, "unlink");
    real_fsync = dlsym(RTLD_NEXT, "fsync");
    real_syscall = dlsym(RTLD_NEXT, "syscall");
    real_getrandom = dlsym(RTLD_NEXT, "getrandom");
    const char *d = getenv("FAULTFS_DIR");
    if (d && *d) { target_dir = strdup(d); target_len = strlen(d); }
    const char *t = getenv("FAULTFS_TRACE");
    if (t && *t) { trace_prefix = strdup(t); trace_len = strlen(t); }
    const char *l = getenv("FAULTFS_LOG");
    if (l && *l && log_fd < 0) {
        int fd = real_open64 ? real_open64(l, O_WRONLY | O_CREAT | O_APPEND | O_CLOEXEC, 0644) : -1;
        if (fd >= 0) { log_fd = fcntl(fd, F_DUPFD_CLOEXEC, 900); real_close(fd); }
    }
    const char *s = getenv("VERIF_DETRAND");
    if (s && *s) { detrand = 1; detseed = strtoull(s, NULL, 10); }
    const char *p = getenv("FAULTFS_PLAN");
    if (p && *p && plan_n == 0) {
        char *copy = strdup(p), *save = NULL;
        for (char *tok = strtok_r(copy, ",", &save); tok && plan_n < MAXPLAN; tok = strtok_r(NULL, ",", &save)) {
            char *colon = strchr(tok, ':');
            if (!colon) continue;
            *colon = 0;
            plan_k[plan_n] = atol(tok);
            const char *a = colon + 1;
            plan_err[plan_n] = 0;
            static const struct { const char *n; int e; } errs[] = {{"EPIPE", EPIPE}, {"EDQUOT", EDQUOT}, {"EFBIG", EFBIG}, {"EAGAIN", EAGAIN}, {"EROFS", EROFS}, {"EBADF", EBADF}, {"ENOMEM", ENOMEM}, {"EACCES", EACCES}, {"ETIMEDOUT", ETIMEDOUT}, {"ESTALE", ESTALE}};
            for (unsigned e = 0; e < sizeof errs / sizeof errs[0]; e++) if (!strcmp(a, errs[e].n)) plan_err[plan_n] = errs[e].e;
            static const struct { const char *n; int s; } sigs[] = {{"SIGINT", SIGINT}, {"SIGTERM", SIGTERM}, {"SIGHUP", SIGHUP}, {"SIGUSR1", SIGUSR1}, {"SIGQUIT", SIGQUIT}, {"SIGPIPE", SIGPIPE}};
            int is_sig = 0;
            for (unsigned e = 0; e < sizeof sigs / sizeof sigs[0]; e++) if (!strcmp(a, sigs[e].n)) { plan_err[plan_n] = sigs[e].s; is_sig = 1; }
            if (is_sig) { plan_act[plan_n] = A_SIG; plan_n++; continue; }
            plan_act[plan_n] = plan_err[plan_n] ? A_EIO : !strcmp(a, "ENOSPC") ? A_ENOSPC : !strcmp(a, "EIO") ? A_EIO : !strcmp(a, "EINTR") ? A_EINTR
                             : !strcmp(a, "SHORT1") ? A_SHORT1 : !strcmp(a, "SHORTM") ? A_SHORTM : !strcmp(a, "CRASH") ? A_CRASH : A_NONE;
            plan_n++;
        }
        free(copy);
    }
    const char *rp = getenv("FAULTFS_RPREFIX");
    if (rp && *rp) { rprefix = strdup(rp); rprefix_len = strlen(rp); }
    const char *rpl = getenv("FAULTFS_RPLAN");
    if (rpl && *rpl && rplan_n == 0) {
        char *copy = strdup(rpl), *save = NULL;
        for (char *tok = strtok_r(copy, ",", &save); tok && rplan_n < MAXRPLAN; tok = strtok_r(NULL, ",", &save)) {
            char *colon = strchr(tok, ':');
            if (!colon) continue;
            *colon = 0;
            rplan_k[rplan_n] = atol(tok);
            const char *a = colon + 1;
            rplan_act[rplan_n] = !strcmp(a, "SHORT1") ? R_SHORT1 : !strcmp(a, "SHORTH") ? R_SHORTH : !strcmp(a, "EINTR") ? R_EINTR : !strcmp(a, "EIO") ? R_EIO
                                 : !strcmp(a, "SIGINT") ? R_SIGINT : !strcmp(a, "SIGTERM") ? R_SIGTERM : !strcmp(a, "SIGHUP") ? R_SIGHUP : !strcmp(a, "SIGUSR1") ? R_SIGUSR1 : R_NONE;
            rplan_n++;
        }
        free(copy);
    }
    __atomic_store_n(&inited, 1, __ATOMIC_RELEASE);
}

static void logline(const char *fmt, ...) {
    if (log_fd < 0) return;
    char buf[1200];
    va_list ap;
    va_start(ap, fmt);
    int n = vsnprintf(buf, sizeof buf, fmt, ap);
    va_end(ap);
    if (n > (int)sizeof buf) n = sizeof buf;
    if (n > 0) real_write(log_fd, buf, n);
}

static int under(const char *path, const char *prefix, size_t plen) {
    return prefix && path && strncmp(path, prefix, plen) == 0;
}

static int fd_path(int fd, char *out, size_t n) {
    char link[64];
    snprintf(link, sizeof link, "/proc/self/fd/%d", fd);
    ssize_t r = readlink(link, out, n - 1);
    if (r < 0) return 0;
    out[r] = 0;
    return 1;
}

static int cur_eio = EIO; // errno delivered by the A_EIO action of the call being intercepted
static int action_for(long k) {
    for (int i = 0; i < plan_n; i++)
        if (plan_k[i] == k) { cur_eio = plan_err[i] ? plan_err[i] : EIO; return plan_act[i]; }
    return A_NONE;
}

// Number this call; apply CRASH; return the planned action.
static int intercept(const char *op, const char *path, long len, long *kout) {
    long k = counter++;
    *kout = k;
    int act = action_for(k);
    if (act == A_CRASH) {
        logline("%ld %s %s %ld CRASH\n", k, op, path, len);
        _exit(137);
    }
    if (act == A_SIG) {
        // a signal arrives immediately before this call (k:SIGINT / SIGTERM / SIGHUP / SIGUSR1 / SIGQUIT / SIGPIPE); whatever the
        // program's disposition is decides what happens; if it survives, the call goes on undisturbed
        logline("%ld %s %s %ld SIGNAL=%d\n", k, op, path, len, cur_eio);
        raise(cur_eio);
        return A_NONE;
    }
    return act;
}

ssize_t write(int fd, const void *buf, size_t count) {
    init();
    char path[1024];
    if (target_dir && fd != log_fd && fd_path(fd, path, sizeof path) && under(path, target_dir, target_len)) {
        long k;
        int act = intercept("write", path, (long)count, &k);
        if (fd >= 0 && fd < MAXFD && fd_dead[fd]) { logline("%ld write %s %ld ENOSPC(after-short)\n", k, path, (long)count); errno = ENOSPC; return -1; }
        switch (act) {
        case A_ENOSPC: logline("%ld write %s %ld ENOSPC\n", k, path, (long)count); errno = ENOSPC; return -1;
        case A_EIO: logline("%ld write %s %ld EIO\n", k, path, (long)count); errno = cur_eio; return -1;
        case A_EINTR: logline("%ld write %s %ld EINTR\n", k, path, (long)count); errno = EINTR; return -1;
        case A_SHORT1:
            if (count > 1) {
                ssize_t r = real_write(fd, buf, 1);
                if (fd < MAXFD) fd_dead[fd] = 1;
                logline("%ld write %s %ld SHORT1=%ld\n", k, path, (long)count, (long)r);
                return r;
            }
            break;
        case A_SHORTM:
            if (count > 1) {
                ssize_t r = real_write(fd, buf, count - 1);
                logline("%ld write %s %ld SHORTM=%ld\n", k, path, (long)count, (long)r);
                return r;
            }
            break;
        default: break;
        }
        ssize_t r = real_write(fd, buf, count);
        logline("%ld write %s %ld %ld\n", k, path, (long)count, (long)r);
        return r;
    }
    if (trace_prefix && fd == 1 && count > 0) {
        // height markers of the trace log (`on_block(height=N) called`), in program order with the open/close events
        const char *p = memmem(buf, count, "on_block(height=", 16);
        if (p) {
            long h = 0;
            const char *q = p + 16, *end = (const char *)buf + count;
            while (q < end && *q >= '0' && *q <= '9') { h = h * 10 + (*q - '0'); q++; }
            logline("T marker %ld\n", h);
        }
    }
    return real_write(fd, buf, count);
}

ssize_t writev(int fd, const struct iovec *iov, int iovcnt) {
    init();
    char path[1024];
    if (target_dir && fd_path(fd, path, sizeof path) && under(path, target_dir, target_len)) {
        long total = 0;
        for (int i = 0; i < iovcnt; i++) total += iov[i].iov_len;
        long k;
        int act = intercept("writev", path, total, &k);
        if (act == A_ENOSPC || act == A_EIO || act == A_EINTR || (fd < MAXFD && fd_dead[fd])) {
            errno = act == A_EIO ? cur_eio : act == A_EINTR ? EINTR : ENOSPC;
            logline("%ld writev %s %ld errno=%d\n", k, path, total, errno);
            return -1;
        }
        ssize_t r = real_writev(fd, iov, iovcnt);
        logline("%ld writev %s %ld %ld\n", k, path, total, (long)r);
        return r;
    }
    return real_writev(fd, iov, iovcnt);
}

/* VERIF_BARRIER=<dir>:<n>  the first rename() of this process announces itself with a file in <dir> and waits (at most 20 s)
 * until n processes have done so: several runs sharing a dump folder all reach "everything written, nothing renamed yet"
 * before any of them publishes its result - the interleaving in which clashes over temporary names show. */
static void rename_barrier(void) {
    static int done = 0;
    if (done) return;
    done = 1;
    const char *b = getenv("VERIF_BARRIER");
    if (!b || !*b) return;
    char dir[1024];
    snprintf(dir, sizeof dir, "%s", b);
    char *colon = strrchr(dir, ':');
    if (!colon) return;
    *colon = 0;
    int n = atoi(colon + 1);
    char mine[1200];
    snprintf(mine, sizeof mine, "%s/arrived.%d", dir, (int)getpid());
    int fd = real_open64 ? real_open64(mine, O_WRONLY | O_CREAT, 0644) : -1;
    if (fd >= 0) real_close(fd);
    for (int spin = 0; spin < 20000; spin++) {
        int count = 0;
        DIR *d = opendir(dir);
        if (d) {
            struct dirent *e;
            while ((e = readdir(d)) != NULL)
                if (!strncmp(e->d_name, "arrived.", 8)) count++;
            closedir(d);
        }
        if (count >= n) return;
        usleep(1000);
    }
}

int rename(const char *oldpath, const char *newpath) {
    init();
    rename_barrier();
    if (under(oldpath, target_dir, target_len) || under(newpath, target_dir, target_len)) {
        long k;
        char both[2100];
        snprintf(both, sizeof both, "%s->%s", oldpath, newpath);
        int act = intercept("rename", both, 0, &k);
        if (act == A_ENOSPC || act == A_EIO) {
            errno = act == A_EIO ? cur_eio : ENOSPC;
            logline("%ld rename %s 0 errno=%d\n", k, both, errno);
            return -1;
        }
        int r = real_rename(oldpath, newpath);
        logline("%ld rename %s 0 %d\n", k, both, r);
        return r;
    }
    return real_rename(oldpath, newpath);
}

static int open_common(const char *op, int dirfd, const char *path, int flags, mode_t mode, int which) {
    init();
    int is_target = under(path, target_dir, target_len);
    long k = -1;
    if (is_target) {
        int act = intercept(op, path, flags, &k);
        if (act == A_ENOSPC || act == A_EIO) {
            errno = act == A_EIO ? cur_eio : ENOSPC;
            logline("%ld %s %s %d errno=%d\n", k, op, path, flags, errno);
            return -1;
        }
    }
    int fd;
    switch (which) {
    case 0: fd = real_open(path, flags, mode); break;
    case 1: fd = real_open64(path, flags, mode); break;
    case 2: fd = real_openat(dirfd, path, flags, mode); break;
    default: fd = real_openat64(dirfd, path, flags, mode); break;
    }
    if (is_target) {
        logline("%ld %s %s %d %d\n", k, op, path, flags, fd);
        if (fd >= 0 && fd < MAXFD) fd_dead[fd] = 0;
    }
    if (under(path, trace_prefix, trace_len)) logline("T open %s %d\n", path, fd);
    return fd;
}

int open(const char *path, int flags, ...) {
    mode_t mode = 0;
    if (flags & (O_CREAT | O_TMPFILE)) { va_list ap; va_start(ap, flags); mode = va_arg(ap, mode_t); va_end(ap); }
    return open_common("open", AT_FDCWD, path, flags, mode, 0);
}
int open64(const char *path, int flags, ...) {
    mode_t mode = 0;
    if (flags & (O_CREAT | O_TMPFILE)) { va_list ap; va_start(ap, flags); mode = va_arg(ap, mode_t); va_end(ap); }
    return open_common("open", AT_FDCWD, path, flags, mode, 1);
}
int openat(int dirfd, const char *path, int flags, ...) {
    mode_t mode = 0;
    if (flags & (O_CREAT | O_TMPFILE)) { va_list ap; va_start(ap, flags); mode = va_arg(ap, mode_t); va_end(ap); }
    return open_common("open", dirfd, path, flags, mode, 2);
}
int openat64(int dirfd, const char *path, int flags, ...) {
    mode_t mode = 0;
    if (flags & (O_CREAT | O_TMPFILE)) { va_list ap; va_start(ap, flags); mode = va_arg(ap, mode_t); va_end(ap); }
    return open_common("open", dirfd, path, flags, mode, 3);
}

int close(int fd) {
    init();
    char path[1024];
    if (fd != log_fd && (target_dir || trace_prefix) && fd_path(fd, path, sizeof path)) {
        if (under(path, target_dir, target_len)) {
            long k;
            int act = intercept("close", path, 0, &k);
            int r = real_close(fd);
            if (act == A_EIO || act == A_ENOSPC) { errno = act == A_EIO ? cur_eio : ENOSPC; r = -1; }
            logline("%ld close %s 0 %d\n", k, path, r);
            if (fd >= 0 && fd < MAXFD) fd_dead[fd] = 0;
            return r;
        }
        if (under(path, trace_prefix, trace_len)) logline("T close %s %d\n", path, fd);
    }
    return real_close(fd);
}

ssize_t read(int fd, void *buf, size_t count) {
    init();
    if (rprefix) {
        char path[1024];
        if (fd_path(fd, path, sizeof path) && under(path, rprefix, rprefix_len)) {
            long k = __atomic_fetch_add(&rcounter, 1, __ATOMIC_SEQ_CST);
            int act = R_NONE;
            for (int i = 0; i < rplan_n; i++)
                if (rplan_k[i] == k) act = rplan_act[i];
            ssize_t r;
            {
                // FAULTFS_RHOOK=k:<shell command>: another process changes the data directory while the run is in the middle of
                // its blocks - the command runs to completion immediately before read #k (outside this shim)
                static long hook_k = -2;
                static const char *hook_cmd = NULL;
                if (hook_k == -2) {
                    hook_k = -1;
                    const char *h = getenv("FAULTFS_RHOOK");
                    if (h && *h) { const char *c = strchr(h, ':'); if (c) { hook_k = atol(h); hook_cmd = c + 1; } }
                }
                if (hook_cmd && hook_k == k) {
                    char *pre = getenv("LD_PRELOAD");
                    char *saved = pre ? strdup(pre) : NULL;
                    unsetenv("LD_PRELOAD");
                    int rc = system(hook_cmd);
                    if (saved) { setenv("LD_PRELOAD", saved, 1); free(saved); }
                    logline("R %ld hook rc=%d\n", k, rc);
                }
            }
            if (act >= R_SIGINT) {
                // a signal arrives while the run is in the middle of its blocks, immediately before this read
                int sg = act == R_SIGINT ? SIGINT : act == R_SIGTERM ? SIGTERM : act == R_SIGHUP ? SIGHUP : SIGUSR1;
                logline("R %ld read %s %ld SIGNAL=%d\n", k, path, (long)count, sg);
                raise(sg);
                act = R_NONE;
            }
            if (act == R_EINTR || act == R_EIO) {
                errno = act == R_EINTR ? EINTR : EIO;
                r = -1;
            } else {
                size_t c = count;
                if (act == R_SHORT1 && c > 1) c = 1;
                if (act == R_SHORTH && c > 1) c = c / 2;
                r = real_read(fd, buf, c);
            }
            int e = errno;
            logline("R %ld read %s %ld %ld\n", k, path, (long)count, (long)r);
            errno = e;
            return r;
        }
    }
    ssize_t r = real_read(fd, buf, count);
    if (trace_prefix) {
        char path[1024];
        if (fd_path(fd, path, sizeof path) && under(path, trace_prefix, trace_len)) logline("T read %s %d %ld\n", path, fd, (long)r);
    }
    return r;
}

off_t lseek(int fd, off_t off, int whence) {
    init();
    off_t r = real_lseek(fd, off, whence);
    if (trace_prefix) {
        char path[1024];
        if (fd_path(fd, path, sizeof path) && under(path, trace_prefix, trace_len)) logline("T lseek %s %d %lld\n", path, fd, (long long)r);
    }
    return r;
}
off64_t lseek64(int fd, off64_t off, int whence) {
    init();
    off64_t r = real_lseek64(fd, off, whence);
    if (trace_prefix) {
        char path[1024];
        if (fd_path(fd, path, sizeof path) && under(path, trace_prefix, trace_len)) logline("T lseek %s %d %lld\n", path, fd, (long long)r);
    }
    return r;
}

int fsync(int fd) {
    init();
    char path[1024];
    if (target_dir && fd_path(fd, path, sizeof path) && under(path, target_dir, target_len)) {
        long k;
        int act = intercept("fsync", path, 0, &k);
        if (act == A_EIO || act == A_ENOSPC) { errno = act == A_EIO ? cur_eio : ENOSPC; logline("%ld fsync %s 0 errno=%d\n", k, path, errno); return -1; }
        int r = real_fsync(fd);
        logline("%ld fsync %s 0 %d\n", k, path, r);
        return r;
    }
    return real_fsync(fd);
}

int unlink(const char *path) {
    init();
    if (under(path, target_dir, target_len)) {
        long k;
        intercept("unlink", path, 0, &k);
        int r = real_unlink(path);
        logline("%ld unlink %s 0 %d\n", k, path, r);
        return r;
    }
    return real_unlink(path);
}

static void fill(void *buf, size_t len) {
    // stateless: every request sees the same stream (splitmix64 of the seed)
    uint64_t x = detseed * 0x9E3779B97F4A7C15ull + 0x1234567ull;
    unsigned char *p = buf;
    for (size_t i = 0; i < len; i += 8) {
        x += 0x9E3779B97F4A7C15ull;
        uint64_t z = x;
        z = (z ^ (z >> 30)) * 0xBF58476D1CE4E5B9ull;
        z = (z ^ (z >> 27)) * 0x94D049BB133111EBull;
        z ^= z >> 31;
        for (size_t j = 0; j < 8 && i + j < len; j++) p[i + j] = (unsigned char)(z >> (8 * j));
    }
}

ssize_t getrandom(void *buf, size_t len, unsigned int flags) {
    init();
    if (detrand) { fill(buf, len); return (ssize_t)len; }
    if (real_getrandom) return real_getrandom(buf, len, flags);
    return real_syscall(SYS_getrandom, buf, len, flags);
}

long syscall(long number, ...) {
    init();
    va_list ap;
    va_start(ap, number);
    long a0 = va_arg(ap, long), a1 = va_arg(ap, long), a2 = va_arg(ap, long), a3 = va_arg(ap, long), a4 = va_arg(ap, long), a5 = va_arg(ap, long);
    va_end(ap);
    if (detrand && number == SYS_getrandom) { fill((void *)a0, (size_t)a1); return a1; }
    return real_syscall(number, a0, a1, a2, a3, a4, a5);
}

/* Directory listing order is an answer of the environment too (file system dependent): VERIF_READDIR=<n> serves the
 * entries of every directory stream in a permuted order - 1 reversed, n >= 2 rotated by n (after sorting by name, so that
 * the order is a function of <n> and the names only). */
#define MAXDIRS 32
#define MAXENTS 8192
struct dirbuf { DIR *d; struct dirent64 *ents; int n, pos; };
static struct dirbuf dirbufs[MAXDIRS];
static int readdir_mode = -1;
static struct dirent64 *(*real_readdir64)(DIR *);
static int (*real_closedir)(DIR *);
static int cmp_dirent(const void *a, const void *b) { return strcmp(((const struct dirent64 *)a)->d_name, ((const struct dirent64 *)b)->d_name); }
static struct dirbuf *dirbuf_for(DIR *d, int create) {
    for (int i = 0; i < MAXDIRS; i++)
        if (dirbufs[i].d == d) return &dirbufs[i];
    if (!create) return NULL;
    for (int i = 0; i < MAXDIRS; i++)
        if (!dirbufs[i].d) {
            struct dirbuf *b = &dirbufs[i];
            b->ents = malloc(sizeof(struct dirent64) * 64);
            int cap = 64;
            b->n = 0;
            struct dirent64 *e;
            while ((e = real_readdir64(d)) != NULL && b->n < MAXENTS) {
                if (b->n == cap) { cap *= 2; b->ents = realloc(b->ents, sizeof(struct dirent64) * cap); }
                memcpy(&b->ents[b->n++], e, sizeof(struct dirent64));
            }
            qsort(b->ents, b->n, sizeof(struct dirent64), cmp_dirent);
            if (readdir_mode == 1) {
                for (int l = 0, r = b->n - 1; l < r; l++, r--) { struct dirent64 t = b->ents[l]; b->ents[l] = b->ents[r]; b->ents[r] = t; }
            } else if (readdir_mode >= 2 && b->n > 0) {
                int k = readdir_mode % b->n;
                struct dirent64 *t = malloc(sizeof(struct dirent64) * b->n);
                for (int j = 0; j < b->n; j++) t[j] = b->ents[(j + k) % b->n];
                memcpy(b->ents, t, sizeof(struct dirent64) * b->n);
                free(t);
            }
            b->pos = 0;
            b->d = d;
            return b;
        }
    return NULL;
}
struct dirent64 *readdir64(DIR *d) {
    init();
    if (!real_readdir64) real_readdir64 = dlsym(RTLD_NEXT, "readdir64");
    if (readdir_mode < 0) { const char *m = getenv("VERIF_READDIR"); readdir_mode = (m && *m) ? atoi(m) : 0; }
    if (readdir_mode == 0) return real_readdir64(d);
    struct dirbuf *b = dirbuf_for(d, 1);
    if (!b) return real_readdir64(d);
    if (b->pos >= b->n) return NULL;
    return &b->ents[b->pos++];
}
struct dirent *readdir(DIR *d) { return (struct dirent *)readdir64(d); }
int closedir(DIR *d) {
    init();
    if (!real_closedir) real_closedir = dlsym(RTLD_NEXT, "closedir");
    struct dirbuf *b = dirbuf_for(d, 0);
    if (b) { free(b->ents); b->ents = NULL; b->d = NULL; }
    return real_closedir(d);
}

/* Time is an answer of the environment as well: VERIF_CLOCK_STEP=<nanoseconds> makes CLOCK_MONOTONIC (what Instant::now()
 * reads) a virtual clock that advances by that amount on every query, so that "every N seconds" code paths are crossed
 * many times within a run of milliseconds - or never (step 0). Other clocks are left alone. */
#include <time.h>
static int (*real_clock_gettime)(clockid_t, struct timespec *);
static long long clock_step = -1;
static long long clock_now = 0;
/* for in-process harnesses: switch the virtual monotonic clock on (step in ns, 0 = standing still) or off (-2) at run time */
void verif_set_clock_step(long long step) { clock_step = step; }
int clock_gettime(clockid_t clk, struct timespec *ts) {
    if (!real_clock_gettime) real_clock_gettime = dlsym(RTLD_NEXT, "clock_gettime");
    if (clock_step == -1) {
        const char *s = getenv("VERIF_CLOCK_STEP");
        clock_step = (s && *s) ? atoll(s) : -2;
    }
    if (clock_step >= 0 && (clk == CLOCK_MONOTONIC || clk == CLOCK_MONOTONIC_RAW || clk == CLOCK_BOOTTIME) && ts) {
        long long t = __atomic_add_fetch(&clock_now, clock_step, __ATOMIC_SEQ_CST) + 1000000000LL * 1000;
        ts->tv_sec = t / 1000000000LL;
        ts->tv_nsec = t % 1000000000LL;
        return 0;
    }
    /* VERIF_REALTIME=<seconds since the epoch>: the calendar clock reads that instant (advancing 1 ms per query): the date is
     * an answer of the environment like any other (a year-2038 second, a leap day, midnight, the epoch itself) */
    static long long real_base = -1, real_ticks = 0;
    if (real_base == -1) {
        const char *s = getenv("VERIF_REALTIME");
        real_base = (s && *s) ? atoll(s) : -2;
    }
    if (real_base >= 0 && (clk == CLOCK_REALTIME || clk == CLOCK_REALTIME_COARSE) && ts) {
        long long k = __atomic_add_fetch(&real_ticks, 1, __ATOMIC_SEQ_CST);
        ts->tv_sec = real_base + k / 1000;
        ts->tv_nsec = (k % 1000) * 1000000L;
        return 0;
    }
    return real_clock_gettime(clk, ts);
}
