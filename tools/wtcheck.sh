#!/bin/bash
# tools/wtcheck.sh <copy dir> <subject worktree> <ID> [tier] — run one check from a scratch COPY of /verif (own .build, own
# replays) against a scratch worktree of the subject (VERIF_SUBJECT), so that several seeded changes can be judged side by
# side without touching /repo. The copy is refreshed from /verif first (sources only). Prints one line.
C=$1; W=$2; ID=$3; T=${4:-quick}
mkdir -p "$C"
rsync -a --exclude .git --exclude replays --exclude .build --exclude evidence /verif/ "$C"/
mkdir -p "$C/replays" "$C/evidence"
s=$(date +%s)
out=$(cd "$C" && VERIF_SUBJECT="$W" ./check "$ID" "$T" 2>&1); rc=$?
echo "$(basename $W) [$ID] rc=$rc wall=$(( $(date +%s)-s )) $(echo "$out" | grep -a -E '^(VIOLATION|MACHINERY|  signature)' | head -2 | cut -c1-260 | tr '\n' ' ')"
