#!/bin/bash
# tools/matrix.sh [seed dirs...] — every seeded change against every quick check (long). Works on VERIF_SUBJECT (default /repo).
cd "$(dirname "$0")/.."
for d in "$@"; do
  echo "=== $d"
  SEEDTEST_OUT=$d/result-matrix.json python3 tools/seedtest.py $d/patch.diff 2>&1 | grep -a -E "^(repo tests|C[0-9]+:)" | cut -c1-200
done
