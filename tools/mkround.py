#!/usr/bin/env python3
"""tools/mkround.py <round> <base dir> <framing file>  — prepare one round of independent seeded-change requests:
for every property a scratch git worktree of /repo under <base dir>/<ID> and a TASK.md in it that holds ONLY the property
record (id, title, statement, anchors), the framing of the round and one line per earlier attempt on that property (so the
new one differs). Nothing about the checks of /verif goes into the task."""
import glob, json, os, subprocess, sys

V = os.path.dirname(os.path.dirname(os.path.abspath(__file__)))
rnd, base, framing = sys.argv[1], sys.argv[2], open(sys.argv[3]).read()
only = sys.argv[4:]
props = [json.loads(l) for l in open(os.path.join(V, "properties.jsonl"))]
os.makedirs(base, exist_ok=True)
for p in props:
    pid = p["id"]
    if only and pid not in only:
        continue
    w = os.path.join(base, pid)
    if not os.path.exists(w):
        subprocess.check_call(["git", "-C", "/repo", "worktree", "add", "--detach", "-q", w, "HEAD"])
    earlier = []
    for d in ([] if os.environ.get("NOEARLIER") else sorted(glob.glob(os.path.join(V, "seeded", pid + "*-agent*")))):
        m = json.load(open(os.path.join(d, "meta.json")))
        earlier.append("- %s  [needed: %s]" % (m["change"], m["needs_to_manifest"]))
    anchors = p.get("anchors", {})
    task = """# Task: a realistic change to rusty-blockparser that breaks one stated property

You work ONLY inside this git worktree: `%(w)s` (a checkout of gcarq/rusty-blockparser, a CLI that parses
Bitcoin-family blk*.dat files and the LevelDB block index and dumps blocks, transactions, UTXOs and balances).
Do not read or write anything under /verif or /repo. Do not use `git stash` (the stash is shared
between worktrees and other people work in sibling worktrees): to get a pristine tree use `git checkout -- . && git clean -fdq -- src tests`
and re-apply your diffs from `seed/`. The machine is offline: `cargo build --offline`, `cargo test --offline`.
The repository's own test suite (41 tests, `cargo test --offline`) passes on this checkout.

## The property (id %(pid)s)

**%(title)s**

%(statement)s

Code the property is anchored in: %(files)s
Mechanisms: %(mech)s
Where it is observed: %(obs)s

## What is wanted

Make a change to the source of this worktree that

1. **breaks the property above** (for some input / option combination / environment / sequence the statement covers),
2. still **compiles**, and the **existing 41 tests still pass, unedited**,
3. looks like something a maintainer could plausibly commit (see "Framing of this round"), not like sabotage, and
4. needs **something specific to manifest** - a particular input shape or value, a multi-step sequence, an unusual but
   legitimate environment, two cooperating sites that each look fine alone - and does NOT show up in ordinary use at once
   (a run over a small ordinary chain with default options must still produce correct output).

%(framing)s

## Earlier attempts on this property (yours must use a different mechanism AND need a different trigger)

%(earlier)s

## Deliverables, all inside `%(w)s/seed/`

* `patch.diff` - the change alone (`git diff` of the source change, applies to pristine HEAD with `git apply`). Source files only.
* a demonstration, either
  * `demo_test.diff` - a diff that adds one or more tests (unit test in the crate, it may build a small blk file / LevelDB index /
    dump folder in a temp dir and call the crate's functions or run the built binary) which **fail with patch.diff applied and pass
    without it**; it must apply on top of patch.diff and also on pristine HEAD; plus `demo.sh` that runs just that test, or
  * `demo.sh` alone - a script (`bash seed/demo.sh` from the worktree root; it is called with the argument `without` when the
    patch is not applied) that builds and runs the binary on data it creates and exits 0 iff the property holds.
* `NOTES.md` - what the change is, why the tests stay green, exactly what is needed for the breakage to manifest, and the
  observable difference (expected vs. actual output).
* `meta.json` - {"property": "%(pid)s", "change": "<one sentence>", "needs_to_manifest": "<one sentence>"}.

Before you finish, verify yourself: (a) pristine HEAD + patch.diff: `cargo test --offline` shows 41 passed, 0 failed;
(b) with the demonstration added it fails with the patch and passes without it. Leave the worktree with patch (and demo test)
applied. Keep the change small (a few to a few dozen lines). Report in your final message: the one-sentence change, the trigger,
and the results of (a) and (b).
""" % dict(w=w, pid=pid, title=p["title"], statement=p["statement"], files=", ".join(anchors.get("files", [])),
           mech="; ".join("%s (%s)" % (m["name"], m["where"]) for m in anchors.get("mechanism", [])),
           obs="; ".join(anchors.get("observe_at", [])), framing=framing, earlier="\n".join(earlier) or "(none)")
    open(os.path.join(w, "TASK.md"), "w").write(task)
    print(w)
