#!/usr/bin/env python3
"""Rewrites the generated blocks of DESIGN.md (between <!-- BEGIN x --> / <!-- END x --> markers): seed table, evidence table."""
import json, os, glob, re, subprocess
V = os.path.dirname(os.path.dirname(os.path.abspath(__file__)))

def seed_table():
    out = subprocess.check_output(["python3", os.path.join(V, "tools", "mkseedtable.py")], text=True)
    return out

def evidence_table():
    rows = ["| property | tier of the committed evidence | states | transitions (executions of the real code) | distinct non-trivial | wall s | exhaustive within bound |", "|---|---|---|---|---|---|---|"]
    for f in sorted(glob.glob(os.path.join(V, "evidence", "C*.json"))):
        e = json.load(open(f)); c = e["coverage"]
        rows.append("| %s | %s | %d | %d | %d | %.1f | %s |" % (e["property_id"], e["tier"], c["states"], c["transitions"], c["distinct_nontrivial"], e["wall_s"], c["exhaustive"]))
    return "\n".join(rows) + "\n"

def main():
    p = os.path.join(V, "DESIGN.md")
    s = open(p).read()
    for name, fn in (("SEEDS", seed_table), ("EVIDENCE", evidence_table)):
        b, e = "<!-- BEGIN %s -->" % name, "<!-- END %s -->" % name
        if b in s and e in s:
            s = s[: s.index(b) + len(b)] + "\n" + fn() + s[s.index(e):]
    open(p, "w").write(s)

main()
