#!/usr/bin/env python3
"""Prints the markdown table of seeded changes (from seeded/*/meta.json and result files) for DESIGN.md §11.4."""
import json, os, glob
V = os.path.dirname(os.path.dirname(os.path.abspath(__file__)))
rows = []
for d in sorted(glob.glob(os.path.join(V, "seeded", "C*-agent*"))):
    m = json.load(open(os.path.join(d, "meta.json")))
    name = os.path.basename(d)
    mat = {}
    for f in ("result-matrix.json",):
        fp = os.path.join(d, f)
        if os.path.exists(fp):
            mat = {k: v["verdict"] for k, v in json.load(open(fp))["checks"].items()}
    others = sorted(k for k, v in mat.items() if v == "VIOLATION" and k != m["property"])
    note = m.get("note", "")
    first = "yes"
    if note.startswith("missed") or "first version caught it only" in note or note.startswith("detected after"):
        first = "no -> check strengthened"
    if note.startswith("not reachable in the quick tier"):
        first = "no -> thorough tier strengthened (scale beyond the quick tier)"
    if note.startswith("NOT judged"):
        first = "not judged: outside the property's input domain (see text)"
    rows.append("| %s | %s | %s | %s | %s |" % (name, m["change"].replace("|", "\\|"), m["needs_to_manifest"].replace("|", "\\|"), first, ", ".join(others) if mat else "n/a"))
print("| seed | change | needs | caught by the check as first built | other checks that also fire |")
print("|---|---|---|---|---|")
print("\n".join(rows))
