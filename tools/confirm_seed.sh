#!/bin/bash
# tools/confirm_seed.sh <ID> [name]  — confirm a sub-agent's seeded change in its scratch worktree /tmp/seed/<ID>:
#  (1) patch applies to pristine HEAD, project builds, all 41 repository tests pass with the change alone,
#  (2) with the demonstration test added: it fails with the change, and everything passes without the change,
#  then copy patch + demonstration to /verif/seeded/<name>/ . Does not touch /repo.
set -u
ID=$1; NAME=${2:-$ID}; W=${SEEDBASE:-/tmp/seed}/$ID; OUT=/verif/seeded/$NAME
cd "$W" || exit 2
[ -f seed/patch.diff ] || { echo "no seed/patch.diff"; exit 2; }
pristine() { git checkout -q -- . ; git clean -fdq -- src tests 2>/dev/null; }
# sum over all test binaries (unit tests and integration tests under tests/)
res() { cargo test --offline --no-fail-fast 2>&1 | grep -a -E "^test result" | awk '{p+=$4; f+=$6} END {printf "test result: %d passed; %d failed\n", p, f}'; }
pristine
git apply --check seed/patch.diff || { echo "PATCH DOES NOT APPLY"; exit 1; }
git apply seed/patch.diff
A=$(res); echo "change only:            $A"
OK=yes
echo "$A" | grep -q " 41 passed; 0 failed" || OK=no
if [ -f seed/demo_test.diff ]; then
  git apply seed/demo_test.diff || { echo "demo test does not apply on top of the change"; OK=no; }
  B=$(res); echo "change + demo test:     $B"
  echo "$B" | grep -qE " 4[0-9] passed; [1-9][0-9]* failed" || OK=no
  pristine; git apply seed/demo_test.diff
  C=$(res); echo "demo test, no change:   $C"
  echo "$C" | grep -qE " 4[2-9] passed; 0 failed" || OK=no
else
  bash seed/demo.sh > /tmp/seed/$ID.with.log 2>&1; WITH=$?
  pristine
  bash seed/demo.sh without > /tmp/seed/$ID.without.log 2>&1; WITHOUT=$?
  echo "script demo: with=$WITH without=$WITHOUT"
  [ "$WITH" != 0 ] && [ "$WITHOUT" = 0 ] || OK=no
fi
pristine; git apply seed/patch.diff; [ -f seed/demo_test.diff ] && git apply seed/demo_test.diff
if [ "$OK" = yes ]; then mkdir -p "$OUT"; cp -r seed/* "$OUT"/; echo CONFIRMED; exit 0; else echo NOT-CONFIRMED; exit 1; fi
