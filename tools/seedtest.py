#!/usr/bin/env python3
"""tools/seedtest.py <patch.diff> [ID ...]  — apply a seeded change to /repo, run the repository's own tests and the
quick checks (all, or the listed ones), undo the change. Prints which checks raise a VIOLATION. Never commits to /repo."""
import json, os, subprocess, sys, time

def sh(cmd, **kw):
    return subprocess.run(cmd, shell=True, stdout=subprocess.PIPE, stderr=subprocess.STDOUT, text=True, **kw)

REPO = os.environ.get("VERIF_SUBJECT", "/repo")
VERIF = os.path.dirname(os.path.dirname(os.path.abspath(__file__)))

def main():
    patch = os.path.abspath(sys.argv[1])
    ids = sys.argv[2:] or ["C%02d" % i for i in range(1, 18)]
    st = sh("git -C %s status --porcelain" % REPO)
    if st.stdout.strip():
        print("refusing: subject repo is not clean:\n" + st.stdout)
        sys.exit(2)
    r = sh("git -C %s apply --whitespace=nowarn %s" % (REPO, patch))
    if r.returncode != 0:
        print("patch does not apply:\n" + r.stdout)
        sys.exit(2)
    result = {"patch": patch, "checks": {}}
    try:
        t = sh("cd %s && cargo test --offline 2>&1 | grep -a -E 'test result|error(\\[|:)' | head -5" % REPO)
        result["repo_tests"] = t.stdout.strip()
        print("repo tests:", t.stdout.strip())
        for i in ids:
            t0 = time.time()
            c = sh("cd %s && ./check %s quick" % (VERIF, i))
            lines = [l for l in c.stdout.splitlines() if l.startswith(("VIOLATION", "MACHINERY", "KNOWN"))]
            sig = [l.strip() for l in c.stdout.splitlines() if l.strip().startswith("signature:")]
            verdict = {0: "pass", 1: "VIOLATION", 2: "MACHINERY-ERROR"}.get(c.returncode, str(c.returncode))
            if verdict == "VIOLATION" and not any(l.startswith("VIOLATION") for l in lines):
                verdict = "MACHINERY-ERROR(no VIOLATION line)"
            result["checks"][i] = {"verdict": verdict, "wall_s": round(time.time() - t0, 1), "first": (sig[0][:300] if sig else (lines[0][:300] if lines else ""))}
            print("%s: %s %s" % (i, verdict, (sig[0][:220] if sig else (lines[0][:220] if lines else ""))))
    finally:
        sh("git -C %s checkout -- . && git -C %s clean -fdq -- src tests" % (REPO, REPO))
        # evidence files were rewritten by runs on a modified tree: they are regenerated below
    print(json.dumps(result))
    out = os.environ.get("SEEDTEST_OUT")
    if out:
        json.dump(result, open(out, "w"), indent=1)

main()
