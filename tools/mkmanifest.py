#!/usr/bin/env python3
"""Regenerates /verif/MANIFEST.json from the table below (single source of truth for levels/techniques)."""
import json, os
V = os.path.dirname(os.path.dirname(os.path.abspath(__file__)))

# id: (level, engine, technique, level text, level note, design section)
CHECKS = {
 "C01": ("exploration", "e1",
  "bounded-exhaustive enumeration of chain/transaction shapes (full product of a 256-shape alphabet, ordered shape pairs, CompactSize and integer boundary sweeps, items up to 2.5 MiB) executed on the real binary and compared byte-for-byte with an independent serialiser/hasher model",
  "Every world of the stated grammar is materialised (blk file + LevelDB index) and dumped by the binary built from the working tree; all four CSV files must equal the reference rendering byte for byte, file names and the completion totals included, with and without --verify. Quick: product on 4 coins, all 8 coins for the base shape, 7 count/length dimensions x {0xfc,0xfd,0xfe,0xffff,0x10000}, scripts / witness items of 1 MiB+1 and 2.5 MiB, u32/u64 field extremes, stored length prefix different from the serialised length.",
  "Trusted: SHA-256/RIPEMD-160 (bitcoin_hashes), rusty-leveldb. Not covered: counts >= 2^32, non-canonical CompactSize, versions >= 2^31.", "6/C01"),
 "C02": ("model_checking", "e1",
  "explicit enumeration of the complete option space (tip x --start x --end x callback) executed on the real binary, compared with a reference model; differential slice law; dirty-folder and long-chain variants",
  "Every accepted (--start, --end) combination for every tip height up to 6 (thorough 10), for all five callbacks - the file-producing ones also with the leftovers of an aborted whole-chain dump in the dump folder - plus a 300-block (thorough 1000) chain with ranges around height 256 and the same range shapes on sparse indexes at VarInt-width, halving and >32-bit heights: delivered heights, file names, declared last height and per-callback output must equal the reference model run on exactly heights s..min(e,T); csvdump/opreturn output of a range must equal the slice of the whole-chain output.",
  "Trusted: rusty-leveldb as index writer/reader, SHA-256. One chain shape per tip (every height contributes to every callback).", "6/C02"),
 "C03": ("exploration", "e1",
  "exhaustive enumeration of physical layouts (all ordered arrangements of n blocks into <=3 files x gap kinds x index storage forms, a second chain of equal-sized blocks for cross-file offset coincidences, VarInt-boundary sweeps of file numbers and offsets incl. sparse >4 GiB, 70 000 blocks in one file) executed on the real binary; every layout must reproduce the model output of the logical chain",
  "All n!*C(n+2,2) arrangements (n=4 quick, n=5 thorough) with garbage / fake-magic / unindexed-block gaps, log-only / compacted / overwritten / reopened index, junk keys and foreign directory entries; the same for a chain whose blocks (and gap blocks) all have the same size; one-dimension sweeps over every Core-VarInt width boundary for file numbers (up to 2^64-1) and data offsets (up to 5 GiB sparse); file-name paddings; 68 000 + 2 000 blocks in two files: csvdump output must equal the layout-independent model, hence be identical across layouts.",
  "Trusted: rusty-leveldb (also used to write the index). Not covered: ambiguous duplicate file numbers, symlinks.", "6/C03"),
 "C04": ("model_checking", "e1",
  "explicit enumeration of block-index histories (active chain + every set of <=2 (thorough 3) competitor/header-only records, both LevelDB key orders, three write histories, --end at competitor heights under 10 HashMap iteration orders) executed on the real binary and compared with the model of the active chain",
  "For an active chain of 5 blocks, every set of extra records drawn from 26 singles (header-only at/below/beyond the tip, stale sibling with data, failed block with data, FAILED_CHILD header, reorged-out branch, invalidated branch reaching above the tip, never-connected blocks above the tip), each competitor's hash ground to sort before and after the active block's key: csvdump and unspentcsvdump must equal the model of the active chain, rows must be prev-linked and no competitor txid may appear.",
  "Trusted: rusty-leveldb. Excluded: two fully validated tips of equal height; adversarial header bytes in header-only records.", "6/C04"),
 "C05": ("exploration", "e2",
  "complete enumeration of byte-string families (all scripts of length <=2, every 1-byte mutation/truncation/extension of every template, witness and multisig lookalike grids, all token sequences up to length 4/5) evaluated in-process by the repository's own eval_from_bytes and compared with an independent byte-level reference classifier with own Base58Check/Bech32(m) codecs; bound to the binary's output by class-representative worlds",
  "2.2 million (thorough 10.7 million) scripts per run cover every listed family completely on bitcoin and testnet3; type label and address must equal the reference rules, addresses are additionally decoded by the model's own decoders on mismatch. One world per network with a representative of every class is run through all five callbacks of the real binary so that what is printed is what was evaluated.",
  "Trusted: SHA-256/RIPEMD-160. Grey zones left open by the text (v0 witness programs of illegal length: label; empty multisig keys) are not judged beyond 'no address'. Random byte strings are not sampled.", "6/C05"),
 "C06": ("exploration", "e2",
  "complete enumeration of byte-string families incl. every push encoding for every template slot x 15 payload lengths x truncation points, NOP insertion at every token boundary, huge PUSHDATA lengths, on all 6 fork coins, evaluated in-process against a reference push-rule tokeniser + template matcher; bound to the binary by class-representative worlds",
  "2.6 million (thorough 27 million) scripts per run on the six fork coins; type, address (coin version byte, 0x05 for P2SH) and OP_RETURN payload must equal the reference; no evaluation may panic or yield an Error pattern.",
  "Trusted: SHA-256/RIPEMD-160. NOP set = 0x61, 0xb0..0xb9.", "6/C06"),
 "C07": ("model_checking", "e1",
  "explicit-state enumeration of all spend histories of a bounded grammar (no state merging), each executed on the real binary and compared with a reference UTXO state machine; plus scale worlds",
  "Every history of the grammar (3 blocks; coinbases A/B/duplicate txid; up to 2 (quick) or 3 (thorough) non-coinbase transactions in any block; inputs drawn from earlier outputs, later outputs, unknown txids, out-of-range indices and already-referenced outpoints; outputs from address-bearing, OP_RETURN, bare multisig and zero-value kinds) is materialised and dumped with unspentcsvdump; the row set, header, duplicates, file name and summary totals must equal the model's UTXO map. Output-index width sweeps (255/256/65535/65536), values near 2^64, 250 000 unspent outputs, --start ranges and two more coins are included.",
  "Trusted: SHA-256/RIPEMD-160, rusty-leveldb. Bound: 3 blocks, <=2/3 non-coinbase txs with the output-pattern restrictions stated in the evidence; long random histories are not sampled (different family).", "6/C07"),
 "C08": ("model_checking", "e1",
  "same explicit-state history enumeration as C07, run through balances and unspentcsvdump; balances compared with the model and with the aggregation of the observed unspent dump (differential)",
  "Every history of the C07 grammar extended with P2PK outputs of the key behind address A (same address through two script types) is run through both callbacks: balances must list each address with >=1 unspent output exactly once with the exact sum, and must equal the per-address aggregation of the unspent dump of the same world and range; scale worlds: sums beyond 2^32 / 2^53 / near 2^64, 3000 outputs to one address, 250 000 unspent outputs.",
  "As C07.", "6/C08"),
 "C09": ("fault_enumeration", "e1",
  "exhaustive single-fault enumeration: every single-bit flip of every prev-hash, merkle-root and transaction byte of every block of small chains (plus block swaps, wrong genesis, --start offsets) injected into the stored data and run through the real binary with --verify; consistent chains of every small merkle-tree shape must pass; utils::merkle_root in-process for every leaf count up to 1100 (thorough 5000)",
  "For 4-block chains with 1, 2 and 3 (thorough also 4, 5, 8) transactions per block every bit of every covered byte is flipped, one at a time, in the materialised blk file and the real binary is run with --verify: it must exit non-zero, leave no final-named file and name the corrupted height. 120 consistent chains (tx counts 1..17, 31..33, 64, 65; all 8 coins; --start 0..2; AuxPoW) must be accepted with model-equal output.",
  "Trusted: SHA-256. A panic/abort caused by a flipped length field counts as rejection (counted separately). Heights the run declares outside its processed range are not judged (C02). Not covered: multi-bit corruptions other than swaps; sibling blocks with the same parent.", "6/C09"),
 "C10": ("fault_enumeration", "e3a",
  "exhaustive fault and crash-point enumeration at syscall granularity on the real binary: an LD_PRELOAD interposer numbers every open/write/rename/close on the dump folder; every answer of the environment alphabet at every call (deviation bound 1 complete, bound 2 on the small world), a kill before every call, every input fault at every height, a byte-granular RLIMIT_FSIZE sweep, and a recovery run after every failed or killed run",
  "For csvdump, unspentcsvdump and balances on a small world (all output written at completion) and a large one (120 000 outputs: 4 MB buffers overflow mid-run): exit 0 implies all final-named files present, identical to the undisturbed run, no *.tmp; a failed write/open or unreadable block implies non-zero exit, the failing height reported, no final-named file; at every crash point every existing final-named file is complete; an undisturbed shorter run in the folder of a failed/killed run is complete and identical to a fresh-folder run. The prefix of intercepted calls before the deviation must equal the recorded fault-free sequence (else machinery error).",
  "Crash = _exit at a syscall boundary (what SIGKILL leaves: page cache intact); power-loss durability is not claimed by the property. rename/close failures are judged only by 'whatever has a final name is complete'.", "6/C10"),
 "C11": ("model_checking", "e2",
  "the XOR reader as a state machine: ALL operation sequences up to depth 3 (thorough 4) over the operations BlkFile::read_block issues (Seek(Start p), Read(n), ReadExact(n)) x 14 keys x 5 buffer capacities executed on the real XorReader<seek_bufread::BufReader> and compared step by step with a plain-slice reference; plus whole-program differential runs (obfuscated vs plaintext directory) over all layouts of C03",
  "14.6 million (thorough 51 million) operation sequences on the real reader type built exactly as BlkFile::open builds it, every returned byte and position compared; and ~3500 runs of the real binary over all arrangements of the blocks in <=3 files, 8 keys, blocks larger than the 32 KiB buffer and >4 GiB sparse offsets, each compared with the plaintext directory's output.",
  "Relative seeks are not in the alphabet (the parser never issues them; seek_bufread 1.2.2 mishandles Seek(Current(-d)) after a flushing seek - a library defect outside the statement). Empty xor.dat is outside the statement.", "6/C11"),
 "C12": ("exploration", "e1",
  "bounded-exhaustive enumeration of AuxPoW section shapes and block-version orders executed on the real binary with --verify and compared with a model that never sees the section",
  "All 27 orders of below/at/above-threshold versions in 3-block namecoin and dogecoin chains, the full product of parent-coinbase form x branch lengths {0,1,2}^2 x masks, long-branch sweeps across the 0xfd boundary (thorough up to 1000), and the six non-AuxPoW coins with 11 versions around both thresholds and up to 0xffffffff: csvdump --verify must succeed and equal the model (hash over the 80-byte header, transaction list after the section).",
  "Trusted: SHA-256, rusty-leveldb. Versions >= 2^31 are used only on coins without AuxPoW (the statement is unambiguous there).", "6/C12"),
 "C13": ("model_checking", "e3b",
  "stateless DFS over ALL item-level schedules of the parallel regions, executed on the repository's own code with the crate rayon replaced by a controlled-scheduler model (baton scheduler on real threads, recorded choice points, no partial-order reduction); pre-emption-bounded exploration (iterative context bounding, bounds 1..2, thorough 3) of the interleavings INSIDE item closures, with every operation on std::sync::{Mutex, RwLock, atomic::*} of the subject's sources as a scheduling point (std shadowed by a wrapper crate, sources unmodified), lock blocking and deadlock detection, from initial and from warmed-up (non-initial) states; plus BFS over all histories (depth 3) of runs sharing dump folder and data directory on the real binary",
  "Every schedule of worlds 1x4, 2x2, 3x1 (txs x outputs; non-coinbase txs of equal size and value so that tie-dependent figures show) and a two-block world, on bitcoin and litecoin (15 520 complete in-process runs in quick; 2x3, 4x1 and 3x2 = 277 200 in thorough, 2.6 million runs), through csvdump / simplestats / opreturn (and unspent / balances where affordable): each observation must equal schedule 0's; measured schedule counts equal the closed-form number of linear extensions. Worker-pool mode of the same scheduler model (2 worker threads, thread-local state persists per worker, a waiting worker runs other tasks on its own stack): all order x worker-assignment schedules (3 994 in quick) of tiny fork-coin worlds in which one hash160 is used as P2PKH, P2SH and P2PK. All 258 run sequences x 3 initial dump-folder states x {1,16} threads on the real binary: results equal fresh-folder results, other files untouched, blk/xor files and index content unchanged. Inside closures: the harness crate lists a wrapper crate as a dependency NAMED std, so every std::sync::{Mutex, RwLock, atomic::*} operation of the subject's (unmodified) sources reports to the scheduler before it happens and can be pre-empted there; locks block and wake entities, a state in which every entity waits is reported as a deadlock. Bound 0 (closures atomic) is always completed; if any closure performs such an operation, bounds 1 and 2 (thorough 3) are explored on small worlds with repeating scripts, mixed output kinds and on worlds entered after a warm-up of 4100 distinct scripts (tables that recycle when full), each under a wall budget that is reported when it strikes. On the pinned tree no closure synchronises, so these phases add no schedule and the evidence says so. Labelled sampling: a free-running real-rayon pass (1..64 threads, blocks of hundreds of txs, compared with the single-thread run) and, in thorough, Miri's data-race detector on the decode path.",
  "The scheduler model over-approximates rayon's documented ordering freedom at item granularity; inside closures the scheduling points are the operations on std::sync::{Mutex, RwLock, atomic::*} named through std in the subject's own sources (sufficient for safe Rust: between two of them a closure touches nothing another closure can touch) - unsafe shared memory, thread_local!, Condvar / mpsc / Once*, and primitives of other crates are not scheduling points and remain with the labelled sampling passes. The monotonic clock stands still inside executions. Canaries (an order-dependent for_each must show all 6 orders; a thread-local counter must show several outcomes in pool mode; a load-then-store counter must lose an update exactly when one pre-emption is allowed) guard against a vacuous explorer. Whether the common result is right is left to C01/C07/C08/C15/C16.", "6/C13"),
 "C14": ("exploration", "e2",
  "totality sweep: every script of the C05/C06 families plus length/encoding extremes evaluated in-process under catch_unwind with overflow checks for all 8 coins; ~300 adversarial strings injected into scriptPubKey / scriptSig / witness items of a host chain and run through all callbacks of the real binary with masked comparison against the model",
  "4.3 million (thorough 12.7 million) in-process evaluations (no panic allowed) and 864 whole-program worlds (8 coins x 3 fields x callbacks x batches of 50 strings, bisected on failure): exit 0, no panic text, and all rows/figures outside the injected cell equal the model (per-type lines are never judged here). Thorough repeats the whole-program part on the release-profile binary.",
  "Dev-profile semantics (overflow checks on) in-process. Value sums kept < 2^63. Strings up to 100 KB.", "6/C14"),
 "C15": ("exploration", "e1",
  "bounded-exhaustive enumeration of chains (all timestamp sequences over {1,1000,4e9} of length 1..4 x 5 transaction mixes, reward-boundary heights, every script class, size prefixes summing beyond 2^32, chains of 4097 and 5000 blocks) run through simplestats of the real binary; every figure of the parsed report compared with an exact integer/rational recomputation; get_mean exhaustively on all short sequences over {0,1,2^31,2^32-1}",
  "~1170 whole-program runs + 341 in-process get_mean evaluations: integers must be equal, printed decimals must lie within half a unit of the last printed digit of the exact rational, type lines are compared as a map, ties resolve to the first transaction. Thorough repeats everything on the release-profile binary.",
  "Not covered: value sums >= 2^64, header time 0 (the code's 'no previous block' sentinel), coinbases without outputs.", "6/C15"),
 "C16": ("exploration", "e2",
  "full product payload length x content class x push form evaluated in-process and, embedded in chains, through the opreturn callback of the real binary with several range shapes; stdout lines compared with the model's list",
  "1020 (coin, script) evaluations in-process plus 20 whole-program runs (4 coins x 5 ranges, 3 blocks, ~65 transactions with 7 payload outputs each, interleaved with non-OP_RETURN outputs): the printed (height, txid, payload) lines must be exactly the model's, in chain order.",
  "Payloads with CR/LF are excluded from the grammar. Other OP_RETURN shapes are don't-care.", "6/C16"),
 "C17": ("model_checking", "e3a",
  "all set partitions of the heights into blk files x range shapes (also with stale blocks at file ends and with strided file numbers); the real binary's syscall trace (LD_PRELOAD interposer: open/close of blk files interleaved with per-height markers) is replayed through the open-set automaton of the statement and its peak compared with the model's overlap number; plus black-box runs under a calibrated RLIMIT_NOFILE",
  "For every one of the Bell(6)=203 (thorough Bell(8)=4140) height->file assignments: 4 range shapes, a variant with a never-connected stale block appended to every file, and file numbers k*stride for strides 256, 4096, 65536, 2^32, 2^32+4096. The trace must satisfy: after the block of height h is delivered no open blk file has its highest active block <= h, and the peak number of open blk files equals the overlap number; the same run must succeed with RLIMIT_NOFILE = N1 + overlap - 1 (N1 calibrated on the single-file layout with the same binary); 200 and 1200 disjoint one-block files run under N1 with trace peak 1.",
  "Trusted: the interposer sees every open/close (Rust std uses libc open64/close). 'Height yet to come' is read against the whole index. Output content is not judged here.", "6/C17"),
}
NOT_YET = {}

# added in later rounds (appended to the level text)
EXTRA = {
 "C01": " Block and transaction versions in the upper half of the 4-byte field (0x80000000 .. 0xffffffff), printed as the unsigned numbers that are stored. Counts and lengths at the powers of two and their neighbours (127 .. 32 769). Data-carrier outputs with UTF-8 texts in which a multi-byte character lies across every byte offset up to 200.",
 "C12": " Versions with the top bit set on the AuxPoW coins (with their sections). Parent coinbases with a witness item of 25 lengths up to 65 537 bytes and with UTF-8 pool tags at every alignment.",
 "C15": " A coinbase whose first output lies in the upper half of the 8-byte amount field. Blocks with several coinbase-shaped transactions.",
 "C17": " The 200-file disjoint layout entered with --start at heights around 2^16, 2^31, 2^32 and 2^40 under the calibrated descriptor limit. The same layout with file names without padding and with nine digits.",
 "C02": " Asynchronous events: a signal (SIGINT/SIGTERM/SIGHUP/SIGUSR1) raised before EVERY read of a blk file - whatever then carries a final name after an exit 0 must hold exactly the model's output for the range in its name. Partial directories (the file of the blocks below --start missing), the reader's calendar clock behind the chain. Non-block keys in every other index (flag, reindex, file, last-file, txindex records). Heights spelled with leading zeros, a plus sign, or as --start=N.",
 "C04": " The index replaced while the run is in the middle of its blocks (chain grows / tip reorganised / deeper reorganisation), applied by the shim before EVERY blk read in turn: the delivered sequence must stay a chain of blocks that are active before or after. The reader's calendar clock behind the chain's timestamps. Active chains across the powers of ten (10^5 .. 10^10) with every competitor kind.",
 "C07": " Twin-id history explorer: every ordered selection of up to 3 of the 4 outpoints of two transactions whose ids agree in 10 byte regions is spent (410 worlds per callback, real callbacks, ids replaced after parsing). Signals before every blk read (see C02). Amounts in the upper half of the 8-byte field (2^63, 2^63+1, 2^64-1) as single values. Blocks without a leading coinbase (none, second, several), transactions without any address in front of spending ones, ranges with nothing to list (header line only).",
 "C08": " Twin-id history explorer and signals before every blk read as in C07. Amounts in the upper half of the 8-byte field as single values. The same coinbase-position and nothing-to-list worlds as C07.",
 "C09": " Must-pass chains on a pruning node's directory (--verify --start at / above the first stored height). Must-pass chains with witness stack items of 252 .. 400 000 bytes. Must-pass chains whose transactions carry long UTF-8 texts in data-carrier outputs.",
 "C10": " Signals (SIGINT/SIGTERM/SIGHUP/SIGUSR1/SIGQUIT) raised immediately before EVERY intercepted call on the dump folder and before EVERY blk read: exit 0 only with complete output, and a file under a final name of the undisturbed run is never partial. Merged-mined chains (namecoin, dogecoin) cut at EVERY byte. Input fault 'the record names a missing blk file whose number equals a present file's modulo 2^8 / 2^16 / 2^32 / 2^63'. A reference run that fails on the tree under test is judged by the failure clause and the enumeration that needs it is reported as not run (never a machinery error). Input fault 'blk file removed, copies under look-alike names left next to it'.",
 "C11": " Layouts with blk files that live in another directory and are linked back. Keys of 255, 256, 257, 300, 1024 and 65 537 bytes without a shorter period.",
 "C03": " Layouts with blk files that live in another directory and are linked back. File-number twins: two files whose numbers agree modulo 2^8 / 2^16 / 2^31 / 2^32 / 2^33 / 2^63, the chain alternating between them.",
 "C13": " Directories taking turns at one path (two good ones, two whose index cannot be loaded; all sequences up to depth 3; TMPDIR / HOME / XDG directories persisting): every run must end like the same run on a fresh path. The free-running real-rayon pass (sampling, labelled) includes a block of 24 x 1500 outputs; a run whose threads are all asleep is judged by the watchdog. Unspent / balances dumps of 20 000 rows under five hash seeds and worker counts. Stored-but-unconnected blocks above the validated tip in the world that runs under ten hash seeds.",
 "C16": " Runs that fail at a LATER block (4 ways x every height x 3 coins): the lines of the blocks processed before are due. Blocks whose LAST printed line is a payload ending in white space / a line break / NUL; payloads with a multi-byte character across every byte offset up to 200.",
}
PROFILE_NOTE = " Build profile as a dimension: ./check builds the subject in the dev AND the release profile; one whole-program run in four (chosen by a hash of the case) goes to the release binary, and the in-process sweeps run twice, compiled with and without debug assertions / overflow checks."

def main():
    props = [json.loads(l) for l in open(os.path.join(V, "properties.jsonl"))]
    checks, na = [], []
    for p in props:
        pid = p["id"]
        if pid in CHECKS:
            level, engine, technique, text, note, ref = CHECKS[pid]
            checks.append({
                "property_id": pid,
                "quick_cmd": "./check %s quick" % pid,
                "thorough_cmd": "./check %s thorough" % pid,
                "evidence_file": "/verif/evidence/%s.json" % pid,
                "replay_cmd_template": "./check --replay {path}",
                "engine": engine,
                "level_claimed": {"category": level, "text": text + EXTRA.get(pid, "") + PROFILE_NOTE, "design_ref": "DESIGN.md §" + ref},
                "level_note": note,
                "technique": technique,
            })
        else:
            na.append({"property_id": pid, "reason": NOT_YET.get(pid, "check not built yet in this round (designed in DESIGN.md §6; applicable to model checking)")})
    m = {
        "version": 1,
        "setup_cmd": "./setup.sh",
        "hooks": {
            "guard": "rusty_blockparser_verif",
            "enable": "none needed: the harness crates compile /repo/src unmodified via include!(concat!(env!(\"RBP_SRC\"), \"/main.rs\")) and run the binary built from /repo; the guard name is reserved",
            "baseline_off_cmd": "cd /repo && cargo test --workspace --no-fail-fast --offline",
            "source_commits": [],
            "add_only": True,
        },
        "engines": [
            {"name": "e1", "path": "mc/explore", "serves_properties": ["C01","C02","C03","C04","C05","C06","C07","C08","C09","C11","C12","C13","C14","C15","C16","C17"], "kind_free_text": "world explorer: enumerates worlds (chain x layout x index x options), materialises each and runs the real binary; compares with the reference model"},
            {"name": "e2", "path": "mc/inproc", "serves_properties": ["C05","C06","C07","C08","C09","C11","C13","C14","C15","C16"], "kind_free_text": "in-process explorer over the repository's own modules (include! of /repo/src/main.rs): exhaustive byte-string families and operation sequences"},
            {"name": "e3a", "path": "faultfs + mc/explore", "serves_properties": ["C10","C17"], "kind_free_text": "LD_PRELOAD interposer enumerating every fault answer / crash point of the output protocol at syscall granularity"},
            {"name": "e3b", "path": "mc/rayon-sched + mc/verif-std + mc/inproc-sched", "serves_properties": ["C13"], "kind_free_text": "(two engine processes: e3b item-level trees and pre-emption-bounded phases, e3p worker-pool mode and big-block schedule family) controlled-scheduler stand-in for rayon + std::sync wrappers (mc/verif-std, a dependency named std): stateless DFS over all item-level schedules of the parallel regions and, pre-emption-bounded, over the interleavings inside item closures"},
        ],
        "checks": checks,
        "not_applicable": na,
        "notes": "All checks: ./check <ID> <quick|thorough>; replay: ./check --replay <file>. known_findings.json lists recorded/fixed defects.",
    }
    json.dump(m, open(os.path.join(V, "MANIFEST.json"), "w"), indent=1)
    print("checks:", [c["property_id"] for c in checks], "not_applicable:", len(na))

main()
