#!/usr/bin/env python3
"""tools/setmeta.py <seed dir> <round text> <confirmed cmd> <detected_by> <note> — complete a seed's meta.json (the sub-agent
supplies property / change / needs_to_manifest)."""
import json, sys
d, origin, confirmed, detected, note = sys.argv[1:6]
p = d.rstrip("/") + "/meta.json"
m = json.load(open(p))
m = {"property": m["property"], "origin": origin, "change": m["change"], "needs_to_manifest": m["needs_to_manifest"], "confirmed": confirmed, "detected_by": detected, "note": note}
json.dump(m, open(p, "w"), indent=1)
print(p)
