#!/bin/bash
# tools/diagonal.sh [seed dirs...] — every seeded change against the quick check of ITS OWN property (regression of the
# checks after they were extended). Works on VERIF_SUBJECT (default /repo). Prints one line per seed.
cd "$(dirname "$0")/.."
for d in "$@"; do
  p=$(python3 -c "import json,sys;print(json.load(open('$d/meta.json'))['property'])" 2>/dev/null)
  [ -z "$p" ] && p=$(basename $d | sed -E 's/^m[0-9]+-(C[0-9]+)-.*/\1/')
  r=$(python3 tools/seedtest.py $d/patch.diff $p 2>&1 | grep -a -E "^(C[0-9]+:|patch)" | cut -c1-160 | tr '\n' ' ')
  echo "$d [$p] $r"
done
