// The repository's own crate root, compiled unmodified from the working tree (RBP_SRC=/repo/src),
// with the crate `rayon` resolved to the controlled-scheduler model in ../rayon-sched.
#![allow(dead_code, unused_imports, clippy::all)]
include!(concat!(env!("RBP_SRC"), "/main.rs"));

#[path = "sched_driver.rs"]
pub mod sched_driver;
