//! E3b: every item-level schedule of the parallel regions, on the repository's own code
//! (parse_args -> ChainStorage::new -> BlockchainParser::start), rayon replaced by ../rayon-sched.
//! Root process: builds the worlds, runs schedule [] as baseline, compares it with the model, splits the
//! schedule tree into disjoint subtrees and farms them out to worker processes (stdout capture is per process).
use crate::blockchain::parser::chain::ChainStorage;
use crate::blockchain::parser::BlockchainParser;
use rayon::sched;
use refmodel::chain::{coinbase, pay, ChainBuilder, COIN_VALUE};
use refmodel::coins::coin;
use refmodel::ev::{h8, is_thorough, threads, Report};
use refmodel::oracle::*;
use refmodel::run::{observe, RunResult};
use refmodel::script;
use refmodel::ser::{hex, Tx, TxIn, TxOut};
use refmodel::world::World;
use serde_json::{json, Value};
use std::collections::{BTreeMap, BTreeSet};
use std::io::Write;
use std::path::{Path, PathBuf};
use std::sync::Mutex;

static LOGBUF: Mutex<String> = Mutex::new(String::new());

struct CaptureLogger;
impl log::Log for CaptureLogger {
    fn enabled(&self, m: &log::Metadata) -> bool {
        m.level() <= log::Level::Info
    }
    fn log(&self, r: &log::Record) {
        if self.enabled(r.metadata()) {
            LOGBUF.lock().unwrap().push_str(&format!("[00:00:00] {} - {}: {}\n", r.level(), r.target(), r.args()));
        }
    }
    fn flush(&self) {}
}

fn init_logger() {
    let _ = log::set_boxed_logger(Box::new(CaptureLogger));
    log::set_max_level(log::LevelFilter::Info);
}

/// Worker processes run their executions inline (a forked child per execution costs more than the execution itself): before
/// each one they record the schedule in flight, so that the root can name it if the execution ends the whole worker.
static INLINE: std::sync::atomic::AtomicBool = std::sync::atomic::AtomicBool::new(false);
static IN_FLIGHT: Mutex<Option<PathBuf>> = Mutex::new(None);

/// csvdump runs carry --verify when the world starts with the coin's real genesis block (set by the callers).
static VERIFY: std::sync::atomic::AtomicBool = std::sync::atomic::AtomicBool::new(false);

/// One complete in-process run under the controlled scheduler.
fn run_once(data: &Path, dump: &Path, coin_name: &str, cb: &str, prefix: &[usize]) -> (RunResult, sched::Outcome) {
    run_once_mode(data, dump, coin_name, cb, prefix, 0)
}

/// `workers` = 0: thread-per-task mode (orders only); > 0: worker-pool mode (orders x worker assignment, thread-local
/// state persists per worker). The pool outcome is mapped onto sched::Outcome (order = (task, worker) pairs flattened).
fn run_once_mode(data: &Path, dump: &Path, coin_name: &str, cb: &str, prefix: &[usize], workers: usize) -> (RunResult, sched::Outcome) {
    run_once_policy(data, dump, coin_name, cb, prefix, workers, 0)
}

/// `policy`: rule for the choice points after the prefix (worker-pool mode only; see rayon::pool::run_policy).
fn run_once_policy(data: &Path, dump: &Path, coin_name: &str, cb: &str, prefix: &[usize], workers: usize, policy: usize) -> (RunResult, sched::Outcome) {
    // Every execution runs in a forked child: the subject's driver ends failed runs with process::exit(1) and a bug may abort
    // or crash - all of that is an observation (exit status / signal / what is in the dump folder), never the end of the explorer.
    // (At this point the process has a single thread: the scheduler's threads live only inside one execution.)
    if INLINE.load(std::sync::atomic::Ordering::SeqCst) {
        if let Some(p) = IN_FLIGHT.lock().unwrap().as_ref() {
            let _ = std::fs::write(p, json!({"callback": cb, "schedule": prefix, "workers": workers, "policy": policy}).to_string());
        }
        return run_inline(data, dump, coin_name, cb, prefix, workers, policy);
    }
    let _ = std::fs::remove_dir_all(dump);
    let out_path = dump.parent().unwrap().join("run.out.json");
    let _ = std::fs::remove_file(&out_path);
    let _ = std::io::stdout().flush();
    let pid = unsafe { libc::fork() };
    if pid < 0 {
        return run_inline(data, dump, coin_name, cb, prefix, workers, policy);
    }
    if pid == 0 {
        let (r, o) = run_inline(data, dump, coin_name, cb, prefix, workers, policy);
        let doc = json!({"code": r.code, "stdout": r.stdout, "stderr": r.stderr, "choices": o.choices, "order": o.order, "regions": o.regions, "tasks": o.tasks, "diverged": o.diverged});
        let _ = std::fs::write(&out_path, doc.to_string());
        unsafe { libc::_exit(0) };
    }
    let mut status: libc::c_int = 0;
    // An execution under the controlled scheduler takes milliseconds. One that does not come back within the limit has a
    // thread blocked on a primitive the scheduler does not own (e.g. a std Mutex held across a parallel region) while it
    // holds the baton: the model cannot continue such an execution and cannot tell a real deadlock from a wait that another
    // OS thread would end, so this is reported as a machinery error (no verdict); real deadlocks of that kind are looked for
    // by the free-running pass against the real rayon, whose watchdog judges a run whose threads are all asleep.
    let limit = std::time::Duration::from_secs(std::env::var("VERIF_SCHED_EXEC_LIMIT").ok().and_then(|v| v.parse().ok()).unwrap_or(if workers > 0 && policy > 0 { 600 } else { 60 }));
    let t0 = std::time::Instant::now();
    let mut spins = 0u32;
    loop {
        let r = unsafe { libc::waitpid(pid, &mut status, libc::WNOHANG) };
        if r == pid || (r < 0 && std::io::Error::last_os_error().raw_os_error() != Some(libc::EINTR)) {
            break;
        }
        spins += 1;
        if spins > 200 {
            std::thread::sleep(std::time::Duration::from_micros(if spins > 2000 { 2000 } else { 200 }));
        } else {
            std::thread::yield_now();
        }
        if t0.elapsed() > limit {
            unsafe {
                libc::kill(pid, libc::SIGKILL);
                libc::waitpid(pid, &mut status, 0);
            }
            println!("MACHINERY-ERROR C13 scheduler model: the execution of {} under schedule {:?} (workers {}, policy {}) did not return within {:?}: a thread is blocked on a primitive the scheduler does not own", cb, prefix, workers, policy, limit);
            std::process::exit(2);
        }
    }
    let files = refmodel::run::read_dir_files(dump);
    if libc::WIFEXITED(status) && libc::WEXITSTATUS(status) == 0 {
        if let Ok(doc) = std::fs::read_to_string(&out_path).map_err(|e| e.to_string()).and_then(|t| serde_json::from_str::<Value>(&t).map_err(|e| e.to_string())) {
            let r = RunResult { code: doc["code"].as_i64().map(|c| c as i32), signal: None, stdout: doc["stdout"].as_str().unwrap_or("").to_string(), stderr: doc["stderr"].as_str().unwrap_or("").to_string(), files };
            let o = sched::Outcome { choices: serde_json::from_value(doc["choices"].clone()).unwrap_or_default(), order: serde_json::from_value(doc["order"].clone()).unwrap_or_default(), regions: doc["regions"].as_u64().unwrap_or(0), tasks: doc["tasks"].as_u64().unwrap_or(0), diverged: doc["diverged"].as_str().map(|s| s.to_string()) };
            return (r, o);
        }
    }
    // the execution ended the process itself (exit / abort / signal) before it could report
    let (code, signal) = if libc::WIFEXITED(status) { (Some(libc::WEXITSTATUS(status)), None) } else { (None, Some(libc::WTERMSIG(status))) };
    (RunResult { code, signal, stdout: String::new(), stderr: format!("the execution terminated the process: exit {:?} signal {:?}", code, signal), files }, sched::Outcome { choices: vec![], order: vec![], regions: 0, tasks: 0, diverged: None })
}

fn run_inline(data: &Path, dump: &Path, coin_name: &str, cb: &str, prefix: &[usize], workers: usize, policy: usize) -> (RunResult, sched::Outcome) {
    let _ = std::fs::remove_dir_all(dump);
    std::fs::create_dir_all(dump).unwrap();
    LOGBUF.lock().unwrap().clear();
    // csvdump runs carry --verify (the merkle and prev-hash checks run inside the explored execution as well)
    let mut argv: Vec<String> = vec!["rusty-blockparser".into()];
    if cb == "csvdump" && VERIFY.load(std::sync::atomic::Ordering::SeqCst) {
        argv.push("--verify".into());
    }
    argv.extend(["-c".to_string(), coin_name.to_string(), "-d".to_string(), data.display().to_string(), cb.to_string()]);
    if matches!(cb, "csvdump" | "unspentcsvdump" | "balances") {
        argv.push(dump.display().to_string());
    }
    // capture fd 1 (opreturn prints with println!)
    let cap_path = dump.parent().unwrap().join("stdout.cap");
    let _ = std::io::stdout().flush();
    let (saved, capfd) = unsafe {
        let saved = libc::dup(1);
        let c = std::ffi::CString::new(cap_path.display().to_string()).unwrap();
        let fd = libc::open(c.as_ptr(), libc::O_WRONLY | libc::O_CREAT | libc::O_TRUNC, 0o644);
        libc::dup2(fd, 1);
        (saved, fd)
    };
    let body = || -> Result<(), String> {
        let options = crate::parse_args(crate::command().get_matches_from(argv.clone())).map_err(|e| e.to_string())?;
        let storage = ChainStorage::new(&options).map_err(|e| e.to_string())?;
        let mut parser = BlockchainParser::new(options, storage);
        parser.start().map_err(|e| e.to_string())
    };
    let (res, outcome) = if workers == 0 {
        sched::run(prefix, body)
    } else {
        let (r, o) = rayon::pool::run_policy(prefix, workers, policy, body);
        (r, sched::Outcome { choices: o.choices, order: o.trace.iter().flat_map(|(t, w)| [*t, *w]).collect(), regions: 0, tasks: 0, diverged: o.diverged })
    };
    let _ = std::io::stdout().flush();
    unsafe {
        libc::dup2(saved, 1);
        libc::close(saved);
        libc::close(capfd);
    }
    let raw = std::fs::read_to_string(&cap_path).unwrap_or_default();
    let mut stdout = LOGBUF.lock().unwrap().clone();
    stdout.push_str(&raw);
    let r = RunResult { code: Some(if res.is_ok() { 0 } else { 1 }), signal: None, stdout, stderr: res.err().unwrap_or_default(), files: refmodel::run::read_dir_files(dump) };
    (r, outcome)
}

#[derive(Clone)]
struct WorldSpec {
    name: String,
    coin: &'static str,
    /// per block: per transaction the number of outputs (first entry = coinbase)
    blocks: Vec<Vec<usize>>,
}

fn build_world(w: &WorldSpec) -> ChainBuilder {
    let c = coin(w.coin);
    let mut cb = ChainBuilder::with_genesis(c);
    let mut seed = 0u8;
    let mut out = |k: usize| -> TxOut {
        seed = seed.wrapping_add(1);
        // a mix of output kinds so that every callback's output depends on every item
        match k % 4 {
            0 => pay(seed, 5 * COIN_VALUE + seed as u64),
            1 => TxOut { value: 0, script: script::op_return(format!("item {}", seed).as_bytes()) },
            2 => TxOut { value: 7 + seed as u64, script: script::p2pk(&script::key33(seed)) },
            _ => TxOut { value: 9 + seed as u64, script: script::p2sh(&script::h20(seed)) },
        }
    };
    for blk in &w.blocks {
        let h = cb.next_height();
        let mut txs = Vec::new();
        for (ti, n_out) in blk.iter().enumerate() {
            let outs: Vec<TxOut> = (0..*n_out).map(|k| out(k + ti)).collect();
            if ti == 0 {
                let outs = if w.name.contains("same script") { (0..*n_out).map(|k| TxOut { value: 5 + k as u64, script: script::p2pkh(&script::h20(7)) }).collect() } else { outs };
                txs.push(coinbase(h, 9, outs));
            } else {
                // all non-coinbase transactions of a block have the SAME serialised size and the SAME total value, both larger
                // than the coinbase's: "first one on ties" figures (biggest value / size tx) depend on the order of evaluation
                // if anything about them is computed inside a parallel region
                let same = w.name.contains("same script");
                let outs2: Vec<TxOut> = (0..*n_out).map(|k| TxOut { value: 60 * COIN_VALUE + k as u64, script: script::p2pkh(&script::h20(if same { 7 } else { ti as u8 * 16 + k as u8 })) }).collect();
                txs.push(Tx { version: 1, segwit: false, inputs: (0..4).map(|j| TxIn::spend([0xe0 + ti as u8; 32], j)).collect(), outputs: outs2, locktime: 0, wide: 0 });
                let _ = outs;
            }
        }
        cb.push_raw(txs);
    }
    cb
}

/// number of linear extensions for one block: txs with o_i outputs each form a chain start -> {o_i outputs in any order} -> continuation
fn predicted_block(outs: &[usize]) -> f64 {
    // interleavings of independent posets: (sum of sizes)! / prod(size_i!) * prod(linear extensions of poset i) ; poset i has o_i! extensions
    let sizes: Vec<usize> = outs.iter().map(|o| o + 2).collect();
    let fact = |n: usize| -> f64 { (1..=n).map(|x| x as f64).product() };
    let total: usize = sizes.iter().sum();
    let mut v = fact(total);
    for (s, o) in sizes.iter().zip(outs) {
        v = v / fact(*s) * fact(*o);
    }
    v
}

fn scratch() -> PathBuf {
    refmodel::world::scratch_root()
}

fn explore_subtree(data: &Path, dump: &Path, w: &WorldSpec, cb: &str, roots: &[Vec<usize>], baseline: &Value, stats: &mut Value) {
    let mut stack: Vec<Vec<usize>> = roots.iter().rev().cloned().collect();
    let mut schedules = 0u64;
    let mut orders: BTreeSet<[u8; 8]> = BTreeSet::new();
    let mut outcomes: BTreeMap<String, u64> = BTreeMap::new();
    let mut violation: Option<Value> = None;
    let mut diverged = 0u64;
    let mut max_cp = 0usize;
    while let Some(prefix) = stack.pop() {
        let (r, oc) = run_once(data, dump, w.coin, cb, &prefix);
        schedules += 1;
        if oc.diverged.is_some() {
            diverged += 1;
        }
        max_cp = max_cp.max(oc.choices.len());
        orders.insert(h8(format!("{:?}", oc.order).as_bytes()));
        let obs = observe(&r, dump.parent().unwrap());
        let key = hex(&h8(obs.to_string().as_bytes()));
        *outcomes.entry(key).or_insert(0) += 1;
        if &obs != baseline && violation.is_none() {
            violation = Some(json!({"schedule": oc.choices.iter().map(|c| c.0).collect::<Vec<_>>(), "execution_order": oc.order, "observed": obs}));
        }
        // children: one deviation after the replayed prefix
        for i in (prefix.len()..oc.choices.len()).rev() {
            for alt in (1..oc.choices[i].1).rev() {
                let mut p: Vec<usize> = oc.choices[..i].iter().map(|c| c.0).collect();
                p.push(alt);
                stack.push(p);
            }
        }
    }
    *stats = json!({"schedules": schedules, "distinct_orders": orders.len(), "outcomes": outcomes, "violation": violation, "diverged": diverged, "max_choice_points": max_cp});
}

fn worker(spec_path: &str, out_path: &str) {
    init_logger();
    INLINE.store(true, std::sync::atomic::Ordering::SeqCst);
    *IN_FLIGHT.lock().unwrap() = Some(PathBuf::from(format!("{}.inflight", out_path)));
    VERIFY.store(true, std::sync::atomic::Ordering::SeqCst);
    let spec: Value = serde_json::from_str(&std::fs::read_to_string(spec_path).unwrap()).unwrap();
    let w = WorldSpec { name: spec["name"].as_str().unwrap().into(), coin: coin(spec["coin"].as_str().unwrap()).name, blocks: serde_json::from_value(spec["blocks"].clone()).unwrap() };
    let root = scratch();
    let data = root.join("data");
    refmodel::world::copy_dir(Path::new(spec["data"].as_str().unwrap()), &data).unwrap();
    let dump = root.join("dump");
    let mut results = serde_json::Map::new();
    for job in spec["jobs"].as_array().unwrap() {
        let cb = job["callback"].as_str().unwrap();
        let roots: Vec<Vec<usize>> = serde_json::from_value(job["roots"].clone()).unwrap();
        let mut stats = json!({});
        explore_subtree(&data, &dump, &w, cb, &roots, &job["baseline"], &mut stats);
        results.insert(cb.to_string(), stats);
    }
    std::fs::write(out_path, serde_json::to_string(&Value::Object(results)).unwrap()).unwrap();
    let _ = std::fs::remove_dir_all(&root);
}

pub fn main() {
    let args: Vec<String> = std::env::args().collect();
    if args.len() >= 4 && args[1] == "--worker" {
        worker(&args[2], &args[3]);
        return;
    }
    if args.len() >= 3 && args[1] == "--replay" {
        std::process::exit(replay(&args[2]));
    }
    if args.len() < 2 || args[1] != "C13" {
        eprintln!("usage: inproc-sched C13 | --replay <file>");
        std::process::exit(2);
    }
    init_logger();
    let rep = c13();
    std::process::exit(rep.finish());
}

fn canary() -> usize {
    // vacuity check of the explorer: a closure whose effect depends on the execution order must show > 1 outcome
    use rayon::iter::IntoParallelIterator;
    let mut outcomes = BTreeSet::new();
    let mut stack: Vec<Vec<usize>> = vec![vec![]];
    while let Some(prefix) = stack.pop() {
        let (v, oc) = sched::run(&prefix, || {
            let log = Mutex::new(Vec::new());
            vec![1, 2, 3].into_par_iter().for_each(|x| log.lock().unwrap().push(x));
            log.into_inner().unwrap()
        });
        outcomes.insert(v);
        for i in prefix.len()..oc.choices.len() {
            for alt in 1..oc.choices[i].1 {
                let mut p: Vec<usize> = oc.choices[..i].iter().map(|c| c.0).collect();
                p.push(alt);
                stack.push(p);
            }
        }
    }
    outcomes.len()
}

fn c13() -> Report {
    let mut rep = Report::new("C13", "e3b");
    let thorough = is_thorough();
    let c = canary();
    rep.count("canary_outcomes_of_order_dependent_closure", c as u64);
    if c != 6 {
        rep.machinery(format!("scheduler canary: an order-dependent for_each over 3 items must show 6 outcomes, saw {}", c));
        return rep;
    }
    VERIFY.store(true, std::sync::atomic::Ordering::SeqCst);
    let mut worlds: Vec<(WorldSpec, Vec<&'static str>)> = Vec::new();
    let fast = vec!["csvdump", "simplestats", "opreturn"];
    let all5 = vec!["csvdump", "simplestats", "opreturn", "unspentcsvdump", "balances"];
    for cn in ["bitcoin", "litecoin"] {
        worlds.push((WorldSpec { name: "1tx x 4out".into(), coin: cn, blocks: vec![vec![4]] }, all5.clone()));
        worlds.push((WorldSpec { name: "2tx x 2out".into(), coin: cn, blocks: vec![vec![2, 2]] }, all5.clone()));
        worlds.push((WorldSpec { name: "2tx x 2out, all outputs carry the same script".into(), coin: cn, blocks: vec![vec![2, 2]] }, fast.clone()));
        worlds.push((WorldSpec { name: "3tx x 1out".into(), coin: cn, blocks: vec![vec![1, 1, 1]] }, fast.clone()));
        worlds.push((WorldSpec { name: "2 blocks of 2tx x 1out".into(), coin: cn, blocks: vec![vec![1, 1], vec![1, 1]] }, fast.clone()));
        if thorough {
            worlds.push((WorldSpec { name: "2tx x 3out".into(), coin: cn, blocks: vec![vec![3, 3]] }, all5.clone()));
            worlds.push((WorldSpec { name: "4tx x 1out".into(), coin: cn, blocks: vec![vec![1, 1, 1, 1]] }, fast.clone()));
        }
    }
    if thorough {
        worlds.push((WorldSpec { name: "3tx x 2out".into(), coin: "bitcoin", blocks: vec![vec![2, 2, 2]] }, vec!["csvdump"]));
    }
    rep.rule = "for each world (txs x outputs per block) EVERY item-level schedule of the two nested parallel regions (Block::new over transactions, EvaluatedTx::new over outputs) is executed on the repository's own code with rayon replaced by a controlled-scheduler model (baton, real threads, stateless DFS over recorded choice points, no partial-order reduction); every schedule's complete observation (files, simplestats report, opreturn lines; row sets for unspent/balances) must equal schedule 0's, which must equal the reference model; non-trivial = distinct (world, callback, execution order)".into();
    let root = scratch();
    let exe = std::env::current_exe().unwrap();
    let mut total_pred = 0f64;
    let mut bound = serde_json::Map::new();
    for (wi, (w, cbs)) in worlds.iter().enumerate() {
        let chain = build_world(w);
        let cn = coin(w.coin);
        let world = World::simple(cn, &chain.blocks, 0);
        let wdir = root.join(format!("world{}", wi));
        let data = wdir.join("data");
        if let Err(e) = world.materialise(&data) {
            rep.machinery(format!("materialise: {}", e));
            continue;
        }
        let dump = wdir.join("dump");
        let predicted: f64 = w.blocks.iter().map(|b| predicted_block(b)).product();
        // baseline (schedule []) per callback, compared with the model; then split the tree two levels deep
        let mut jobs: Vec<Value> = Vec::new();
        let mut failed_baselines: Vec<(String, String)> = Vec::new();
        for cb in cbs {
            let (r, oc) = run_once(&data, &dump, w.coin, cb, &[]);
            if let Some(d) = &oc.diverged {
                rep.machinery(format!("{} {}: baseline diverged: {}", w.name, cb, d));
            }
            let tip = w.blocks.len() as u64;
            let range = chain.mblocks();
            let bad = match *cb {
                "csvdump" => check_csvdump(&r, cn, &range, 0, tip),
                "unspentcsvdump" => check_unspent(&r, cn, &range, 0, tip),
                "balances" => check_balances(&r, cn, &range, 0, tip),
                "simplestats" => check_stats(&r, cn, &range),
                _ => check_opreturn(&r, cn, &range),
            };
            if let Some((sig, _detail)) = bad.into_iter().next() {
                // C13 is a relation between executions (all schedules agree); whether the common result is right is the
                // business of C01/C07/C08/C15/C16. Recorded, not judged.
                rep.count(&format!("note:schedule-0-differs-from-model:{}", sig), 1);
            }
            let baseline = observe(&r, &wdir);
            if r.code != Some(0) {
                // not necessarily the harness: a waiting task may make even schedule [] the odd one out. Judged below.
                failed_baselines.push((cb.to_string(), r.stderr.chars().take(200).collect::<String>()));
            }
            // replay determinism: the same schedule twice must give identical observations
            let (r2, _) = run_once(&data, &dump, w.coin, cb, &[]);
            if observe(&r2, &wdir) != baseline {
                rep.machinery(format!("{} {}: two executions of schedule [] differ (nondeterminism not owned)", w.name, cb));
            }
            // roots of disjoint subtrees: all one- and two-deviation prefixes of the first levels
            let mut roots: Vec<Vec<usize>> = Vec::new();
            let mut frontier: Vec<Vec<usize>> = vec![vec![]];
            let mut singles = 1u64; // schedules executed here (the split nodes themselves)
            for _level in 0..2 {
                let mut next = Vec::new();
                for p in &frontier {
                    let (rr, oc) = if p.is_empty() { (r.clone(), oc.clone()) } else { run_once(&data, &dump, w.coin, cb, p) };
                    if !p.is_empty() {
                        singles += 1;
                        if observe(&rr, &wdir) != baseline {
                            rep.disagree("outcome-depends-on-schedule", format!("{} {} {}: schedule {:?} (execution order {:?}) gives a different result than schedule []", w.coin, w.name, cb, p, oc.order), json!({"kind": "schedule", "world": {"name": w.name, "coin": w.coin, "blocks": w.blocks}, "callback": cb, "schedule": p}));
                        }
                    }
                    for i in p.len()..oc.choices.len() {
                        for alt in 1..oc.choices[i].1 {
                            let mut q: Vec<usize> = oc.choices[..i].iter().map(|c| c.0).collect();
                            q.push(alt);
                            next.push(q);
                        }
                    }
                }
                frontier = next;
                if frontier.len() >= 4 * threads() {
                    break;
                }
            }
            roots.extend(frontier);
            rep.transitions += singles;
            rep.states += singles;
            jobs.push(json!({"callback": cb, "roots": roots, "baseline": baseline}));
        }
        // farm out: split every job's roots round-robin over the workers
        let nw = threads();
        let mut children = Vec::new();
        for k in 0..nw {
            let myjobs: Vec<Value> = jobs
                .iter()
                .map(|j| {
                    let roots: Vec<Value> = j["roots"].as_array().unwrap().iter().enumerate().filter(|(i, _)| i % nw == k).map(|(_, r)| r.clone()).collect();
                    json!({"callback": j["callback"], "roots": roots, "baseline": j["baseline"]})
                })
                .filter(|j| !j["roots"].as_array().unwrap().is_empty())
                .collect();
            if myjobs.is_empty() {
                continue;
            }
            let spec = json!({"name": w.name, "coin": w.coin, "blocks": w.blocks, "data": data.display().to_string(), "jobs": myjobs});
            let sp = wdir.join(format!("spec{}.json", k));
            let op = wdir.join(format!("out{}.json", k));
            std::fs::write(&sp, spec.to_string()).unwrap();
            let child = std::process::Command::new(&exe).arg("--worker").arg(&sp).arg(&op).stdout(std::process::Stdio::null()).spawn();
            match child {
                Ok(ch) => children.push((ch, op)),
                Err(e) => rep.machinery(format!("spawn worker: {}", e)),
            }
        }
        let mut per_cb: BTreeMap<String, (u64, u64, BTreeSet<String>)> = BTreeMap::new();
        let world_deadline = std::time::Instant::now() + std::time::Duration::from_secs(std::env::var("VERIF_SCHED_WORLD_LIMIT").ok().and_then(|v| v.parse().ok()).unwrap_or(1500));
        for (mut ch, op) in children {
            // wall cap inside the engine: a worker whose execution in flight never returns (a thread blocked, with the baton, on a
            // primitive the scheduler does not own) is ended and reported as a machinery error naming that schedule - no verdict
            let st = loop {
                match ch.try_wait() {
                    Ok(Some(s)) => break Ok(s),
                    Ok(None) if std::time::Instant::now() > world_deadline => {
                        let _ = ch.kill();
                        let _ = ch.wait();
                        let inflight = std::fs::read_to_string(format!("{}.inflight", op.display())).unwrap_or_default();
                        rep.machinery(format!("{}: a worker did not finish within the wall cap; execution in flight: {} (blocked on a primitive the scheduler model does not own?)", w.name, inflight));
                        break Err(std::io::Error::new(std::io::ErrorKind::TimedOut, "wall cap"));
                    }
                    Ok(None) => std::thread::sleep(std::time::Duration::from_millis(5)),
                    Err(e) => break Err(e),
                }
            };
            if matches!(&st, Err(e) if e.kind() == std::io::ErrorKind::TimedOut) {
                continue;
            }
            if !st.as_ref().map(|s| s.success()).unwrap_or(false) {
                // the execution in flight ended the worker process (the driver's process::exit, an abort, a crash): that
                // schedule's outcome is "the run terminated", which differs from schedule []'s
                let inflight: Value = std::fs::read_to_string(format!("{}.inflight", op.display())).ok().and_then(|t| serde_json::from_str(&t).ok()).unwrap_or(json!(null));
                if inflight.is_null() {
                    rep.machinery(format!("{}: worker failed before its first execution", w.name));
                } else {
                    rep.disagree("outcome-depends-on-schedule", format!("{} {} {}: schedule {} ended the process ({:?}) while schedule [] ran to completion", w.coin, w.name, inflight["callback"].as_str().unwrap_or("?"), inflight["schedule"], st.map(|s| s.to_string()).unwrap_or_default()), json!({"kind": "schedule", "world": {"name": w.name, "coin": w.coin, "blocks": w.blocks}, "callback": inflight["callback"], "schedule": inflight["schedule"]}));
                }
                continue;
            }
            let out: Value = serde_json::from_str(&std::fs::read_to_string(&op).unwrap_or_default()).unwrap_or(json!({}));
            for (cb, s) in out.as_object().cloned().unwrap_or_default() {
                let e = per_cb.entry(cb.clone()).or_insert((0, 0, BTreeSet::new()));
                e.0 += s["schedules"].as_u64().unwrap_or(0);
                e.1 += s["distinct_orders"].as_u64().unwrap_or(0);
                for k in s["outcomes"].as_object().map(|o| o.keys().cloned().collect::<Vec<_>>()).unwrap_or_default() {
                    e.2.insert(k);
                }
                if s["diverged"].as_u64().unwrap_or(0) > 0 {
                    rep.machinery(format!("{} {}: {} replays diverged from their prefix", w.name, cb, s["diverged"]));
                }
                if !s["violation"].is_null() {
                    rep.disagree("outcome-depends-on-schedule", format!("{} {} {}: schedule {} (execution order {}) gives a different result than schedule []", w.coin, w.name, cb, s["violation"]["schedule"], s["violation"]["execution_order"]), json!({"kind": "schedule", "world": {"name": w.name, "coin": w.coin, "blocks": w.blocks}, "callback": cb, "schedule": s["violation"]["schedule"]}));
                }
            }
        }
        for (cb, err) in &failed_baselines {
            // every schedule failing in the same way is no statement about schedules: the world or the harness is broken
            if per_cb.get(cb).map(|e| e.2.len() <= 1).unwrap_or(true) && !rep.disagreements.keys().any(|k| k.contains("outcome-depends-on-schedule")) {
                rep.machinery(format!("{} {}: every schedule failed: {}", w.name, cb, err));
            }
        }
        let mut wsum = serde_json::Map::new();
        for (cb, (n, orders, outs)) in &per_cb {
            rep.states += n;
            rep.transitions += n;
            for i in 0..*orders {
                rep.nontrivial.insert(h8(format!("{}{}{}{}", w.coin, w.name, cb, i).as_bytes()));
            }
            for o in outs {
                rep.outcomes.insert(h8(format!("{}{}{}{}", w.coin, w.name, cb, o).as_bytes()));
            }
            wsum.insert(cb.clone(), json!({"schedules_in_subtrees": n, "distinct_execution_orders": orders, "distinct_outcomes": outs.len().max(1)}));
        }
        total_pred += predicted * cbs.len() as f64;
        bound.insert(format!("{}/{}", w.coin, w.name), json!({"predicted_schedules_per_callback": predicted, "callbacks": cbs, "measured": wsum}));
        if rep.samples.len() < 3 {
            rep.sample(json!({"world": w.name, "coin": w.coin, "outputs_per_tx_per_block": w.blocks, "example_schedule": [0, 1, 0, 2], "meaning": "alternative taken at each choice point among the runnable items (sorted by creation order)"}));
        }
        let _ = std::fs::remove_dir_all(&wdir);
    }
    rep.count("predicted_total_schedules", total_pred as u64);
    rep.bound = Value::Object(bound);
    VERIFY.store(false, std::sync::atomic::Ordering::SeqCst); // the pool-mode worlds start with a synthetic block 0
    pool_part(&mut rep, &root);
    rep.assumptions = vec![
        "closures of the parallel iterators are atomic at item granularity (they contain no synchronisation); interleavings inside one closure are outside this explorer (data races are a compile error in safe Rust; a free-running real-rayon conformance pass is part of the E1 engine)".into(),
        "adapter chains run per item; flat_map is staged".into(),
    ];
    let _ = std::fs::remove_dir_all(&root);
    rep
}

fn replay(path: &str) -> i32 {
    init_logger();
    let doc: Value = serde_json::from_str(&std::fs::read_to_string(path).expect("read")).expect("json");
    let case = &doc["case"];
    if case["kind"] != "schedule" {
        eprintln!("not a schedule case");
        return 2;
    }
    let w = WorldSpec { name: case["world"]["name"].as_str().unwrap().into(), coin: coin(case["world"]["coin"].as_str().unwrap()).name, blocks: serde_json::from_value(case["world"]["blocks"].clone()).unwrap() };
    let cb = case["callback"].as_str().unwrap();
    let schedule: Vec<usize> = serde_json::from_value(case["schedule"].clone()).unwrap();
    let chain = build_world(&w);
    let root = scratch();
    let data = root.join("data");
    World::simple(coin(w.coin), &chain.blocks, 0).materialise(&data).unwrap();
    let dump = root.join("dump");
    VERIFY.store(true, std::sync::atomic::Ordering::SeqCst);
    let (r0, _) = run_once(&data, &dump, w.coin, cb, &[]);
    let base = observe(&r0, &root);
    let (r1, o1) = run_once(&data, &dump, w.coin, cb, &schedule);
    let (r2, _) = run_once(&data, &dump, w.coin, cb, &schedule);
    let (a, b) = (observe(&r1, &root), observe(&r2, &root));
    let _ = std::fs::remove_dir_all(&root);
    println!("property: {} signature: {}", doc["property"], doc["signature"]);
    println!("world {:?} callback {} schedule {:?} execution order {:?}", w.blocks, cb, schedule, o1.order);
    if a != b {
        println!("REPLAY-NONDETERMINISTIC");
        return 2;
    }
    if a != base {
        println!("REPLAY-CONFIRMED: schedule gives a different observation than schedule []\nschedule []: {}\nthis schedule: {}", base, a);
        1
    } else {
        println!("REPLAY-DIFFERS: identical to schedule [] on the current tree");
        0
    }
}


/// Worker-pool mode: all (order x worker assignment) schedules with 2 workers on tiny worlds built so that thread-local or
/// per-worker state would show: on a fork coin the SAME 20-byte hash is used as key hash (P2PKH), as script hash (P2SH) and
/// through P2PK of a key, in one transaction and across transactions.
fn pool_part(rep: &mut Report, root: &Path) {
    use rayon::iter::IntoParallelIterator;
    // canary: a closure whose result depends on which worker ran it (thread-local counter) must show > 1 outcome
    thread_local! { static SEEN: std::cell::Cell<u32> = const { std::cell::Cell::new(0) }; }
    let mut outcomes = BTreeSet::new();
    let mut stack: Vec<Vec<usize>> = vec![vec![]];
    let mut n = 0u64;
    while let Some(prefix) = stack.pop() {
        let (v, oc) = rayon::pool::run(&prefix, 2, || {
            let r: Vec<u32> = vec![1, 2, 3].into_par_iter().map(|_| SEEN.with(|c| { c.set(c.get() + 1); c.get() })).collect();
            r
        });
        n += 1;
        outcomes.insert(v);
        for i in prefix.len()..oc.choices.len() {
            for alt in 1..oc.choices[i].1 {
                let mut p: Vec<usize> = oc.choices[..i].iter().map(|c| c.0).collect();
                p.push(alt);
                stack.push(p);
            }
        }
    }
    rep.count("pool_canary_schedules", n);
    rep.count("pool_canary_outcomes_of_thread_local_counter", outcomes.len() as u64);
    if outcomes.len() < 2 {
        rep.machinery(format!("worker-pool canary: a thread-local counter read by 3 items on 2 workers must show several outcomes, saw {}", outcomes.len()));
        return;
    }
    let h = script::h20(0x5c);
    let key = script::key33(0x5d);
    let hk = refmodel::hash::hash160(&key);
    let worlds: Vec<(&str, &'static str, Vec<Vec<TxOut>>)> = vec![
        ("shared hash as P2PKH and P2SH in one tx", "litecoin", vec![vec![TxOut { value: 1, script: script::p2pkh(&h) }, TxOut { value: 2, script: script::p2sh(&h) }]]),
        ("shared hash across two txs: P2SH(hash of a key) then P2PK of that key", "dogecoin", vec![vec![TxOut { value: 1, script: script::p2sh(&hk) }, TxOut { value: 2, script: script::p2pk(&key) }]]),
        ("bitcoin control", "bitcoin", vec![vec![TxOut { value: 1, script: script::p2pkh(&h) }, TxOut { value: 2, script: script::p2sh(&h) }]]),
    ];
    let mut worlds = worlds;
    if is_thorough() {
        worlds.push(("three transactions sharing one hash (P2SH / P2PK / P2PKH)", "dogecoin", vec![vec![TxOut { value: 1, script: script::p2sh(&hk) }], vec![TxOut { value: 2, script: script::p2pk(&key) }, TxOut { value: 3, script: script::p2pkh(&hk) }]]));
    }
    let mut summary = serde_json::Map::new();
    for (wi, (name, cname, txs)) in worlds.iter().enumerate() {
        let c = coin(cname);
        let mut cb = ChainBuilder::at(c, 0);
        let mut all = vec![coinbase(0, 3, vec![TxOut { value: 5, script: script::p2pkh(if wi == 1 { &hk } else { &h }) }])];
        for (k, outs) in txs.iter().enumerate() {
            all.push(Tx { version: 1, segwit: false, inputs: vec![TxIn::spend([0xee; 32], k as u32)], outputs: outs.clone(), locktime: 0, wide: 0 });
        }
        cb.push_raw(all);
        let world = World::simple(c, &cb.blocks, 0);
        let wdir = root.join(format!("pool{}", wi));
        let data = wdir.join("data");
        if let Err(e) = world.materialise(&data) {
            rep.machinery(format!("materialise: {}", e));
            continue;
        }
        let dump = wdir.join("dump");
        let (r0, _) = run_once_mode(&data, &dump, cname, "csvdump", &[], 2);
        let baseline = observe(&r0, &wdir);
        if let Some((sig, _)) = check_csvdump(&r0, c, &cb.mblocks(), 0, 0).into_iter().next() {
            rep.count(&format!("note:pool-schedule-0-differs-from-model:{}", sig), 1);
        }
        let mut stack: Vec<Vec<usize>> = vec![vec![]];
        let (mut n, mut traces, mut outs) = (0u64, BTreeSet::new(), BTreeSet::new());
        let cap: u64 = if is_thorough() { 2_000_000 } else { 60_000 };
        while let Some(prefix) = stack.pop() {
            if n >= cap {
                rep.caps_hit.push(format!("worker-pool world '{}': schedule cap {} reached (DFS order; the covered part is a prefix-closed subtree)", name, cap));
                break;
            }
            let (r, oc) = run_once_mode(&data, &dump, cname, "csvdump", &prefix, 2);
            n += 1;
            if oc.diverged.is_some() {
                rep.machinery(format!("pool world {}: replay diverged: {:?}", name, oc.diverged));
                break;
            }
            traces.insert(h8(format!("{:?}", oc.order).as_bytes()));
            let o = observe(&r, &wdir);
            outs.insert(h8(o.to_string().as_bytes()));
            if o != baseline {
                rep.disagree("outcome-depends-on-worker-assignment-or-order", format!("{} '{}': schedule {:?} ((task, worker) trace {:?}) gives a different csvdump than schedule []", cname, name, oc.choices.iter().map(|c| c.0).collect::<Vec<_>>(), oc.order), json!({"kind": "pool-schedule", "world": name, "coin": cname, "schedule": oc.choices.iter().map(|c| c.0).collect::<Vec<_>>()}));
                break;
            }
            for i in (prefix.len()..oc.choices.len()).rev() {
                for alt in (1..oc.choices[i].1).rev() {
                    let mut p: Vec<usize> = oc.choices[..i].iter().map(|c| c.0).collect();
                    p.push(alt);
                    stack.push(p);
                }
            }
        }
        rep.states += n;
        rep.transitions += n;
        for t in &traces {
            rep.nontrivial.insert(*t);
        }
        summary.insert(format!("{}/{}", cname, name), json!({"schedules (order x worker assignment, 2 workers)": n, "distinct_traces": traces.len(), "distinct_outcomes": outs.len()}));
        let _ = std::fs::remove_dir_all(&wdir);
    }
    rep.bound["worker_pool_mode"] = Value::Object(summary);
    big_block_part(rep, root);
}

/// A block with more transactions than any plausible batch size (4100 / 12 300), where the schedule tree cannot be
/// enumerated: a stated FAMILY of schedules instead - after an empty prefix the scheduler always takes the first enabled
/// action, always the last (newest task first, i.e. every region in reverse), or action (k * position + 1) mod n for k in
/// {2, 7, 4099}; x 1, 2 and 3 workers (quick: four of these combinations); x all five callbacks. Exhaustive over that
/// family only, and labelled so.
fn big_block_part(rep: &mut Report, root: &Path) {
    VERIFY.store(true, std::sync::atomic::Ordering::SeqCst);
    let c = coin("bitcoin");
    let n_tx: usize = if is_thorough() { 12_300 } else { 4_100 };
    let mut cb = ChainBuilder::with_genesis(c);
    let mut txs = vec![coinbase(1, 3, vec![pay(1, 50 * COIN_VALUE)])];
    let mut prev: Option<[u8; 32]> = None;
    for k in 0..n_tx {
        // every transaction spends an output of its predecessor in the same block (order matters for the UTXO callbacks),
        // pays a fresh address, and every 7th carries an OP_RETURN
        let mut outs = vec![pay((k % 250) as u8, 1000 + k as u64), pay(((k + 1) % 250) as u8, 5)];
        if k % 7 == 0 {
            outs.push(TxOut { value: 0, script: script::op_return(format!("tx {}", k).as_bytes()) });
        }
        let tx = Tx { version: 1, segwit: false, inputs: vec![match prev { Some(p) => TxIn::spend(p, 0), None => TxIn::spend([0xee; 32], 0) }], outputs: outs, locktime: k as u32, wide: 0 };
        prev = Some(tx.txid());
        txs.push(tx);
    }
    cb.push(txs);
    let world = World::simple(c, &cb.blocks, 0);
    let wdir = root.join("bigblock");
    let data = wdir.join("data");
    if let Err(e) = world.materialise(&data) {
        rep.machinery(format!("materialise: {}", e));
        return;
    }
    let dump = wdir.join("dump");
    let mut n = 0u64;
    let mut traces = BTreeSet::new();
    for cbn in ["csvdump", "unspentcsvdump", "balances", "simplestats", "opreturn"] {
        let (r0, _) = run_once_policy(&data, &dump, "bitcoin", cbn, &[], 1, 0);
        let baseline = observe(&r0, &wdir);
        let family: Vec<(usize, usize)> = if is_thorough() { [1usize, 2, 3].iter().flat_map(|w| [0usize, 1, 2, 7, 4099].iter().map(move |p| (*w, *p))).collect() } else { vec![(2, 0), (2, 1), (2, 7), (3, 1)] };
        let mut any_ok = r0.code == Some(0);
        for (workers, policy) in family {
            let (r, oc) = run_once_policy(&data, &dump, "bitcoin", cbn, &[], workers, policy);
            n += 1;
            traces.insert(h8(format!("{:?}", oc.order).as_bytes()));
            any_ok |= r.code == Some(0);
            let o = observe(&r, &wdir);
            if o != baseline {
                // (a waiting worker may run other pending tasks, so even the 1-worker first-enabled schedule can be the one that is off)
                rep.disagree("big-block:outcome-depends-on-schedule", format!("{} on a block of {} transactions: {} workers with schedule policy {} (exit {:?}) and 1 worker with the first-enabled policy (exit {:?}) give different results", cbn, n_tx, workers, policy, r.code, r0.code), json!({"kind": "pool-policy-schedule", "world": format!("one block of {} chained transactions", n_tx), "callback": cbn, "workers": workers, "policy": policy}));
                break;
            }
        }
        if !any_ok {
            rep.machinery(format!("big-block world: every schedule of {} failed: {}", cbn, r0.stderr.chars().take(200).collect::<String>()));
        }
    }
    rep.states += n;
    rep.transitions += n;
    for t in &traces {
        rep.nontrivial.insert(*t);
    }
    rep.bound["big_block_schedule_family"] = json!({"transactions": n_tx, "schedules": n, "distinct_traces": traces.len(), "family": if is_thorough() { "policies {first, last, stride 2, 7, 4099} x workers {1,2,3} x 5 callbacks (not the full schedule tree)" } else { "(workers, policy) in {(2, first), (2, last), (2, stride 7), (3, last)} x 5 callbacks (not the full schedule tree)" }});
    let _ = std::fs::remove_dir_all(&wdir);
}
