//! E3b: every item-level schedule of the parallel regions, on the repository's own code
//! (parse_args -> ChainStorage::new -> BlockchainParser::start), rayon replaced by ../rayon-sched.
//! Root process: builds the worlds, runs schedule [] as baseline, compares it with the model, splits the
//! schedule tree into disjoint subtrees and farms them out to worker processes (stdout capture is per process).
use crate::blockchain::parser::chain::ChainStorage;
use crate::blockchain::parser::BlockchainParser;
use rayon::sched;
use refmodel::chain::{coinbase, pay, ChainBuilder, COIN_VALUE};
use refmodel::coins::coin;
use refmodel::ev::{h8, is_thorough, threads, Report};
use refmodel::oracle::*;
use refmodel::run::{observe, RunResult};
use refmodel::script;
use refmodel::ser::{hex, Tx, TxIn, TxOut};
use refmodel::world::World;
use serde_json::{json, Value};
use std::collections::{BTreeMap, BTreeSet};
use std::io::Write;
use std::path::{Path, PathBuf};
use std::__real::sync::Mutex;

static LOGBUF: Mutex<String> = Mutex::new(String::new());

struct CaptureLogger;
impl log::Log for CaptureLogger {
    fn enabled(&self, m: &log::Metadata) -> bool {
        m.level() <= log::Level::Info
    }
    fn log(&self, r: &log::Record) {
        if self.enabled(r.metadata()) {
            LOGBUF.lock().unwrap().push_str(&format!("[00:00:00] {} - {}: {}\n", r.level(), r.target(), r.args()));
        }
    }
    fn flush(&self) {}
}

fn init_logger() {
    let _ = log::set_boxed_logger(Box::new(CaptureLogger));
    log::set_max_level(log::LevelFilter::Info);
}

/// Worker processes run their executions inline (a forked child per execution costs more than the execution itself): before
/// each one they record the schedule in flight, so that the root can name it if the execution ends the whole worker.
static INLINE: std::__real::sync::atomic::AtomicBool = std::__real::sync::atomic::AtomicBool::new(false);
static IN_FLIGHT: Mutex<Option<PathBuf>> = Mutex::new(None);

/// --start of the executions (see WorldSpec::start)
static START: std::__real::sync::atomic::AtomicU64 = std::__real::sync::atomic::AtomicU64::new(0);

/// csvdump runs carry --verify when the world starts with the coin's real genesis block (set by the callers).
static VERIFY: std::__real::sync::atomic::AtomicBool = std::__real::sync::atomic::AtomicBool::new(false);

/// One complete in-process run under the controlled scheduler.
fn run_once(data: &Path, dump: &Path, coin_name: &str, cb: &str, prefix: &[usize]) -> (RunResult, sched::Outcome) {
    run_once_mode(data, dump, coin_name, cb, prefix, 0)
}

/// `workers` = 0: thread-per-task mode (orders only); > 0: worker-pool mode (orders x worker assignment, thread-local
/// state persists per worker). The pool outcome is mapped onto sched::Outcome (order = (task, worker) pairs flattened).
fn run_once_mode(data: &Path, dump: &Path, coin_name: &str, cb: &str, prefix: &[usize], workers: usize) -> (RunResult, sched::Outcome) {
    run_once_policy(data, dump, coin_name, cb, prefix, workers, 0)
}

/// `policy`: rule for the choice points after the prefix (worker-pool mode only; see rayon::pool::run_policy).
fn run_once_policy(data: &Path, dump: &Path, coin_name: &str, cb: &str, prefix: &[usize], workers: usize, policy: usize) -> (RunResult, sched::Outcome) {
    // Every execution runs in a forked child: the subject's driver ends failed runs with process::exit(1) and a bug may abort
    // or crash - all of that is an observation (exit status / signal / what is in the dump folder), never the end of the explorer.
    // (At this point the process has a single thread: the scheduler's threads live only inside one execution.)
    if INLINE.load(std::sync::atomic::Ordering::SeqCst) {
        if let Some(p) = IN_FLIGHT.lock().unwrap().as_ref() {
            let _ = std::fs::write(p, json!({"callback": cb, "schedule": prefix, "workers": workers, "policy": policy}).to_string());
        }
        return run_inline(data, dump, coin_name, cb, prefix, workers, policy);
    }
    let _ = std::fs::remove_dir_all(dump);
    let out_path = dump.parent().unwrap().join("run.out.json");
    let _ = std::fs::remove_file(&out_path);
    let deadlock_path = dump.parent().unwrap().join("deadlock.txt");
    let _ = std::fs::remove_file(&deadlock_path);
    unsafe { std::env::set_var("VERIF_DEADLOCK_FILE", &deadlock_path) };
    let _ = std::io::stdout().flush();
    let pid = unsafe { libc::fork() };
    if pid < 0 {
        return run_inline(data, dump, coin_name, cb, prefix, workers, policy);
    }
    if pid == 0 {
        let (r, o) = run_inline(data, dump, coin_name, cb, prefix, workers, policy);
        let doc = json!({"code": r.code, "stdout": r.stdout, "stderr": r.stderr, "choices": o.choices, "order": o.order, "regions": o.regions, "tasks": o.tasks, "diverged": o.diverged, "sync_points": o.sync_points, "preemptions": o.preemptions});
        let _ = std::fs::write(&out_path, doc.to_string());
        unsafe { libc::_exit(0) };
    }
    let mut status: libc::c_int = 0;
    // An execution under the controlled scheduler takes milliseconds. One that does not come back within the limit has a
    // thread blocked on a primitive the scheduler does not own (e.g. a std Mutex held across a parallel region) while it
    // holds the baton: the model cannot continue such an execution and cannot tell a real deadlock from a wait that another
    // OS thread would end, so this is reported as a machinery error (no verdict); real deadlocks of that kind are looked for
    // by the free-running pass against the real rayon, whose watchdog judges a run whose threads are all asleep.
    let limit = std::time::Duration::from_secs(std::env::var("VERIF_SCHED_EXEC_LIMIT").ok().and_then(|v| v.parse().ok()).unwrap_or(if workers > 0 && policy > 0 { 600 } else { 60 }));
    let t0 = std::time::Instant::now();
    let mut spins = 0u32;
    loop {
        let r = unsafe { libc::waitpid(pid, &mut status, libc::WNOHANG) };
        if r == pid || (r < 0 && std::io::Error::last_os_error().raw_os_error() != Some(libc::EINTR)) {
            break;
        }
        spins += 1;
        if spins > 200 {
            std::thread::sleep(std::time::Duration::from_micros(if spins > 2000 { 2000 } else { 200 }));
        } else {
            std::thread::yield_now();
        }
        if t0.elapsed() > limit {
            unsafe {
                libc::kill(pid, libc::SIGKILL);
                libc::waitpid(pid, &mut status, 0);
            }
            println!("MACHINERY-ERROR C13 scheduler model: the execution of {} under schedule {:?} (workers {}, policy {}) did not return within {:?}: a thread is blocked on a primitive the scheduler does not own", cb, prefix, workers, policy, limit);
            std::process::exit(2);
        }
    }
    let files = refmodel::run::read_dir_files(dump);
    if libc::WIFEXITED(status) && libc::WEXITSTATUS(status) == 0 {
        if let Ok(doc) = std::fs::read_to_string(&out_path).map_err(|e| e.to_string()).and_then(|t| serde_json::from_str::<Value>(&t).map_err(|e| e.to_string())) {
            let r = RunResult { code: doc["code"].as_i64().map(|c| c as i32), signal: None, stdout: doc["stdout"].as_str().unwrap_or("").to_string(), stderr: doc["stderr"].as_str().unwrap_or("").to_string(), files };
            let o = sched::Outcome { choices: serde_json::from_value(doc["choices"].clone()).unwrap_or_default(), order: serde_json::from_value(doc["order"].clone()).unwrap_or_default(), regions: doc["regions"].as_u64().unwrap_or(0), tasks: doc["tasks"].as_u64().unwrap_or(0), diverged: doc["diverged"].as_str().map(|s| s.to_string()), sync_points: doc["sync_points"].as_u64().unwrap_or(0), preemptions: doc["preemptions"].as_u64().unwrap_or(0) as usize };
            return (r, o);
        }
    }
    // the execution ended the process itself (exit / abort / signal) before it could report
    let (code, signal) = if libc::WIFEXITED(status) { (Some(libc::WEXITSTATUS(status)), None) } else { (None, Some(libc::WTERMSIG(status))) };
    let deadlock = std::fs::read_to_string(&deadlock_path).unwrap_or_default();
    // (the schedule-so-far part of the message is dropped: the observation must not depend on how the state was reached)
    let deadlock = deadlock.split("; schedule so far").next().unwrap_or("").to_string();
    (RunResult { code, signal, stdout: String::new(), stderr: format!("the execution terminated the process: exit {:?} signal {:?} {}", code, signal, deadlock), files }, sched::Outcome { choices: vec![], order: vec![], regions: 0, tasks: 0, diverged: None, sync_points: 0, preemptions: 0 })
}

/// The subject reads the monotonic clock (a status line every 10 s, "Done in x minutes"): inside an execution the clock is an
/// answer of the harness like every other input - it stands still (the shim's virtual clock), so that a slow machine cannot
/// make one schedule print a status line another one does not. No-op when the shim is not loaded.
fn freeze_clock() {
    unsafe {
        let name = std::ffi::CString::new("verif_set_clock_step").unwrap();
        let f = libc::dlsym(libc::RTLD_DEFAULT, name.as_ptr());
        if !f.is_null() {
            let f: extern "C" fn(i64) = std::mem::transmute(f);
            f(0);
        }
    }
}

fn run_inline(data: &Path, dump: &Path, coin_name: &str, cb: &str, prefix: &[usize], workers: usize, policy: usize) -> (RunResult, sched::Outcome) {
    freeze_clock();
    let _ = std::fs::remove_dir_all(dump);
    std::fs::create_dir_all(dump).unwrap();
    LOGBUF.lock().unwrap().clear();
    // csvdump runs carry --verify (the merkle and prev-hash checks run inside the explored execution as well)
    let mut argv: Vec<String> = vec!["rusty-blockparser".into()];
    if cb == "csvdump" && VERIFY.load(std::sync::atomic::Ordering::SeqCst) {
        argv.push("--verify".into());
    }
    let start = START.load(std::sync::atomic::Ordering::SeqCst);
    if start > 0 {
        argv.extend(["-s".to_string(), start.to_string()]);
    }
    argv.extend(["-c".to_string(), coin_name.to_string(), "-d".to_string(), data.display().to_string(), cb.to_string()]);
    if matches!(cb, "csvdump" | "unspentcsvdump" | "balances") {
        argv.push(dump.display().to_string());
    }
    // capture fd 1 (opreturn prints with println!)
    let cap_path = dump.parent().unwrap().join("stdout.cap");
    let _ = std::io::stdout().flush();
    let (saved, capfd) = unsafe {
        let saved = libc::dup(1);
        let c = std::ffi::CString::new(cap_path.display().to_string()).unwrap();
        let fd = libc::open(c.as_ptr(), libc::O_WRONLY | libc::O_CREAT | libc::O_TRUNC, 0o644);
        libc::dup2(fd, 1);
        (saved, fd)
    };
    let body = || -> Result<(), String> {
        let options = crate::parse_args(crate::command().get_matches_from(argv.clone())).map_err(|e| e.to_string())?;
        let storage = ChainStorage::new(&options).map_err(|e| e.to_string())?;
        let mut parser = BlockchainParser::new(options, storage);
        parser.start().map_err(|e| e.to_string())
    };
    let (res, outcome) = if workers == 0 {
        sched::run(prefix, body)
    } else {
        let (r, o) = rayon::pool::run_policy(prefix, workers, policy, body);
        (r, sched::Outcome { choices: o.choices, order: o.trace.iter().flat_map(|(t, w)| [*t, *w]).collect(), regions: 0, tasks: 0, diverged: o.diverged, sync_points: 0, preemptions: 0 })
    };
    let _ = std::io::stdout().flush();
    unsafe {
        libc::dup2(saved, 1);
        libc::close(saved);
        libc::close(capfd);
    }
    let raw = std::fs::read_to_string(&cap_path).unwrap_or_default();
    let mut stdout = LOGBUF.lock().unwrap().clone();
    stdout.push_str(&raw);
    let r = RunResult { code: Some(if res.is_ok() { 0 } else { 1 }), signal: None, stdout, stderr: res.err().unwrap_or_default(), files: refmodel::run::read_dir_files(dump) };
    (r, outcome)
}

#[derive(Clone)]
struct WorldSpec {
    name: String,
    coin: &'static str,
    /// per block: per transaction the number of outputs (first entry = coinbase)
    blocks: Vec<Vec<usize>>,
    /// > 0: the explored blocks are preceded by a warm-up block whose coinbase pays to this many DISTINCT scripts; it is
    /// executed in item order without choice points (exploration starts from a non-initial state: whatever the subject keeps
    /// between blocks - a memo, a ring of recent scripts, a table that is recycled when full - is filled by then)
    warmup: usize,
    /// --start: > 0 makes the first block the run evaluates one with several items (process-wide state that is built lazily by
    /// "the first caller" then has several first callers); 0 = from the genesis block (one transaction, one output)
    start: u64,
    /// wide regions: items are started in creation order without choice points and only scheduling points inside closures
    /// branch, each over a window of 3 alternatives (see rayon::sched::set_wide_mode)
    wide: bool,
}

/// the i-th distinct warm-up script (P2PKH of a hash that encodes i)
fn warm_script(i: usize) -> Vec<u8> {
    let mut h = [0xa5u8; 20];
    h[..8].copy_from_slice(&(i as u64).to_le_bytes());
    script::p2pkh(&h)
}

fn build_world(w: &WorldSpec) -> ChainBuilder {
    let c = coin(w.coin);
    let mut cb = ChainBuilder::with_genesis(c);
    let mut seed = 0u8;
    let mut out = |k: usize| -> TxOut {
        seed = seed.wrapping_add(1);
        // a mix of output kinds so that every callback's output depends on every item
        match k % 4 {
            0 => pay(seed, 5 * COIN_VALUE + seed as u64),
            1 => TxOut { value: 0, script: script::op_return(format!("item {}", seed).as_bytes()) },
            2 => TxOut { value: 7 + seed as u64, script: script::p2pk(&script::key33(seed)) },
            _ => TxOut { value: 9 + seed as u64, script: script::p2sh(&script::h20(seed)) },
        }
    };
    if w.warmup > 0 {
        let h = cb.next_height();
        cb.push_raw(vec![coinbase(h, 9, (1..=w.warmup).map(|i| TxOut { value: 1 + i as u64, script: warm_script(i) }).collect())]);
    }
    for blk in &w.blocks {
        let h = cb.next_height();
        let mut txs = Vec::new();
        for (ti, n_out) in blk.iter().enumerate() {
            let outs: Vec<TxOut> = (0..*n_out).map(|k| out(k + ti)).collect();
            if ti == 0 {
                let outs = if w.name.contains("same script") {
                    (0..*n_out).map(|k| TxOut { value: 5 + k as u64, script: script::p2pkh(&script::h20(7)) }).collect()
                } else if w.warmup > 0 {
                    // old scripts at the point where a table of 1024 / 4096 (or 2048) entries filled in order of first use starts to
                    // recycle (genesis script = entry 0, warm-up scripts = entries 1..=warmup), each next to a script never seen
                    let cap = if w.name.contains("1024") { 1024 } else if w.name.contains("2048") { 2048 } else { 4096 };
                    let victim = w.warmup + 1 - cap;
                    (0..*n_out).map(|k| TxOut { value: 5 + k as u64, script: if k % 2 == 0 { warm_script(victim + k / 2) } else { warm_script(1_000_000 + k) } }).collect()
                } else if w.name.contains("A B A") {
                    // scripts repeat with another one in between (and the two kinds differ in type: P2PKH / P2SH of one hash)
                    (0..*n_out).map(|k| TxOut { value: if k % 2 == 0 { 5 + k as u64 } else { 0 }, script: if k % 2 == 0 { script::p2pkh(&script::h20(7)) } else { script::p2sh(&script::h20(7)) } }).collect()
                } else {
                    outs
                };
                txs.push(coinbase(h, 9, outs));
            } else {
                // all non-coinbase transactions of a block have the SAME serialised size and the SAME total value, both larger
                // than the coinbase's: "first one on ties" figures (biggest value / size tx) depend on the order of evaluation
                // if anything about them is computed inside a parallel region
                let same = w.name.contains("same script");
                let aba = w.name.contains("A B A");
                let outs2: Vec<TxOut> = if w.wide {
                    // 65 scripts that differ in ONE byte (the first byte of the hash; same length, same middle and last bytes:
                    // whatever cheap function of a script selects a stripe / bucket / slot, these tend to share it), each
                    // occurring several times in the block
                    (0..*n_out).map(|k| { let mut h = [7u8; 20]; h[0] = (((ti - 1) * n_out + k) % 65) as u8; TxOut { value: 1000 + k as u64, script: script::p2pkh(&h) } }).collect()
                } else {
                    (0..*n_out).map(|k| TxOut { value: 60 * COIN_VALUE + k as u64, script: if aba && (k + ti) % 2 == 1 { script::p2sh(&script::h20(7)) } else { script::p2pkh(&script::h20(if same || aba { 7 } else { ti as u8 * 16 + k as u8 })) } }).collect()
                };
                txs.push(Tx { version: 1, segwit: false, inputs: (0..4).map(|j| TxIn::spend([0xe0u8.wrapping_add(ti as u8); 32], j)).collect(), outputs: outs2, locktime: 0, wide: 0 });
                let _ = outs;
            }
        }
        cb.push_raw(txs);
    }
    cb
}

/// number of linear extensions for one block: txs with o_i outputs each form a chain start -> {o_i outputs in any order} -> continuation
fn predicted_block(outs: &[usize]) -> f64 {
    // interleavings of independent posets: (sum of sizes)! / prod(size_i!) * prod(linear extensions of poset i) ; poset i has o_i! extensions
    let sizes: Vec<usize> = outs.iter().map(|o| o + 2).collect();
    let fact = |n: usize| -> f64 { (1..=n).map(|x| x as f64).product() };
    let total: usize = sizes.iter().sum();
    let mut v = fact(total);
    for (s, o) in sizes.iter().zip(outs) {
        v = v / fact(*s) * fact(*o);
    }
    v
}

fn scratch() -> PathBuf {
    refmodel::world::scratch_root()
}

fn explore_subtree(data: &Path, dump: &Path, w: &WorldSpec, cb: &str, roots: &[Vec<usize>], baseline: &Value, stats: &mut Value, deadline: Option<std::time::SystemTime>) {
    let mut stack: Vec<Vec<usize>> = roots.iter().rev().cloned().collect();
    let (mut sync_points, mut preempted, mut capped) = (0u64, 0u64, false);
    let mut schedules = 0u64;
    let mut orders: BTreeSet<[u8; 8]> = BTreeSet::new();
    let mut outcomes: BTreeMap<String, u64> = BTreeMap::new();
    let mut violation: Option<Value> = None;
    let mut diverged = 0u64;
    let mut max_cp = 0usize;
    while let Some(prefix) = stack.pop() {
        if deadline.map(|d| std::time::SystemTime::now() > d).unwrap_or(false) || (deadline.is_some() && violation.is_some()) {
            capped = violation.is_none();
            break;
        }
        let (r, oc) = run_once(data, dump, w.coin, cb, &prefix);
        schedules += 1;
        sync_points += oc.sync_points;
        if oc.preemptions > 0 {
            preempted += 1;
        }
        if oc.diverged.is_some() {
            diverged += 1;
        }
        max_cp = max_cp.max(oc.choices.len());
        orders.insert(h8(format!("{:?}", oc.order).as_bytes()));
        let obs = observe(&r, dump.parent().unwrap());
        let key = hex(&h8(obs.to_string().as_bytes()));
        *outcomes.entry(key).or_insert(0) += 1;
        if &obs != baseline && violation.is_none() {
            violation = Some(json!({"schedule": oc.choices.iter().map(|c| c.0).collect::<Vec<_>>(), "execution_order": oc.order, "observed": obs}));
        }
        // children: one deviation after the replayed prefix
        for i in (prefix.len()..oc.choices.len()).rev() {
            for alt in (1..oc.choices[i].1).rev() {
                let mut p: Vec<usize> = oc.choices[..i].iter().map(|c| c.0).collect();
                p.push(alt);
                stack.push(p);
            }
        }
    }
    *stats = json!({"schedules": schedules, "distinct_orders": orders.len(), "outcomes": outcomes, "violation": violation, "diverged": diverged, "max_choice_points": max_cp, "sync_points": sync_points, "schedules_with_preemption": preempted, "capped": capped});
}

fn worker(spec_path: &str, out_path: &str) {
    init_logger();
    let spec_bound = serde_json::from_str::<Value>(&std::fs::read_to_string(spec_path).unwrap()).unwrap()["preemption_bound"].as_u64().unwrap_or(0);
    // with pre-emption inside closures every execution gets a process of its own: process-wide state of the subject (a memo in a
    // static, say) must not be carried from one execution into the next - the scheduling points met would depend on it
    INLINE.store(spec_bound == 0, std::sync::atomic::Ordering::SeqCst);
    *IN_FLIGHT.lock().unwrap() = Some(PathBuf::from(format!("{}.inflight", out_path)));
    VERIFY.store(true, std::sync::atomic::Ordering::SeqCst);
    let spec: Value = serde_json::from_str(&std::fs::read_to_string(spec_path).unwrap()).unwrap();
    let w = WorldSpec { name: spec["name"].as_str().unwrap().into(), coin: coin(spec["coin"].as_str().unwrap()).name, blocks: serde_json::from_value(spec["blocks"].clone()).unwrap(), warmup: spec["warmup"].as_u64().unwrap_or(0) as usize, start: spec["start"].as_u64().unwrap_or(0), wide: spec["wide"].as_bool().unwrap_or(false) };
    sched::set_preemption_bound(spec["preemption_bound"].as_u64().unwrap_or(0) as usize);
    sched::set_warmup_regions(if w.warmup > 0 { 4 } else { 0 });
    START.store(w.start, std::sync::atomic::Ordering::SeqCst);
    sched::set_wide_mode(w.wide, if w.wide { 3 } else { 0 });
    // (calendar clock: the monotonic one stands still in a process that runs executions inline)
    let deadline = spec["budget_ms"].as_u64().map(|ms| std::time::SystemTime::now() + std::time::Duration::from_millis(ms));
    let root = scratch();
    let data = root.join("data");
    refmodel::world::copy_dir(Path::new(spec["data"].as_str().unwrap()), &data).unwrap();
    let dump = root.join("dump");
    let mut results = serde_json::Map::new();
    for job in spec["jobs"].as_array().unwrap() {
        let cb = job["callback"].as_str().unwrap();
        let roots: Vec<Vec<usize>> = serde_json::from_value(job["roots"].clone()).unwrap();
        let mut stats = json!({});
        // self-check of the harness: schedule [] executed HERE must give the observation the root process recorded for it (same
        // world, same options, same scheduler settings) - otherwise root and worker do not run the same thing
        let (r0, _) = run_once(&data, &dump, w.coin, cb, &[]);
        if observe(&r0, dump.parent().unwrap()) != job["baseline"] {
            results.insert(cb.to_string(), json!({"harness_inconsistent": true}));
            continue;
        }
        explore_subtree(&data, &dump, &w, cb, &roots, &job["baseline"], &mut stats, deadline);
        results.insert(cb.to_string(), stats);
    }
    std::fs::write(out_path, serde_json::to_string(&Value::Object(results)).unwrap()).unwrap();
    let _ = std::fs::remove_dir_all(&root);
}

pub fn main() {
    let args: Vec<String> = std::env::args().collect();
    if args.len() >= 4 && args[1] == "--worker" {
        worker(&args[2], &args[3]);
        return;
    }
    if args.len() >= 3 && args[1] == "--replay" {
        std::process::exit(replay(&args[2]));
    }
    if args.len() < 2 || (args[1] != "C13" && args[1] != "C13-pool") {
        eprintln!("usage: inproc-sched C13 | C13-pool | --replay <file>");
        std::process::exit(2);
    }
    init_logger();
    let rep = if args[1] == "C13-pool" { c13_pool() } else { c13() };
    std::process::exit(rep.finish());
}

fn canary() -> usize {
    // vacuity check of the explorer: a closure whose effect depends on the execution order must show > 1 outcome
    use rayon::iter::IntoParallelIterator;
    let mut outcomes = BTreeSet::new();
    let mut stack: Vec<Vec<usize>> = vec![vec![]];
    while let Some(prefix) = stack.pop() {
        let (v, oc) = sched::run(&prefix, || {
            let log = Mutex::new(Vec::new());
            vec![1, 2, 3].into_par_iter().for_each(|x| log.lock().unwrap().push(x));
            log.into_inner().unwrap()
        });
        outcomes.insert(v);
        for i in prefix.len()..oc.choices.len() {
            for alt in 1..oc.choices[i].1 {
                let mut p: Vec<usize> = oc.choices[..i].iter().map(|c| c.0).collect();
                p.push(alt);
                stack.push(p);
            }
        }
    }
    outcomes.len()
}

/// The item-level tree (bound 0) of every world of the pinned tree is finished in seconds. A tree under test that opens more
/// regions, or whose folds bring split choice points, can make it astronomically larger: the workers then stop at this wall
/// budget (quick 90 s, thorough 1500 s per world), the cap is reported and the run is not called exhaustive.
fn bound0_budget() -> Option<u64> {
    Some(std::env::var("VERIF_SCHED0_BUDGET_MS").ok().and_then(|v| v.parse().ok()).unwrap_or(if is_thorough() { 1_500_000 } else { 90_000 }))
}

/// One world: baseline per callback (schedule [] twice, compared with the model as a note), then EVERY schedule reachable with
/// at most `pbound` pre-emptions inside item closures (0 = closures atomic: the pure item-level schedule tree), split over
/// worker processes. Returns the number of operations on intercepted std::sync primitives met (0 on code whose closures
/// contain no synchronisation: then a larger bound adds no schedule). `budget_ms`: wall budget of the workers (None = run to
/// completion); when it strikes the evidence says so (caps_hit) and what was covered is the DFS prefix.
#[allow(clippy::too_many_arguments)]
fn explore_world(rep: &mut Report, root: &Path, exe: &Path, tag: &str, w: &WorldSpec, cbs: &[&'static str], pbound: usize, budget_ms: Option<u64>, bound: &mut serde_json::Map<String, Value>, total_pred: &mut f64) -> u64 {
    sched::set_preemption_bound(pbound);
    // genesis block and warm-up block: one region for the block, one for its single transaction, each
    sched::set_warmup_regions(if w.warmup > 0 { 4 } else { 0 });
    START.store(w.start, std::sync::atomic::Ordering::SeqCst);
    sched::set_wide_mode(w.wide, if w.wide { 3 } else { 0 });
    let mut sync_points_seen = 0u64;
    let sig = if pbound == 0 { "outcome-depends-on-schedule" } else { "outcome-depends-on-interleaving-inside-closures" };
    let chain = build_world(w);
    let cn = coin(w.coin);
    let world = World::simple(cn, &chain.blocks, 0);
    let wdir = root.join(tag);
    let data = wdir.join("data");
    if let Err(e) = world.materialise(&data) {
        rep.machinery(format!("materialise: {}", e));
        return 0;
    }
    let dump = wdir.join("dump");
    let predicted: f64 = if w.wide { 1.0 } else { w.blocks.iter().map(|b| predicted_block(b)).product() };
    // baseline (schedule []) per callback, compared with the model; then split the tree two levels deep
    let mut jobs: Vec<Value> = Vec::new();
    let mut failed_baselines: Vec<(String, String)> = Vec::new();
    for cb in cbs {
        let (r, oc) = run_once(&data, &dump, w.coin, cb, &[]);
        sync_points_seen += oc.sync_points;
        if let Some(d) = &oc.diverged {
            rep.machinery(format!("{} {}: baseline diverged: {}", w.name, cb, d));
        }
        let tip = (w.blocks.len() + if w.warmup > 0 { 1 } else { 0 }) as u64;
        let range: Vec<_> = chain.mblocks().into_iter().skip(w.start as usize).collect();
        let bad = match *cb {
            "csvdump" => check_csvdump(&r, cn, &range, w.start, tip),
            "unspentcsvdump" => check_unspent(&r, cn, &range, w.start, tip),
            "balances" => check_balances(&r, cn, &range, w.start, tip),
            "simplestats" => check_stats(&r, cn, &range),
            _ => check_opreturn(&r, cn, &range),
        };
        if let Some((msig, _detail)) = bad.into_iter().next() {
            // C13 is a relation between executions (all schedules agree); whether the common result is right is the
            // business of C01/C07/C08/C15/C16. Recorded, not judged.
            rep.count(&format!("note:schedule-0-differs-from-model:{}", msig), 1);
        }
        if r.stderr.contains("VERIF-DEADLOCK") {
            rep.disagree("deadlock-under-the-controlled-scheduler", format!("{} {} {}: the run cannot complete under schedule [] (items in creation order): {}", w.coin, w.name, cb, r.stderr.chars().take(500).collect::<String>()), json!({"kind": "schedule", "world": {"name": w.name, "coin": w.coin, "blocks": if w.wide { vec![] } else { w.blocks.clone() }, "wide_blocks": if w.wide { Some(&w.blocks) } else { None }, "warmup": w.warmup, "start": w.start, "wide": w.wide}, "callback": cb, "schedule": [], "preemption_bound": pbound}));
            continue;
        }
        let baseline = observe(&r, &wdir);
        if r.code != Some(0) {
            // not necessarily the harness: a waiting task may make even schedule [] the odd one out. Judged below.
            failed_baselines.push((cb.to_string(), r.stderr.chars().take(200).collect::<String>()));
        }
        // replay determinism: the same schedule twice must give identical observations
        let (r2, _) = run_once(&data, &dump, w.coin, cb, &[]);
        if observe(&r2, &wdir) != baseline {
            rep.machinery(format!("{} {}: two executions of schedule [] differ (nondeterminism not owned)", w.name, cb));
        }
        // roots of disjoint subtrees: all one- and two-deviation prefixes of the first levels
        let mut roots: Vec<Vec<usize>> = Vec::new();
        let mut frontier: Vec<Vec<usize>> = vec![vec![]];
        let mut singles = 1u64; // schedules executed here (the split nodes themselves)
        for _level in 0..2 {
            let mut next = Vec::new();
            for p in &frontier {
                let (rr, oc) = if p.is_empty() { (r.clone(), oc.clone()) } else { run_once(&data, &dump, w.coin, cb, p) };
                if !p.is_empty() {
                    singles += 1;
                    if observe(&rr, &wdir) != baseline {
                        rep.disagree(sig, format!("{} {} {}: schedule {:?} (execution order {:?}) gives a different result than schedule []", w.coin, w.name, cb, p, oc.order), json!({"kind": "schedule", "world": {"name": w.name, "coin": w.coin, "blocks": w.blocks, "warmup": w.warmup, "start": w.start, "wide": w.wide}, "callback": cb, "schedule": p, "preemption_bound": pbound}));
                    }
                }
                for i in p.len()..oc.choices.len() {
                    for alt in 1..oc.choices[i].1 {
                        let mut q: Vec<usize> = oc.choices[..i].iter().map(|c| c.0).collect();
                        q.push(alt);
                        next.push(q);
                    }
                }
            }
            frontier = next;
            if std::env::var("VERIF_SCHED_TRACE").is_ok() {
                eprintln!("[trace] {} {} pbound {} level {}: frontier {} prefixes, {} elements, {} choice points in schedule []", w.name, cb, pbound, _level, frontier.len(), frontier.iter().map(|q| q.len()).sum::<usize>(), oc.choices.len());
            }
            if frontier.len() >= 4 * threads() {
                break;
            }
        }
        roots.extend(frontier);
        rep.transitions += singles;
        rep.states += singles;
        jobs.push(json!({"callback": cb, "roots": roots, "baseline": baseline}));
    }
    let large = sched::LARGE_INLINE.swap(0, std::sync::atomic::Ordering::SeqCst);
    if large > 0 {
        // (counted over the baseline and split executions of this process)
        rep.count(&format!("note:regions-of-more-than-{}-items-outside-the-warm-up-run-in-item-order", sched::MAX_PERMUTED_REGION), large);
    }
    // farm out: split every job's roots round-robin over the workers
    let nw = threads();
    let mut children = Vec::new();
    for k in 0..nw {
        let myjobs: Vec<Value> = jobs
            .iter()
            .map(|j| {
                let roots: Vec<Value> = j["roots"].as_array().unwrap().iter().enumerate().filter(|(i, _)| i % nw == k).map(|(_, r)| r.clone()).collect();
                json!({"callback": j["callback"], "roots": roots, "baseline": j["baseline"]})
            })
            .filter(|j| !j["roots"].as_array().unwrap().is_empty())
            .collect();
        if myjobs.is_empty() {
            continue;
        }
        let spec = json!({"name": w.name, "coin": w.coin, "blocks": w.blocks, "warmup": w.warmup, "start": w.start, "wide": w.wide, "data": data.display().to_string(), "jobs": myjobs, "preemption_bound": pbound, "budget_ms": budget_ms});
        let sp = wdir.join(format!("spec{}.json", k));
        let op = wdir.join(format!("out{}.json", k));
        std::fs::write(&sp, spec.to_string()).unwrap();
        let child = std::process::Command::new(exe).arg("--worker").arg(&sp).arg(&op).stdout(std::process::Stdio::null()).spawn();
        match child {
            Ok(ch) => children.push((ch, op)),
            Err(e) => rep.machinery(format!("spawn worker: {}", e)),
        }
    }
    let mut per_cb: BTreeMap<String, (u64, u64, BTreeSet<String>)> = BTreeMap::new();
    let (mut capped, mut with_preemption) = (false, 0u64);
    let world_deadline = std::time::Instant::now() + std::time::Duration::from_secs(std::env::var("VERIF_SCHED_WORLD_LIMIT").ok().and_then(|v| v.parse().ok()).unwrap_or(1500));
    for (mut ch, op) in children {
        // wall cap inside the engine: a worker whose execution in flight never returns (a thread blocked, with the baton, on a
        // primitive the scheduler does not own) is ended and reported as a machinery error naming that schedule - no verdict
        let st = loop {
            match ch.try_wait() {
                Ok(Some(s)) => break Ok(s),
                Ok(None) if std::time::Instant::now() > world_deadline => {
                    let _ = ch.kill();
                    let _ = ch.wait();
                    let inflight = std::fs::read_to_string(format!("{}.inflight", op.display())).unwrap_or_default();
                    rep.machinery(format!("{}: a worker did not finish within the wall cap; execution in flight: {} (blocked on a primitive the scheduler model does not own?)", w.name, inflight));
                    break Err(std::io::Error::new(std::io::ErrorKind::TimedOut, "wall cap"));
                }
                Ok(None) => std::thread::sleep(std::time::Duration::from_millis(5)),
                Err(e) => break Err(e),
            }
        };
        if matches!(&st, Err(e) if e.kind() == std::io::ErrorKind::TimedOut) {
            continue;
        }
        if !st.as_ref().map(|s| s.success()).unwrap_or(false) {
            // the execution in flight ended the worker process (the driver's process::exit, an abort, a crash): that
            // schedule's outcome is "the run terminated", which differs from schedule []'s
            let inflight: Value = std::fs::read_to_string(format!("{}.inflight", op.display())).ok().and_then(|t| serde_json::from_str(&t).ok()).unwrap_or(json!(null));
            if inflight.is_null() {
                rep.machinery(format!("{}: worker failed before its first execution", w.name));
            } else {
                rep.disagree(sig, format!("{} {} {}: schedule {} ended the process ({:?}) while schedule [] ran to completion", w.coin, w.name, inflight["callback"].as_str().unwrap_or("?"), inflight["schedule"], st.map(|s| s.to_string()).unwrap_or_default()), json!({"kind": "schedule", "world": {"name": w.name, "coin": w.coin, "blocks": w.blocks, "warmup": w.warmup, "start": w.start, "wide": w.wide}, "callback": inflight["callback"], "schedule": inflight["schedule"], "preemption_bound": pbound}));
            }
            continue;
        }
        let out: Value = serde_json::from_str(&std::fs::read_to_string(&op).unwrap_or_default()).unwrap_or(json!({}));
        for (cb, s) in out.as_object().cloned().unwrap_or_default() {
            let e = per_cb.entry(cb.clone()).or_insert((0, 0, BTreeSet::new()));
            e.0 += s["schedules"].as_u64().unwrap_or(0);
            e.1 += s["distinct_orders"].as_u64().unwrap_or(0);
            for k in s["outcomes"].as_object().map(|o| o.keys().cloned().collect::<Vec<_>>()).unwrap_or_default() {
                e.2.insert(k);
            }
            if s["harness_inconsistent"].as_bool().unwrap_or(false) {
                rep.machinery(format!("{} {}: schedule [] executed in a worker process differs from schedule [] executed in the root process (harness inconsistency or nondeterminism not owned)", w.name, cb));
                continue;
            }
            sync_points_seen += s["sync_points"].as_u64().unwrap_or(0);
            with_preemption += s["schedules_with_preemption"].as_u64().unwrap_or(0);
            capped |= s["capped"].as_bool().unwrap_or(false);
            if s["diverged"].as_u64().unwrap_or(0) > 0 {
                rep.machinery(format!("{} {}: {} replays diverged from their prefix", w.name, cb, s["diverged"]));
            }
            if !s["violation"].is_null() {
                rep.disagree(sig, format!("{} {} {}: schedule {} (execution order {}) gives a different result than schedule []", w.coin, w.name, cb, s["violation"]["schedule"], s["violation"]["execution_order"]), json!({"kind": "schedule", "world": {"name": w.name, "coin": w.coin, "blocks": w.blocks, "warmup": w.warmup, "start": w.start, "wide": w.wide}, "callback": cb, "schedule": s["violation"]["schedule"], "preemption_bound": pbound}));
            }
        }
    }
    for (cb, err) in &failed_baselines {
        // every schedule failing in the same way is no statement about schedules: the world or the harness is broken
        if per_cb.get(cb).map(|e| e.2.len() <= 1).unwrap_or(true) && !rep.disagreements.keys().any(|k| k.contains("outcome-depends-on-")) {
            rep.machinery(format!("{} {}: every schedule failed: {}", w.name, cb, err));
        }
    }
    let mut wsum = serde_json::Map::new();
    for (cb, (n, orders, outs)) in &per_cb {
        rep.states += n;
        rep.transitions += n;
        for i in 0..*orders {
            rep.nontrivial.insert(h8(format!("{}{}{}{}", w.coin, w.name, cb, i).as_bytes()));
        }
        for o in outs {
            rep.outcomes.insert(h8(format!("{}{}{}{}", w.coin, w.name, cb, o).as_bytes()));
        }
        wsum.insert(cb.clone(), json!({"schedules_in_subtrees": n, "distinct_execution_orders": orders, "distinct_outcomes": outs.len().max(1)}));
    }
    if capped {
        rep.caps_hit.push(format!("{} '{}', pre-emption bound {}: wall budget of {} ms reached; the schedules covered are a DFS prefix of the bounded tree ({})", w.coin, w.name, pbound, budget_ms.unwrap_or(0), if pbound == 0 { "the item-level tree itself was NOT completed".to_string() } else { format!("bound {} was completed before", pbound - 1) }));
    }
    if pbound == 0 {
        *total_pred += predicted * cbs.len() as f64;
        bound.insert(format!("{}/{}", w.coin, w.name), json!({"predicted_schedules_per_callback": predicted, "callbacks": cbs, "measured": wsum}));
    } else {
        bound.insert(format!("{}/{}/preemption-bound-{}", w.coin, w.name, pbound), json!({"callbacks": cbs, "measured": wsum, "schedules_with_a_preemption_inside_a_closure": with_preemption, "sync_points_met": sync_points_seen, "completed": !capped}));
    }
    if rep.samples.len() < 3 {
        rep.sample(json!({"world": w.name, "coin": w.coin, "outputs_per_tx_per_block": w.blocks, "example_schedule": [0, 1, 0, 2], "meaning": "alternative taken at each choice point among the runnable items (sorted by creation order)"}));
    }
    let _ = std::fs::remove_dir_all(&wdir);
    sched::set_preemption_bound(0);
    sched::set_warmup_regions(0);
    START.store(0, std::sync::atomic::Ordering::SeqCst);
    sched::set_wide_mode(false, 0);
    sync_points_seen
}

/// Vacuity checks of the interception (mc/verif-std): the closures below use `std::sync` exactly as the subject's sources
/// would (this module is compiled inside the same crate, so `std::` resolves to the same wrappers).
/// (1) lost update: two items do load-then-store on one AtomicUsize - with closures atomic (bound 0) the final value is
/// always 2, with one pre-emption allowed the value 1 must show up as well. (2) torn check-then-act over two separately
/// locked mutexes (the shape of a shared memo): more than one outcome only under pre-emption.
fn sync_canaries() -> Result<(u64, Vec<usize>), String> {
    use rayon::iter::IntoParallelIterator;
    use std::sync::atomic::{AtomicUsize, Ordering};
    let mut seen: Vec<usize> = Vec::new();
    let mut n = 0u64;
    for pb in [0usize, 1, 2] {
        sched::set_preemption_bound(pb);
        let mut outcomes: BTreeSet<(usize, Vec<u32>)> = BTreeSet::new();
        let mut stack: Vec<Vec<usize>> = vec![vec![]];
        let mut sync_points = 0;
        while let Some(prefix) = stack.pop() {
            let (v, oc) = sched::run(&prefix, || {
                let counter = AtomicUsize::new(0);
                let slot: std::sync::Mutex<Option<u32>> = std::sync::Mutex::new(None);
                let flag: std::sync::Mutex<bool> = std::sync::Mutex::new(false);
                let r: Vec<u32> = vec![1u32, 2].into_par_iter().map(|x| {
                    let v = counter.load(Ordering::SeqCst);
                    counter.store(v + 1, Ordering::SeqCst);
                    // check-then-act across two locks
                    let set = *flag.lock().unwrap();
                    if set {
                        slot.lock().unwrap().unwrap_or(0)
                    } else {
                        *slot.lock().unwrap() = Some(x);
                        *flag.lock().unwrap() = true;
                        x
                    }
                }).collect();
                (counter.load(Ordering::SeqCst), r)
            });
            n += 1;
            sync_points += oc.sync_points;
            if let Some(d) = oc.diverged {
                sched::set_preemption_bound(0);
                return Err(format!("sync canary: replay diverged: {}", d));
            }
            outcomes.insert(v);
            for i in prefix.len()..oc.choices.len() {
                for alt in 1..oc.choices[i].1 {
                    let mut p: Vec<usize> = oc.choices[..i].iter().map(|c| c.0).collect();
                    p.push(alt);
                    stack.push(p);
                }
            }
        }
        if sync_points == 0 {
            sched::set_preemption_bound(0);
            return Err("sync canary: no operation on std::sync primitives was intercepted".into());
        }
        seen.push(outcomes.len());
        let lost = outcomes.iter().any(|(c, _)| *c == 1);
        if (pb == 0 && (lost || outcomes.len() != 2)) || (pb >= 1 && !lost) {
            sched::set_preemption_bound(0);
            return Err(format!("sync canary: pre-emption bound {}: outcomes {:?} (bound 0 must give exactly the two item orders without a lost update, bound >= 1 must show the lost update)", pb, outcomes));
        }
    }
    // the split of a fold is a choice of the runtime: "first element of the last accumulator wins" (a reduce that lets the right
    // side overwrite) must come out as first-of-every-suffix over the splits of three items, and a proper merge as one outcome
    {
        use rayon::iter::ParallelIterator;
        sched::set_preemption_bound(0);
        let (mut bad_merge, mut good_merge): (BTreeSet<u32>, BTreeSet<u32>) = (BTreeSet::new(), BTreeSet::new());
        let (mut leaky_states, mut clean_states): (BTreeSet<Vec<usize>>, BTreeSet<Vec<usize>>) = (BTreeSet::new(), BTreeSet::new());
        // one exploration per canary body (their product would be the product of their trees)
        for which in 0..4usize {
            let mut stack: Vec<Vec<usize>> = vec![vec![]];
            while let Some(prefix) = stack.pop() {
                let (v, oc) = sched::run(&prefix, || {
                    let firsts = |overwrite: bool| vec![7u32, 8, 9].into_par_iter().fold(|| None, |acc: Option<u32>, x| acc.or(Some(x))).reduce(|| None, move |l, r| if overwrite { r.or(l) } else { l.or(r) }).unwrap_or(0);
                    match which {
                        0 => (firsts(true), vec![]),
                        1 => (firsts(false), vec![]),
                        // a scratch state that is not reset between items: what the second item of a run sees depends on the split
                        2 => (0, vec![1usize, 2, 3].into_par_iter().map_with(Vec::<usize>::new(), |seen, x| { seen.push(x); seen.len() }).collect()),
                        _ => (0, vec![1usize, 2, 3].into_par_iter().map_with(Vec::<usize>::new(), |seen, x| { seen.clear(); seen.push(x); seen.len() }).collect()),
                    }
                });
                n += 1;
                if let Some(d) = oc.diverged {
                    return Err(format!("split canary {}: replay diverged: {}", which, d));
                }
                match which {
                    0 => { bad_merge.insert(v.0); }
                    1 => { good_merge.insert(v.0); }
                    2 => { leaky_states.insert(v.1); }
                    _ => { clean_states.insert(v.1); }
                }
                for i in prefix.len()..oc.choices.len() {
                    for alt in 1..oc.choices[i].1 {
                        let mut p: Vec<usize> = oc.choices[..i].iter().map(|c| c.0).collect();
                        p.push(alt);
                        stack.push(p);
                    }
                }
            }
        }
        if leaky_states.len() != 4 || clean_states.len() != 1 {
            return Err(format!("map_with canary: a state that leaks between the items of a run gave {:?} (expected the four splits of three items), a state that is reset gave {:?} (expected one result)", leaky_states, clean_states));
        }
        if bad_merge != [7u32, 8, 9].into_iter().collect() || good_merge != [7u32].into_iter().collect() {
            return Err(format!("fold canary: overwriting merge gave {:?} (expected 7, 8 and 9 over the splits), proper merge gave {:?} (expected 7 only)", bad_merge, good_merge));
        }
    }
    sched::set_preemption_bound(0);
    if !(seen[1] > seen[0] && seen[2] >= seen[1]) {
        return Err(format!("sync canary: number of outcomes per bound {:?} does not grow", seen));
    }
    Ok((n, seen))
}

/// Interleavings INSIDE item closures, bounded by the number of pre-emptions (iterative context bounding: bound 0 above is the
/// complete item-level tree; here bounds 1, 2 (thorough 3) on the small worlds). The scheduling points are the operations on
/// std::sync::{Mutex, RwLock, atomic::*} of the subject's own sources. On sources whose closures contain no such
/// operation (the pinned tree) every bound gives the same tree as bound 0 and this part only says so.
fn sync_part(rep: &mut Report, root: &Path, exe: &Path, sync_seen_at_bound_0: u64, bound: &mut serde_json::Map<String, Value>) {
    if !cfg!(feature = "intercept") {
        rep.count("sync_interception_available", 0);
        rep.not_covered.push("interleavings inside item closures: the harness was built WITHOUT the std::sync wrappers (the build with them failed on this tree - it uses a part of std::sync the wrappers do not offer); closures are atomic in this run".into());
        return;
    }
    rep.count("sync_interception_available", 1);
    match sync_canaries() {
        Ok((n, seen)) => {
            rep.count("sync_canary_schedules", n);
            rep.count("sync_canary_outcomes_bound0", seen[0] as u64);
            rep.count("sync_canary_outcomes_bound1", seen[1] as u64);
            rep.count("sync_canary_outcomes_bound2", seen[2] as u64);
        }
        Err(e) => {
            rep.machinery(e);
            return;
        }
    }
    rep.count("sync_points_met_at_bound_0", sync_seen_at_bound_0);
    // worlds for the bounded phases: few items, scripts that repeat (shared memo / cache shapes), both evaluators
    let mut worlds: Vec<WorldSpec> = Vec::new();
    for cn in ["bitcoin", "litecoin"] {
        // (--start 1: the first thing such a run evaluates is a parallel region with several items)
        worlds.push(WorldSpec { name: "1tx x 3out, scripts A B A, --start 1".into(), coin: cn, blocks: vec![vec![3]], warmup: 0, start: 1, wide: false });
        worlds.push(WorldSpec { name: "2tx x 2out, scripts A B A, --start 1".into(), coin: cn, blocks: vec![vec![2, 2]], warmup: 0, start: 1, wide: false });
        // one output of every kind (address-bearing with value, zero-value data carrier, P2PK, P2SH)
        worlds.push(WorldSpec { name: "1tx x 4out".into(), coin: cn, blocks: vec![vec![4]], warmup: 0, start: 0, wide: false });
    }
    // non-initial states: 4100 distinct scripts evaluated before the explored block
    worlds.push(WorldSpec { name: "after 4100 distinct scripts: 1tx x 4out, oldest-of-4096 / new / next / new".into(), coin: "bitcoin", blocks: vec![vec![4]], warmup: 4100, start: 0, wide: false });
    worlds.push(WorldSpec { name: "after 4100 distinct scripts: 1tx x 4out, oldest-of-1024 / new / next / new".into(), coin: "litecoin", blocks: vec![vec![4]], warmup: 4100, start: 0, wide: false });
    // wide regions (size thresholds: "fan out / share a table only from 128 transactions, from 1024 outputs"): items in creation
    // order, pre-emption at every scheduling point inside a closure towards the 2 oldest and the newest runnable entity
    let mut t130 = vec![1usize];
    t130.extend(std::iter::repeat(2).take(130));
    worlds.push(WorldSpec { name: "wide: 130 tx x 2out, 65 scripts differing in one byte".into(), coin: "bitcoin", blocks: vec![t130.clone()], warmup: 0, start: 1, wide: true });
    worlds.push(WorldSpec { name: "wide: 130 tx x 2out, 65 scripts differing in one byte".into(), coin: "litecoin", blocks: vec![t130], warmup: 0, start: 1, wide: true });
    worlds.push(WorldSpec { name: "wide: 3 tx x 1030out, 65 scripts differing in one byte".into(), coin: "bitcoin", blocks: vec![vec![1, 1030, 1030, 1030]], warmup: 0, start: 1, wide: true });
    let cbs: Vec<&'static str> = vec!["csvdump", "simplestats"];
    let mut total = 0f64;
    // do these worlds meet synchronisation at all? (bound 0 on them is part of the answer and cheap: 6 + 280 schedules)
    let mut seen = sync_seen_at_bound_0;
    for (i, w) in worlds.iter().enumerate() {
        seen += explore_world(rep, root, exe, &format!("sync{}b0", i), w, &cbs, 0, bound0_budget(), bound, &mut total);
    }
    rep.count("sync_points_met_in_the_small_worlds_at_bound_0", seen - sync_seen_at_bound_0);
    if seen == 0 {
        bound.insert("preemption_bounded_phases".into(), json!("not needed on this tree: no item closure performed an operation on std::sync::{Mutex, RwLock, atomic::*} in any schedule, so pre-emption inside closures adds no schedule to the item-level trees above (which are complete)"));
        return;
    }
    let max_bound = if is_thorough() { 3 } else { 2 };
    let budget_ms: u64 = std::env::var("VERIF_SYNC_BUDGET_MS").ok().and_then(|v| v.parse().ok()).unwrap_or(if is_thorough() { 240_000 } else { 12_000 });
    let mut completed = 0usize;
    'bounds: for pb in 1..=max_bound {
        let caps_before = rep.caps_hit.len();
        for (i, w) in worlds.iter().enumerate() {
            if w.wide && pb > 1 {
                continue; // deviation bound 1 on the wide worlds (bound 2 squares thousands of scheduling points)
            }
            explore_world(rep, root, exe, &format!("sync{}b{}", i, pb), w, &cbs, pb, Some(budget_ms), bound, &mut total);
            if rep.disagreements.keys().any(|k| k.contains("interleaving-inside-closures")) {
                break 'bounds;
            }
        }
        if rep.caps_hit.len() == caps_before {
            completed = pb;
        }
    }
    rep.count("preemption_bound_completed_on_all_small_worlds", completed as u64);
}

fn c13() -> Report {
    let mut rep = Report::new("C13", "e3b");
    let thorough = is_thorough();
    let c = canary();
    rep.count("canary_outcomes_of_order_dependent_closure", c as u64);
    if c != 6 {
        rep.machinery(format!("scheduler canary: an order-dependent for_each over 3 items must show 6 outcomes, saw {}", c));
        return rep;
    }
    VERIFY.store(true, std::sync::atomic::Ordering::SeqCst);
    let mut worlds: Vec<(WorldSpec, Vec<&'static str>)> = Vec::new();
    let fast = vec!["csvdump", "simplestats", "opreturn"];
    let all5 = vec!["csvdump", "simplestats", "opreturn", "unspentcsvdump", "balances"];
    for cn in ["bitcoin", "litecoin"] {
        worlds.push((WorldSpec { name: "1tx x 4out".into(), coin: cn, blocks: vec![vec![4]], warmup: 0, start: 0, wide: false }, all5.clone()));
        worlds.push((WorldSpec { name: "2tx x 2out".into(), coin: cn, blocks: vec![vec![2, 2]], warmup: 0, start: 0, wide: false }, all5.clone()));
        worlds.push((WorldSpec { name: "2tx x 2out, all outputs carry the same script".into(), coin: cn, blocks: vec![vec![2, 2]], warmup: 0, start: 0, wide: false }, fast.clone()));
        worlds.push((WorldSpec { name: "3tx x 1out".into(), coin: cn, blocks: vec![vec![1, 1, 1]], warmup: 0, start: 0, wide: false }, fast.clone()));
        worlds.push((WorldSpec { name: "2 blocks of 2tx x 1out".into(), coin: cn, blocks: vec![vec![1, 1], vec![1, 1]], warmup: 0, start: 0, wide: false }, fast.clone()));
        if thorough {
            worlds.push((WorldSpec { name: "2tx x 3out".into(), coin: cn, blocks: vec![vec![3, 3]], warmup: 0, start: 0, wide: false }, all5.clone()));
            worlds.push((WorldSpec { name: "4tx x 1out".into(), coin: cn, blocks: vec![vec![1, 1, 1, 1]], warmup: 0, start: 0, wide: false }, fast.clone()));
        }
    }
    if thorough {
        worlds.push((WorldSpec { name: "3tx x 2out".into(), coin: "bitcoin", blocks: vec![vec![2, 2, 2]], warmup: 0, start: 0, wide: false }, vec!["csvdump"]));
    }
    rep.rule = "for each world (txs x outputs per block) EVERY item-level schedule of the two nested parallel regions (Block::new over transactions, EvaluatedTx::new over outputs) is executed on the repository's own code with rayon replaced by a controlled-scheduler model (baton, real threads, stateless DFS over recorded choice points, no partial-order reduction); every schedule's complete observation (files, simplestats report, opreturn lines; row sets for unspent/balances) must equal schedule 0's, which must equal the reference model; non-trivial = distinct (world, callback, execution order)".into();
    let root = scratch();
    let exe = std::env::current_exe().unwrap();
    let mut total_pred = 0f64;
    let mut bound = serde_json::Map::new();
    let mut sync_seen = 0u64;
    let t_phase = std::time::Instant::now();
    for (wi, (w, cbs)) in worlds.iter().enumerate() {
        sync_seen += explore_world(&mut rep, &root, &exe, &format!("world{}", wi), w, cbs, 0, bound0_budget(), &mut bound, &mut total_pred);
    }
    rep.count("wall_ms_item_level_trees", t_phase.elapsed().as_millis() as u64);
    let t_phase = std::time::Instant::now();
    sync_part(&mut rep, &root, &exe, sync_seen, &mut bound);
    rep.count("wall_ms_preemption_bounded_part", t_phase.elapsed().as_millis() as u64);
    rep.count("predicted_total_schedules", total_pred as u64);
    rep.bound = Value::Object(bound);
    rep.assumptions = vec![
        "item closures are pre-empted only at operations on std::sync::{Mutex, RwLock, atomic::*} of the subject's own sources (intercepted through mc/verif-std) and only up to the stated pre-emption bound; between two such operations a closure touches no memory another closure can touch (safe Rust) - unsafe shared memory, thread_local!, primitives of other crates (parking_lot, once_cell, crossbeam) and std::sync::{mpsc, Condvar, Once*, LazyLock} are NOT scheduling points (covered only by the labelled free-running real-rayon pass of the E1 engine and by Miri in the thorough tier)".into(),
        "adapter chains run per item; flat_map is staged".into(),
    ];
    let _ = std::fs::remove_dir_all(&root);
    rep
}

/// The worker-pool mode of the scheduler model and the big-block schedule family, as an engine of its own (`C13-pool`): in the
/// quick tier it runs beside the item-level trees.
fn c13_pool() -> Report {
    let mut rep = Report::new("C13", "e3p");
    rep.rule = "worker-pool mode of the controlled-scheduler model (2 workers; thread-local state persists per worker; a waiting worker runs other tasks on its own stack): ALL (order x worker assignment) schedules of tiny worlds in which one hash160 is used as P2PKH, P2SH and P2PK, each compared with schedule []; and a block of thousands of chained transactions driven through a stated FAMILY of schedules (policies x workers), each compared with the 1-worker first-enabled run; non-trivial = distinct (task, worker) traces".into();
    let root = scratch();
    VERIFY.store(false, std::sync::atomic::Ordering::SeqCst); // the pool-mode worlds start with a synthetic block 0
    let t_phase = std::time::Instant::now();
    pool_part(&mut rep, &root);
    rep.count("wall_ms_pool_mode_and_big_block", t_phase.elapsed().as_millis() as u64);
    rep.assumptions = vec!["worker-pool mode: operations on std::sync primitives are not scheduling points (a worker is never pre-empted inside a task there)".into()];
    let _ = std::fs::remove_dir_all(&root);
    rep
}

fn replay(path: &str) -> i32 {
    init_logger();
    let doc: Value = serde_json::from_str(&std::fs::read_to_string(path).expect("read")).expect("json");
    let case = &doc["case"];
    if case["kind"] != "schedule" {
        eprintln!("not a schedule case");
        return 2;
    }
    let w = WorldSpec { name: case["world"]["name"].as_str().unwrap().into(), coin: coin(case["world"]["coin"].as_str().unwrap()).name, blocks: serde_json::from_value(if case["world"]["wide_blocks"].is_array() { case["world"]["wide_blocks"].clone() } else { case["world"]["blocks"].clone() }).unwrap(), warmup: case["world"]["warmup"].as_u64().unwrap_or(0) as usize, start: case["world"]["start"].as_u64().unwrap_or(0), wide: case["world"]["wide"].as_bool().unwrap_or(false) };
    let cb = case["callback"].as_str().unwrap();
    let schedule: Vec<usize> = serde_json::from_value(case["schedule"].clone()).unwrap();
    let pbound = case["preemption_bound"].as_u64().unwrap_or(0) as usize;
    let chain = build_world(&w);
    let root = scratch();
    let data = root.join("data");
    World::simple(coin(w.coin), &chain.blocks, 0).materialise(&data).unwrap();
    let dump = root.join("dump");
    VERIFY.store(true, std::sync::atomic::Ordering::SeqCst);
    sched::set_preemption_bound(pbound);
    sched::set_warmup_regions(if w.warmup > 0 { 4 } else { 0 });
    START.store(w.start, std::sync::atomic::Ordering::SeqCst);
    sched::set_wide_mode(w.wide, if w.wide { 3 } else { 0 });
    let (r0, _) = run_once(&data, &dump, w.coin, cb, &[]);
    let base = observe(&r0, &root);
    let (r1, o1) = run_once(&data, &dump, w.coin, cb, &schedule);
    let (r2, _) = run_once(&data, &dump, w.coin, cb, &schedule);
    let (a, b) = (observe(&r1, &root), observe(&r2, &root));
    let _ = std::fs::remove_dir_all(&root);
    println!("property: {} signature: {}", doc["property"], doc["signature"]);
    println!("world {:?} callback {} schedule {:?} (pre-emption bound {}, {} pre-emptions inside closures taken) execution order {:?}", w.blocks, cb, schedule, pbound, o1.preemptions, o1.order);
    if a != b {
        println!("REPLAY-NONDETERMINISTIC");
        return 2;
    }
    if r1.stderr.contains("VERIF-DEADLOCK") {
        println!("REPLAY-CONFIRMED: the run cannot complete under this schedule: {}", r1.stderr);
        return 1;
    }
    if a != base {
        println!("REPLAY-CONFIRMED: schedule gives a different observation than schedule []\nschedule []: {}\nthis schedule: {}", base, a);
        1
    } else {
        println!("REPLAY-DIFFERS: identical to schedule [] on the current tree");
        0
    }
}


/// Worker-pool mode: all (order x worker assignment) schedules with 2 workers on tiny worlds built so that thread-local or
/// per-worker state would show: on a fork coin the SAME 20-byte hash is used as key hash (P2PKH), as script hash (P2SH) and
/// through P2PK of a key, in one transaction and across transactions.
fn pool_part(rep: &mut Report, root: &Path) {
    use rayon::iter::IntoParallelIterator;
    // canary: a closure whose result depends on which worker ran it (thread-local counter) must show > 1 outcome
    thread_local! { static SEEN: std::cell::Cell<u32> = const { std::cell::Cell::new(0) }; }
    let mut outcomes = BTreeSet::new();
    let mut stack: Vec<Vec<usize>> = vec![vec![]];
    let mut n = 0u64;
    while let Some(prefix) = stack.pop() {
        let (v, oc) = rayon::pool::run(&prefix, 2, || {
            let r: Vec<u32> = vec![1, 2, 3].into_par_iter().map(|_| SEEN.with(|c| { c.set(c.get() + 1); c.get() })).collect();
            r
        });
        n += 1;
        outcomes.insert(v);
        for i in prefix.len()..oc.choices.len() {
            for alt in 1..oc.choices[i].1 {
                let mut p: Vec<usize> = oc.choices[..i].iter().map(|c| c.0).collect();
                p.push(alt);
                stack.push(p);
            }
        }
    }
    rep.count("pool_canary_schedules", n);
    rep.count("pool_canary_outcomes_of_thread_local_counter", outcomes.len() as u64);
    if outcomes.len() < 2 {
        rep.machinery(format!("worker-pool canary: a thread-local counter read by 3 items on 2 workers must show several outcomes, saw {}", outcomes.len()));
        return;
    }
    let h = script::h20(0x5c);
    let key = script::key33(0x5d);
    let hk = refmodel::hash::hash160(&key);
    let worlds: Vec<(&str, &'static str, Vec<Vec<TxOut>>)> = vec![
        ("shared hash as P2PKH and P2SH in one tx", "litecoin", vec![vec![TxOut { value: 1, script: script::p2pkh(&h) }, TxOut { value: 2, script: script::p2sh(&h) }]]),
        ("shared hash across two txs: P2SH(hash of a key) then P2PK of that key", "dogecoin", vec![vec![TxOut { value: 1, script: script::p2sh(&hk) }, TxOut { value: 2, script: script::p2pk(&key) }]]),
        ("bitcoin control", "bitcoin", vec![vec![TxOut { value: 1, script: script::p2pkh(&h) }, TxOut { value: 2, script: script::p2sh(&h) }]]),
    ];
    let mut worlds = worlds;
    if is_thorough() {
        worlds.push(("three transactions sharing one hash (P2SH / P2PK / P2PKH)", "dogecoin", vec![vec![TxOut { value: 1, script: script::p2sh(&hk) }], vec![TxOut { value: 2, script: script::p2pk(&key) }, TxOut { value: 3, script: script::p2pkh(&hk) }]]));
    }
    let mut summary = serde_json::Map::new();
    for (wi, (name, cname, txs)) in worlds.iter().enumerate() {
        let c = coin(cname);
        let mut cb = ChainBuilder::at(c, 0);
        let mut all = vec![coinbase(0, 3, vec![TxOut { value: 5, script: script::p2pkh(if wi == 1 { &hk } else { &h }) }])];
        for (k, outs) in txs.iter().enumerate() {
            all.push(Tx { version: 1, segwit: false, inputs: vec![TxIn::spend([0xee; 32], k as u32)], outputs: outs.clone(), locktime: 0, wide: 0 });
        }
        cb.push_raw(all);
        let world = World::simple(c, &cb.blocks, 0);
        let wdir = root.join(format!("pool{}", wi));
        let data = wdir.join("data");
        if let Err(e) = world.materialise(&data) {
            rep.machinery(format!("materialise: {}", e));
            continue;
        }
        let dump = wdir.join("dump");
        let (r0, _) = run_once_mode(&data, &dump, cname, "csvdump", &[], 2);
        let baseline = observe(&r0, &wdir);
        if let Some((sig, _)) = check_csvdump(&r0, c, &cb.mblocks(), 0, 0).into_iter().next() {
            rep.count(&format!("note:pool-schedule-0-differs-from-model:{}", sig), 1);
        }
        let mut stack: Vec<Vec<usize>> = vec![vec![]];
        let (mut n, mut traces, mut outs) = (0u64, BTreeSet::new(), BTreeSet::new());
        let cap: u64 = if is_thorough() { 300_000 } else { 60_000 };
        while let Some(prefix) = stack.pop() {
            if n >= cap {
                rep.caps_hit.push(format!("worker-pool world '{}': schedule cap {} reached (DFS order; the covered part is a prefix-closed subtree)", name, cap));
                break;
            }
            let (r, oc) = run_once_mode(&data, &dump, cname, "csvdump", &prefix, 2);
            n += 1;
            if oc.diverged.is_some() {
                rep.machinery(format!("pool world {}: replay diverged: {:?}", name, oc.diverged));
                break;
            }
            traces.insert(h8(format!("{:?}", oc.order).as_bytes()));
            let o = observe(&r, &wdir);
            outs.insert(h8(o.to_string().as_bytes()));
            if o != baseline {
                rep.disagree("outcome-depends-on-worker-assignment-or-order", format!("{} '{}': schedule {:?} ((task, worker) trace {:?}) gives a different csvdump than schedule []", cname, name, oc.choices.iter().map(|c| c.0).collect::<Vec<_>>(), oc.order), json!({"kind": "pool-schedule", "world": name, "coin": cname, "schedule": oc.choices.iter().map(|c| c.0).collect::<Vec<_>>()}));
                break;
            }
            for i in (prefix.len()..oc.choices.len()).rev() {
                for alt in (1..oc.choices[i].1).rev() {
                    let mut p: Vec<usize> = oc.choices[..i].iter().map(|c| c.0).collect();
                    p.push(alt);
                    stack.push(p);
                }
            }
        }
        rep.states += n;
        rep.transitions += n;
        for t in &traces {
            rep.nontrivial.insert(*t);
        }
        summary.insert(format!("{}/{}", cname, name), json!({"schedules (order x worker assignment, 2 workers)": n, "distinct_traces": traces.len(), "distinct_outcomes": outs.len()}));
        let _ = std::fs::remove_dir_all(&wdir);
    }
    rep.bound["worker_pool_mode"] = Value::Object(summary);
    let t_big = std::time::Instant::now();
    big_block_part(rep, root);
    rep.count("wall_ms_big_block", t_big.elapsed().as_millis() as u64);
}

/// A block with more transactions than any plausible batch size (4100 / 12 300), where the schedule tree cannot be
/// enumerated: a stated FAMILY of schedules instead - after an empty prefix the scheduler always takes the first enabled
/// action, always the last (newest task first, i.e. every region in reverse), or action (k * position + 1) mod n for k in
/// {2, 7, 4099}; x 1, 2 and 3 workers (quick: four of these combinations); x all five callbacks. Exhaustive over that
/// family only, and labelled so.
fn big_block_part(rep: &mut Report, root: &Path) {
    VERIFY.store(true, std::sync::atomic::Ordering::SeqCst);
    let c = coin("bitcoin");
    let n_tx: usize = if is_thorough() { 12_300 } else { 4_100 };
    let mut cb = ChainBuilder::with_genesis(c);
    let mut txs = vec![coinbase(1, 3, vec![pay(1, 50 * COIN_VALUE)])];
    let mut prev: Option<[u8; 32]> = None;
    for k in 0..n_tx {
        // every transaction spends an output of its predecessor in the same block (order matters for the UTXO callbacks),
        // pays a fresh address, and every 7th carries an OP_RETURN
        let mut outs = vec![pay((k % 250) as u8, 1000 + k as u64), pay(((k + 1) % 250) as u8, 5)];
        if k % 7 == 0 {
            outs.push(TxOut { value: 0, script: script::op_return(format!("tx {}", k).as_bytes()) });
        }
        let tx = Tx { version: 1, segwit: false, inputs: vec![match prev { Some(p) => TxIn::spend(p, 0), None => TxIn::spend([0xee; 32], 0) }], outputs: outs, locktime: k as u32, wide: 0 };
        prev = Some(tx.txid());
        txs.push(tx);
    }
    cb.push(txs);
    let world = World::simple(c, &cb.blocks, 0);
    let wdir = root.join("bigblock");
    let data = wdir.join("data");
    if let Err(e) = world.materialise(&data) {
        rep.machinery(format!("materialise: {}", e));
        return;
    }
    let dump = wdir.join("dump");
    let mut n = 0u64;
    let mut traces = BTreeSet::new();
    for cbn in ["csvdump", "unspentcsvdump", "balances", "simplestats", "opreturn"] {
        let (r0, _) = run_once_policy(&data, &dump, "bitcoin", cbn, &[], 1, 0);
        let baseline = observe(&r0, &wdir);
        let family: Vec<(usize, usize)> = if is_thorough() { [1usize, 2, 3].iter().flat_map(|w| [0usize, 1, 2, 7, 4099].iter().map(move |p| (*w, *p))).collect() } else { vec![(2, 0), (2, 1), (2, 7), (3, 1)] };
        let mut any_ok = r0.code == Some(0);
        for (workers, policy) in family {
            let (r, oc) = run_once_policy(&data, &dump, "bitcoin", cbn, &[], workers, policy);
            n += 1;
            traces.insert(h8(format!("{:?}", oc.order).as_bytes()));
            any_ok |= r.code == Some(0);
            let o = observe(&r, &wdir);
            if o != baseline {
                // (a waiting worker may run other pending tasks, so even the 1-worker first-enabled schedule can be the one that is off)
                rep.disagree("big-block:outcome-depends-on-schedule", format!("{} on a block of {} transactions: {} workers with schedule policy {} (exit {:?}) and 1 worker with the first-enabled policy (exit {:?}) give different results", cbn, n_tx, workers, policy, r.code, r0.code), json!({"kind": "pool-policy-schedule", "world": format!("one block of {} chained transactions", n_tx), "callback": cbn, "workers": workers, "policy": policy}));
                break;
            }
        }
        if !any_ok {
            rep.machinery(format!("big-block world: every schedule of {} failed: {}", cbn, r0.stderr.chars().take(200).collect::<String>()));
        }
    }
    rep.states += n;
    rep.transitions += n;
    for t in &traces {
        rep.nontrivial.insert(*t);
    }
    rep.bound["big_block_schedule_family"] = json!({"transactions": n_tx, "schedules": n, "distinct_traces": traces.len(), "family": if is_thorough() { "policies {first, last, stride 2, 7, 4099} x workers {1,2,3} x 5 callbacks (not the full schedule tree)" } else { "(workers, policy) in {(2, first), (2, last), (2, stride 7), (3, last)} x 5 callbacks (not the full schedule tree)" }});
    let _ = std::fs::remove_dir_all(&wdir);
}
