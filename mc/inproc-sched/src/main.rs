fn main() {
    inproc_sched::sched_driver::main();
}
