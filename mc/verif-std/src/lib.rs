#![allow(dead_code)]
//! `std` as the subject's sources see it inside the scheduler harness (mc/inproc-sched lists this crate as a dependency
//! NAMED `std`, which takes precedence over the sysroot's std for every `std::` path of that crate - the subject's sources
//! are compiled unmodified). Everything is re-exported from the real std except the blocking / atomic primitives of
//! `std::sync`: `Mutex`, `RwLock` and the integer / bool atomics are wrappers that tell the controlled scheduler
//! (mc/rayon-sched, `rayon::sched`) about every operation *before* it happens, so that the scheduler can pre-empt the
//! running item closure there. Inside one closure the code between two such operations touches only memory that no other
//! closure can touch concurrently (safe Rust), so pre-emption at these points is sufficient to reach every interleaving the
//! real threads can show - up to the pre-emption bound the explorer states.
//! Outside a controlled execution (no exploration running, worker-pool mode, threads the scheduler does not own) the
//! wrappers behave exactly like the std types they wrap.
pub use ::std::*;

/// the real std, for the harness's own bookkeeping (must not become scheduling points)
pub mod __real {
    pub use ::std::*;
}

#[cfg(feature = "intercept")]
pub mod sync {
    pub use ::std::sync::*;
    pub use crate::imp::{Mutex, MutexGuard, RwLock, RwLockReadGuard, RwLockWriteGuard};
    pub mod atomic {
        pub use ::std::sync::atomic::*;
        pub use crate::imp::atomic::{AtomicBool, AtomicI16, AtomicI32, AtomicI64, AtomicI8, AtomicIsize, AtomicU16, AtomicU32, AtomicU64, AtomicU8, AtomicUsize};
    }
}

#[cfg(feature = "intercept")]
mod imp {
    use ::std::fmt;
    use ::std::ops::{Deref, DerefMut};
    use ::std::sync as rs;
    use ::std::sync::{LockResult, PoisonError, TryLockError, TryLockResult};
    use rayon::sched;

    // ---------------------------------------------------------------- Mutex
    pub struct Mutex<T: ?Sized> {
        inner: rs::Mutex<T>,
    }
    pub struct MutexGuard<'a, T: ?Sized + 'a> {
        g: Option<rs::MutexGuard<'a, T>>,
        addr: usize,
    }
    impl<T> Mutex<T> {
        pub const fn new(t: T) -> Self {
            Mutex { inner: rs::Mutex::new(t) }
        }
        pub fn into_inner(self) -> LockResult<T> {
            self.inner.into_inner()
        }
    }
    impl<T: ?Sized> Mutex<T> {
        fn addr(&self) -> usize {
            &self.inner as *const rs::Mutex<T> as *const u8 as usize
        }
        fn wrap<'a>(&'a self, r: LockResult<rs::MutexGuard<'a, T>>) -> LockResult<MutexGuard<'a, T>> {
            let addr = self.addr();
            match r {
                Ok(g) => Ok(MutexGuard { g: Some(g), addr }),
                Err(p) => Err(PoisonError::new(MutexGuard { g: Some(p.into_inner()), addr })),
            }
        }
        pub fn lock(&self) -> LockResult<MutexGuard<'_, T>> {
            if !sched::controlled() {
                return self.wrap(self.inner.lock());
            }
            sched::sync_point("Mutex::lock");
            loop {
                match self.inner.try_lock() {
                    Ok(g) => {
                        sched::acquired(self.addr(), true);
                        return Ok(MutexGuard { g: Some(g), addr: self.addr() });
                    }
                    Err(TryLockError::Poisoned(p)) => {
                        sched::acquired(self.addr(), true);
                        return Err(PoisonError::new(MutexGuard { g: Some(p.into_inner()), addr: self.addr() }));
                    }
                    Err(TryLockError::WouldBlock) => {
                        if !sched::block_on(self.addr(), "Mutex::lock") {
                            // held by a thread the scheduler does not own: really wait for it
                            let r = self.inner.lock();
                            sched::acquired(self.addr(), true);
                            return self.wrap(r);
                        }
                    }
                }
            }
        }
        pub fn try_lock(&self) -> TryLockResult<MutexGuard<'_, T>> {
            let c = sched::controlled();
            if c {
                sched::sync_point("Mutex::try_lock");
            }
            let addr = self.addr();
            match self.inner.try_lock() {
                Ok(g) => {
                    if c {
                        sched::acquired(addr, true);
                    }
                    Ok(MutexGuard { g: Some(g), addr })
                }
                Err(TryLockError::Poisoned(p)) => {
                    if c {
                        sched::acquired(addr, true);
                    }
                    Err(TryLockError::Poisoned(PoisonError::new(MutexGuard { g: Some(p.into_inner()), addr })))
                }
                Err(TryLockError::WouldBlock) => Err(TryLockError::WouldBlock),
            }
        }
        pub fn is_poisoned(&self) -> bool {
            self.inner.is_poisoned()
        }
        pub fn clear_poison(&self) {
            self.inner.clear_poison()
        }
        pub fn get_mut(&mut self) -> LockResult<&mut T> {
            self.inner.get_mut()
        }
    }
    impl<T: ?Sized> Drop for MutexGuard<'_, T> {
        fn drop(&mut self) {
            self.g = None; // unlock first
            sched::released(self.addr, true);
        }
    }
    impl<T: ?Sized> Deref for MutexGuard<'_, T> {
        type Target = T;
        fn deref(&self) -> &T {
            self.g.as_ref().unwrap()
        }
    }
    impl<T: ?Sized> DerefMut for MutexGuard<'_, T> {
        fn deref_mut(&mut self) -> &mut T {
            self.g.as_mut().unwrap()
        }
    }
    impl<T: ?Sized + fmt::Debug> fmt::Debug for MutexGuard<'_, T> {
        fn fmt(&self, f: &mut fmt::Formatter<'_>) -> fmt::Result {
            fmt::Debug::fmt(&**self, f)
        }
    }
    impl<T: ?Sized + fmt::Display> fmt::Display for MutexGuard<'_, T> {
        fn fmt(&self, f: &mut fmt::Formatter<'_>) -> fmt::Result {
            fmt::Display::fmt(&**self, f)
        }
    }
    impl<T: ?Sized + fmt::Debug> fmt::Debug for Mutex<T> {
        fn fmt(&self, f: &mut fmt::Formatter<'_>) -> fmt::Result {
            fmt::Debug::fmt(&self.inner, f)
        }
    }
    impl<T: Default> Default for Mutex<T> {
        fn default() -> Self {
            Mutex::new(T::default())
        }
    }
    impl<T> From<T> for Mutex<T> {
        fn from(t: T) -> Self {
            Mutex::new(t)
        }
    }

    // ---------------------------------------------------------------- RwLock
    pub struct RwLock<T: ?Sized> {
        inner: rs::RwLock<T>,
    }
    pub struct RwLockReadGuard<'a, T: ?Sized + 'a> {
        g: Option<rs::RwLockReadGuard<'a, T>>,
        addr: usize,
    }
    pub struct RwLockWriteGuard<'a, T: ?Sized + 'a> {
        g: Option<rs::RwLockWriteGuard<'a, T>>,
        addr: usize,
    }
    impl<T> RwLock<T> {
        pub const fn new(t: T) -> Self {
            RwLock { inner: rs::RwLock::new(t) }
        }
        pub fn into_inner(self) -> LockResult<T> {
            self.inner.into_inner()
        }
    }
    impl<T: ?Sized> RwLock<T> {
        fn addr(&self) -> usize {
            &self.inner as *const rs::RwLock<T> as *const u8 as usize
        }
        pub fn read(&self) -> LockResult<RwLockReadGuard<'_, T>> {
            let addr = self.addr();
            if !sched::controlled() {
                return match self.inner.read() {
                    Ok(g) => Ok(RwLockReadGuard { g: Some(g), addr }),
                    Err(p) => Err(PoisonError::new(RwLockReadGuard { g: Some(p.into_inner()), addr })),
                };
            }
            sched::sync_point("RwLock::read");
            loop {
                match self.inner.try_read() {
                    Ok(g) => {
                        sched::acquired(addr, false);
                        return Ok(RwLockReadGuard { g: Some(g), addr });
                    }
                    Err(TryLockError::Poisoned(p)) => {
                        sched::acquired(addr, false);
                        return Err(PoisonError::new(RwLockReadGuard { g: Some(p.into_inner()), addr }));
                    }
                    Err(TryLockError::WouldBlock) => {
                        if !sched::block_on(addr, "RwLock::read") {
                            let r = self.inner.read();
                            sched::acquired(addr, false);
                            return match r {
                                Ok(g) => Ok(RwLockReadGuard { g: Some(g), addr }),
                                Err(p) => Err(PoisonError::new(RwLockReadGuard { g: Some(p.into_inner()), addr })),
                            };
                        }
                    }
                }
            }
        }
        pub fn write(&self) -> LockResult<RwLockWriteGuard<'_, T>> {
            let addr = self.addr();
            if !sched::controlled() {
                return match self.inner.write() {
                    Ok(g) => Ok(RwLockWriteGuard { g: Some(g), addr }),
                    Err(p) => Err(PoisonError::new(RwLockWriteGuard { g: Some(p.into_inner()), addr })),
                };
            }
            sched::sync_point("RwLock::write");
            loop {
                match self.inner.try_write() {
                    Ok(g) => {
                        sched::acquired(addr, true);
                        return Ok(RwLockWriteGuard { g: Some(g), addr });
                    }
                    Err(TryLockError::Poisoned(p)) => {
                        sched::acquired(addr, true);
                        return Err(PoisonError::new(RwLockWriteGuard { g: Some(p.into_inner()), addr }));
                    }
                    Err(TryLockError::WouldBlock) => {
                        if !sched::block_on(addr, "RwLock::write") {
                            let r = self.inner.write();
                            sched::acquired(addr, true);
                            return match r {
                                Ok(g) => Ok(RwLockWriteGuard { g: Some(g), addr }),
                                Err(p) => Err(PoisonError::new(RwLockWriteGuard { g: Some(p.into_inner()), addr })),
                            };
                        }
                    }
                }
            }
        }
        pub fn try_read(&self) -> TryLockResult<RwLockReadGuard<'_, T>> {
            let c = sched::controlled();
            if c {
                sched::sync_point("RwLock::try_read");
            }
            let addr = self.addr();
            match self.inner.try_read() {
                Ok(g) => {
                    if c {
                        sched::acquired(addr, false);
                    }
                    Ok(RwLockReadGuard { g: Some(g), addr })
                }
                Err(TryLockError::Poisoned(p)) => {
                    if c {
                        sched::acquired(addr, false);
                    }
                    Err(TryLockError::Poisoned(PoisonError::new(RwLockReadGuard { g: Some(p.into_inner()), addr })))
                }
                Err(TryLockError::WouldBlock) => Err(TryLockError::WouldBlock),
            }
        }
        pub fn try_write(&self) -> TryLockResult<RwLockWriteGuard<'_, T>> {
            let c = sched::controlled();
            if c {
                sched::sync_point("RwLock::try_write");
            }
            let addr = self.addr();
            match self.inner.try_write() {
                Ok(g) => {
                    if c {
                        sched::acquired(addr, true);
                    }
                    Ok(RwLockWriteGuard { g: Some(g), addr })
                }
                Err(TryLockError::Poisoned(p)) => {
                    if c {
                        sched::acquired(addr, true);
                    }
                    Err(TryLockError::Poisoned(PoisonError::new(RwLockWriteGuard { g: Some(p.into_inner()), addr })))
                }
                Err(TryLockError::WouldBlock) => Err(TryLockError::WouldBlock),
            }
        }
        pub fn is_poisoned(&self) -> bool {
            self.inner.is_poisoned()
        }
        pub fn get_mut(&mut self) -> LockResult<&mut T> {
            self.inner.get_mut()
        }
    }
    impl<T: ?Sized> Drop for RwLockReadGuard<'_, T> {
        fn drop(&mut self) {
            self.g = None;
            sched::released(self.addr, false);
        }
    }
    impl<T: ?Sized> Drop for RwLockWriteGuard<'_, T> {
        fn drop(&mut self) {
            self.g = None;
            sched::released(self.addr, true);
        }
    }
    impl<T: ?Sized> Deref for RwLockReadGuard<'_, T> {
        type Target = T;
        fn deref(&self) -> &T {
            self.g.as_ref().unwrap()
        }
    }
    impl<T: ?Sized> Deref for RwLockWriteGuard<'_, T> {
        type Target = T;
        fn deref(&self) -> &T {
            self.g.as_ref().unwrap()
        }
    }
    impl<T: ?Sized> DerefMut for RwLockWriteGuard<'_, T> {
        fn deref_mut(&mut self) -> &mut T {
            self.g.as_mut().unwrap()
        }
    }
    impl<T: ?Sized + fmt::Debug> fmt::Debug for RwLock<T> {
        fn fmt(&self, f: &mut fmt::Formatter<'_>) -> fmt::Result {
            fmt::Debug::fmt(&self.inner, f)
        }
    }
    impl<T: ?Sized + fmt::Debug> fmt::Debug for RwLockReadGuard<'_, T> {
        fn fmt(&self, f: &mut fmt::Formatter<'_>) -> fmt::Result {
            fmt::Debug::fmt(&**self, f)
        }
    }
    impl<T: ?Sized + fmt::Debug> fmt::Debug for RwLockWriteGuard<'_, T> {
        fn fmt(&self, f: &mut fmt::Formatter<'_>) -> fmt::Result {
            fmt::Debug::fmt(&**self, f)
        }
    }
    impl<T: Default> Default for RwLock<T> {
        fn default() -> Self {
            RwLock::new(T::default())
        }
    }
    impl<T> From<T> for RwLock<T> {
        fn from(t: T) -> Self {
            RwLock::new(t)
        }
    }

    // ---------------------------------------------------------------- atomics
    pub mod atomic {
        use ::std::fmt;
        use ::std::sync::atomic as ra;
        use ::std::sync::atomic::Ordering;
        use rayon::sched;

        macro_rules! atomic_common {
            ($name:ident, $t:ty) => {
                #[repr(transparent)]
                pub struct $name(ra::$name);
                impl $name {
                    pub const fn new(v: $t) -> Self {
                        $name(ra::$name::new(v))
                    }
                    pub fn into_inner(self) -> $t {
                        self.0.into_inner()
                    }
                    pub fn get_mut(&mut self) -> &mut $t {
                        self.0.get_mut()
                    }
                    pub fn load(&self, o: Ordering) -> $t {
                        sched::sync_point(concat!(stringify!($name), "::load"));
                        self.0.load(o)
                    }
                    pub fn store(&self, v: $t, o: Ordering) {
                        sched::sync_point(concat!(stringify!($name), "::store"));
                        self.0.store(v, o)
                    }
                    pub fn swap(&self, v: $t, o: Ordering) -> $t {
                        sched::sync_point(concat!(stringify!($name), "::swap"));
                        self.0.swap(v, o)
                    }
                    pub fn compare_exchange(&self, c: $t, n: $t, s: Ordering, f: Ordering) -> Result<$t, $t> {
                        sched::sync_point(concat!(stringify!($name), "::compare_exchange"));
                        self.0.compare_exchange(c, n, s, f)
                    }
                    pub fn compare_exchange_weak(&self, c: $t, n: $t, s: Ordering, f: Ordering) -> Result<$t, $t> {
                        sched::sync_point(concat!(stringify!($name), "::compare_exchange_weak"));
                        // no spurious failures: they add nothing but unbounded retry loops to the explored space
                        self.0.compare_exchange(c, n, s, f)
                    }
                    pub fn fetch_and(&self, v: $t, o: Ordering) -> $t {
                        sched::sync_point(concat!(stringify!($name), "::fetch_and"));
                        self.0.fetch_and(v, o)
                    }
                    pub fn fetch_nand(&self, v: $t, o: Ordering) -> $t {
                        sched::sync_point(concat!(stringify!($name), "::fetch_nand"));
                        self.0.fetch_nand(v, o)
                    }
                    pub fn fetch_or(&self, v: $t, o: Ordering) -> $t {
                        sched::sync_point(concat!(stringify!($name), "::fetch_or"));
                        self.0.fetch_or(v, o)
                    }
                    pub fn fetch_xor(&self, v: $t, o: Ordering) -> $t {
                        sched::sync_point(concat!(stringify!($name), "::fetch_xor"));
                        self.0.fetch_xor(v, o)
                    }
                    pub fn fetch_update<F: FnMut($t) -> Option<$t>>(&self, s: Ordering, f: Ordering, g: F) -> Result<$t, $t> {
                        sched::sync_point(concat!(stringify!($name), "::fetch_update"));
                        self.0.fetch_update(s, f, g)
                    }
                    pub fn as_ptr(&self) -> *mut $t {
                        self.0.as_ptr()
                    }
                }
                impl Default for $name {
                    fn default() -> Self {
                        $name(ra::$name::default())
                    }
                }
                impl From<$t> for $name {
                    fn from(v: $t) -> Self {
                        $name::new(v)
                    }
                }
                impl fmt::Debug for $name {
                    fn fmt(&self, f: &mut fmt::Formatter<'_>) -> fmt::Result {
                        fmt::Debug::fmt(&self.0, f)
                    }
                }
            };
        }
        macro_rules! atomic_int {
            ($($name:ident: $t:ty),*) => {$(
                atomic_common!($name, $t);
                impl $name {
                    pub fn fetch_add(&self, v: $t, o: Ordering) -> $t {
                        sched::sync_point(concat!(stringify!($name), "::fetch_add"));
                        self.0.fetch_add(v, o)
                    }
                    pub fn fetch_sub(&self, v: $t, o: Ordering) -> $t {
                        sched::sync_point(concat!(stringify!($name), "::fetch_sub"));
                        self.0.fetch_sub(v, o)
                    }
                    pub fn fetch_max(&self, v: $t, o: Ordering) -> $t {
                        sched::sync_point(concat!(stringify!($name), "::fetch_max"));
                        self.0.fetch_max(v, o)
                    }
                    pub fn fetch_min(&self, v: $t, o: Ordering) -> $t {
                        sched::sync_point(concat!(stringify!($name), "::fetch_min"));
                        self.0.fetch_min(v, o)
                    }
                }
            )*};
        }
        atomic_int!(AtomicUsize: usize, AtomicIsize: isize, AtomicU64: u64, AtomicI64: i64, AtomicU32: u32, AtomicI32: i32, AtomicU16: u16, AtomicI16: i16, AtomicU8: u8, AtomicI8: i8);
        atomic_common!(AtomicBool, bool);
        impl AtomicBool {
            pub fn fetch_not(&self, o: Ordering) -> bool {
                sched::sync_point("AtomicBool::fetch_not");
                self.0.fetch_xor(true, o)
            }
        }
    }
}
