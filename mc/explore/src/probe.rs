//! Ad-hoc probe (not registered): read deviations on the LevelDB index files of the C03 index forms.
use crate::c03::*;
use crate::gen::dependent_chain;
use refmodel::coins::coin;
use refmodel::ev::Report;
pub fn run(_label: &str) {
    let btc = coin("bitcoin");
    let chain = dependent_chain(btc, 0, 4);
    let root = refmodel::world::scratch_root();
    let mut rep = Report::new("C03", "probe");
    for form in 0..4u8 {
        let files = vec![(0u64, None, (0..4).map(|b| (b, Gap::None, None)).collect())];
        let l = Layout { files, index_form: form, junk_keys: false, foreign_entries: false, label: format!("form{}", form) };
        let world = build_world(btc, &chain.blocks, 0, &l);
        crate::c10::read_deviations_on(&mut rep, &root, "C03", &world, &world, &format!("index-form{}", form), &["csvdump"], "index/");
    }
    println!("counters {:?}", rep.counters);
    println!("machinery {:?}", rep.machinery_errors);
    for (sig, (n, ds)) in &rep.disagreements {
        println!("{} x{}: {}", sig, n, ds.first().map(|d| format!("{:?}", d)).unwrap_or_default().chars().take(600).collect::<String>());
    }
    let _ = std::fs::remove_dir_all(&root);
}
