//! Ad-hoc probe (not registered): run one C03 layout repeatedly and time it.
use crate::c03::*;
use crate::gen::dependent_chain;
use crate::hx::Worker;
use refmodel::coins::coin;
use refmodel::run::RunSpec;
pub fn run(label: &str) {
    let btc = coin("bitcoin");
    let chain = dependent_chain(btc, 0, 3);
    let root = refmodel::world::scratch_root();
    for l in layouts(3, false) {
        if l.label != label { continue; }
        let wk = Worker::new(&root, 0);
        let world = build_world(btc, &chain.blocks, 0, &l);
        for i in 0..20 {
            wk.materialise(&world).unwrap();
            let t = std::time::Instant::now();
            let mut spec = RunSpec::new("bitcoin", "csvdump").verify(true);
            spec.env.push(("VERIF_RUN_TIMEOUT".into(), "3".into()));
            let r = wk.run(&spec);
            println!("{} {} {:?} {:?}", i, t.elapsed().as_millis(), r.code, r.signal);
        }
    }
    let _ = std::fs::remove_dir_all(&root);
}
