//! Oracles comparing a run of the real code with the reference model (shared with the in-process harnesses).
pub use refmodel::oracle::*;
