//! C10 — exit 0 => complete final-named output; any failure leaves none (E3a; fault and crash-point enumeration).
use crate::gen::dependent_chain;
use crate::hx::{replay_case, Worker};
use refmodel::chain::{coinbase, pay, ChainBuilder, COIN_VALUE};
use refmodel::coins::coin;
use refmodel::ev::{h8, is_thorough, par_fold, Report};
use refmodel::run::{RunResult, RunSpec};
use refmodel::ser::{Tx, TxIn, TxOut};
use refmodel::world::{IndexRec, World};
use serde_json::json;
use std::collections::BTreeMap;

const CBS: [&str; 3] = ["csvdump", "unspentcsvdump", "balances"];

fn canon(name: &str, content: &[u8]) -> Vec<u8> {
    if name.starts_with("unspent") || name.starts_with("balances") {
        let s = String::from_utf8_lossy(content);
        let mut lines: Vec<&str> = s.lines().collect();
        if lines.len() > 1 {
            lines[1..].sort();
        }
        let mut v = lines.join("\n").into_bytes();
        if s.ends_with('\n') {
            v.push(b'\n');
        }
        v
    } else {
        content.to_vec()
    }
}

fn small_world() -> (World, Vec<IndexRec>, ChainBuilder) {
    let btc = coin("bitcoin");
    let chain = dependent_chain(btc, 0, 6);
    let mut w = World::new(btc);
    let mut recs = Vec::new();
    for (i, b) in chain.blocks.iter().enumerate() {
        recs.push(w.add_block(i as u64, i as u64, b)); // one block per file: an input fault hits exactly one height
    }
    (w, recs, chain)
}

fn large_world() -> World {
    // one block whose rows exceed the 4 MB writer buffers, so flushes also happen in the middle of the run
    let btc = coin("bitcoin");
    let mut cb = ChainBuilder::with_genesis(btc);
    let mut txs = Vec::new();
    for t in 0..120usize {
        txs.push(Tx { version: 1, segwit: false, inputs: vec![TxIn::spend([0xee; 32], t as u32)], outputs: (0..1000usize).map(|k| TxOut { value: 1 + k as u64, script: refmodel::script::p2pkh(&{
            let mut h = [0u8; 20];
            h[..8].copy_from_slice(&((t * 1000 + k) as u64).to_le_bytes());
            h
        }) }).collect(), locktime: 0, wide: 0 });
    }
    cb.push(txs);
    cb.push(vec![]);
    World::simple(btc, &cb.blocks, 0)
}

#[derive(Clone, Debug)]
struct Call {
    k: usize,
    op: String,
    path: String,
    len: u64,
}

fn parse_log(text: &str, root: &str) -> Vec<Call> {
    let mut v = Vec::new();
    for l in text.lines() {
        let f: Vec<&str> = l.split(' ').collect();
        if f.len() >= 4 && f[0] != "T" {
            if let Ok(k) = f[0].parse::<usize>() {
                v.push(Call { k, op: f[1].to_string(), path: f[2].replace(root, ""), len: f[3].parse().unwrap_or(0) });
            }
        }
    }
    v
}

fn fault_spec(cb: &str, wk: &Worker, plan: &str) -> RunSpec {
    let mut s = RunSpec::new("bitcoin", cb);
    s.env.push(("FAULTFS_DIR".into(), wk.dump().display().to_string()));
    s.env.push(("FAULTFS_LOG".into(), wk.dir.join("shim.log").display().to_string()));
    if !plan.is_empty() {
        s.env.push(("FAULTFS_PLAN".into(), plan.into()));
    }
    s.env.push(("VERIF_RUN_TIMEOUT".into(), "60".into()));
    s
}

fn run_with_log(wk: &Worker, spec: &RunSpec) -> (RunResult, Vec<Call>) {
    let _ = std::fs::remove_file(wk.dir.join("shim.log"));
    let r = wk.run(spec);
    let log = std::fs::read_to_string(wk.dir.join("shim.log")).unwrap_or_default();
    (r, parse_log(&log, &wk.dir.display().to_string()))
}

/// Environment answers on the INPUT side: every read() the run issues on a blk file (numbered by a fault-free run of the same
/// tree) answered with at most one byte, at most half of the request, EINTR, or EIO - one deviation per run (bound 1), plus
/// pairs of benign deviations at consecutive reads (bound 2). Short and interrupted reads are legal answers: exit 0 and the
/// files of the undisturbed run on `reference_world`. EIO is a block that cannot be read: non-zero exit, no final-named file.
pub fn read_deviations(rep: &mut Report, root: &std::path::Path, prop: &str, world: &World, reference_world: &World, label: &str, callbacks: &[&'static str]) {
    read_deviations_on(rep, root, prop, world, reference_world, label, callbacks, "blk")
}

/// `which`: path prefix below the data directory whose reads are numbered ("blk" = the blk files, "index/" = the LevelDB index).
/// "Exit status 0 implies that every output file of the run is present under its final name ... and that no *.tmp file
/// remains" - also when there is nothing to put into it: ranges whose outputs are all spent again or carry no address (the
/// unspent and balances dumps then consist of their header line), read with --start at their first height.
fn nothing_to_list(rep: &mut Report, root: &std::path::Path) {
    use refmodel::chain::coinbase;
    use refmodel::ser::{Tx, TxIn, TxOut};
    let btc = coin("bitcoin");
    for variant in 0..2u8 {
        let mut cb = ChainBuilder::at(btc, 7);
        let data = |t: &[u8]| TxOut { value: 0, script: refmodel::script::op_return(t) };
        if variant == 0 {
            let c1 = coinbase(7, 31, vec![TxOut { value: 50, script: refmodel::script::p2pkh(&refmodel::script::h20(190)) }]);
            let id = c1.txid();
            cb.push_raw(vec![c1]);
            cb.push_raw(vec![coinbase(8, 32, vec![data(b"no address")]), Tx { version: 1, segwit: false, inputs: vec![TxIn::spend(id, 0)], outputs: vec![data(b"burnt")], locktime: 0, wide: 0 }]);
        } else {
            cb.push_raw(vec![coinbase(7, 33, vec![data(b"a"), TxOut { value: 5, script: vec![0x51] }])]);
            cb.push_raw(vec![coinbase(8, 34, vec![data(b"b")])]);
        }
        let world = World::simple(btc, &cb.blocks, 7);
        let wk = Worker::new(root, 860 + variant as usize);
        if let Err(m) = wk.materialise(&world) {
            return rep.machinery(m);
        }
        for cbn in CBS {
            let spec = RunSpec::new("bitcoin", cbn).range(Some(7), None);
            let r = wk.run(&spec);
            rep.states += 1;
            rep.transitions += 1;
            rep.nontrivial.insert(h8(format!("nothing-to-list{}{}", variant, cbn).as_bytes()));
            rep.count("nothing-to-list-runs", 1);
            if r.code != Some(0) {
                continue; // whether such a run may fail is not C10's business (C07 / C08 say what it must produce)
            }
            let want: Vec<String> = match cbn {
                "csvdump" => ["blocks", "transactions", "tx_in", "tx_out"].iter().map(|t| format!("{}-7-8.csv", t)).collect(),
                "unspentcsvdump" => vec!["unspent-7-8.csv".into()],
                _ => vec!["balances-7-8.csv".into()],
            };
            let missing: Vec<&String> = want.iter().filter(|n| !r.files.contains_key(*n)).collect();
            let tmp: Vec<&String> = r.files.keys().filter(|n| n.ends_with(".tmp")).collect();
            if !missing.is_empty() || !tmp.is_empty() {
                rep.disagree("exit-0-but-output-file-missing:nothing-to-list", format!("{} over a range with {}: exit 0, final-named files missing {:?}, temporary files left {:?}", cbn, if variant == 0 { "every output spent again" } else { "no output carrying an address" }, missing, tmp), replay_case(&world, &spec, json!({"must": "exit 0 => every output file under its final name, no *.tmp"}), &r, &wk.dir));
            }
        }
        wk.cleanup();
    }
}

/// The undisturbed run of a world fails on this tree. That is an observation about the subject, not about this harness, and
/// C10 has a clause for it: a run that exits non-zero leaves no final-named file. The enumerations (which deviate from the
/// fault-free call sequence) cannot be built for this world; the evidence says so.
fn undisturbed_run_failed(rep: &mut Report, what: &str, r: &refmodel::run::RunResult) {
    let finals: Vec<&String> = r.files.keys().filter(|n| n.ends_with(".csv")).collect();
    if r.code != Some(0) && !finals.is_empty() {
        rep.disagree("failed-run-leaves-final-named-file:undisturbed-run", format!("{}: exit {:?} and final-named files {:?}", what, r.code, finals), json!({"kind": "e1-described", "case": what}));
    }
    rep.not_covered.push(format!("{}: the undisturbed run fails on this tree (exit {:?}, {}); fault / crash-point enumeration needs a fault-free reference and was not run for it", what, r.code, r.stderr.lines().next().unwrap_or("").chars().take(160).collect::<String>()));
    rep.count("note:undisturbed-run-failed", 1);
    rep.exhaustive = false;
}

#[allow(clippy::too_many_arguments)]
pub fn read_deviations_on(rep: &mut Report, root: &std::path::Path, prop: &str, world: &World, reference_world: &World, label: &str, callbacks: &[&'static str], which: &str) {
    let wk = Worker::new(root, 870);
    let mut refs: BTreeMap<&str, BTreeMap<String, Vec<u8>>> = BTreeMap::new();
    if let Err(m) = wk.materialise(reference_world) {
        return rep.machinery(m);
    }
    for cb in callbacks {
        let r = wk.run(&RunSpec::new("bitcoin", cb));
        if !r.ok() {
            return undisturbed_run_failed(rep, &format!("read deviations ({}): reference run of {}", label, cb), &r);
        }
        let mut files: BTreeMap<String, Vec<u8>> = r.files.iter().map(|(k, v)| (k.clone(), canon(k, v))).collect();
        if files.is_empty() {
            files.insert("<stdout>".into(), refmodel::run::strip_time(&r.stdout).replace(&wk.dir.display().to_string(), "<ROOT>").into_bytes());
        }
        refs.insert(*cb, files);
    }
    if let Err(m) = wk.materialise(world) {
        return rep.machinery(m);
    }
    let rspec = |cb: &str, plan: &str| {
        let mut s = RunSpec::new("bitcoin", cb);
        s.env.push(("FAULTFS_RPREFIX".into(), format!("{}/{}", wk.data().display(), which)));
        s.env.push(("FAULTFS_LOG".into(), wk.dir.join("shim.log").display().to_string()));
        if !plan.is_empty() {
            s.env.push(("FAULTFS_RPLAN".into(), plan.into()));
        }
        s
    };
    // numbering runs (twice: the read sequence must be deterministic)
    let mut plans: Vec<(&'static str, String, &'static str)> = Vec::new();
    for cb in callbacks {
        let count = |wk: &Worker| -> usize {
            let _ = std::fs::remove_file(wk.dir.join("shim.log"));
            let r = wk.run(&rspec(cb, ""));
            if !r.ok() {
                return 0;
            }
            std::fs::read_to_string(wk.dir.join("shim.log")).unwrap_or_default().lines().filter(|l| l.starts_with("R ")).count()
        };
        let (n1, n2) = (count(&wk), count(&wk));
        if n1 == 0 && n2 == 0 {
            // the undisturbed run on the world under test fails although the reference world's run succeeded: that is a
            // disagreement between the two worlds (C11: obfuscated vs plaintext), not a problem of the harness
            let r = wk.run(&rspec(cb, ""));
            rep.disagree("undisturbed-run-fails-on-the-world-under-test", format!("{} {}: exit {:?}: {}", label, cb, r.code, r.stderr.lines().next().unwrap_or("")), replay_case(world, &rspec(cb, ""), json!({"must": "succeed like the run on the reference world"}), &r, &wk.dir));
            return;
        }
        if n1 != n2 {
            return rep.machinery(format!("read deviations: {} issues {} / {} reads on blk files in two fault-free runs", cb, n1, n2));
        }
        rep.count(&format!("{}:blk-reads:{}", label, cb), n1 as u64);
        for k in 0..n1 {
            for act in ["SHORT1", "SHORTH", "EINTR"] {
                plans.push((cb, format!("{}:{}", k, act), "benign"));
            }
            plans.push((cb, format!("{}:EIO", k), "input-fault"));
            // a signal in the middle of the run (terminal interrupt, termination request, hang-up, user signal)
            if prop == "C10" {
                for sg in ["SIGINT", "SIGTERM", "SIGHUP", "SIGUSR1"] {
                    plans.push((cb, format!("{}:{}", k, sg), "signal"));
                }
            }
            if k + 1 < n1 {
                plans.push((cb, format!("{}:SHORT1,{}:SHORT1", k, k + 1), "benign"));
                plans.push((cb, format!("{}:EINTR,{}:SHORTH", k, k + 1), "benign"));
            }
        }
    }
    drop(wk);
    let parts = par_fold(
        &plans,
        || Report::new(prop, "e3a"),
        |w, _i, (cb, plan, kind), acc| {
            let wk = Worker::new(root, 900 + w);
            if !wk.data().exists() {
                if let Err(m) = wk.materialise(world) {
                    return acc.machinery(m);
                }
            }
            let mut spec = RunSpec::new("bitcoin", cb);
            spec.env.push(("FAULTFS_RPREFIX".into(), format!("{}/{}", wk.data().display(), which)));
            spec.env.push(("FAULTFS_RPLAN".into(), plan.clone()));
            let r = wk.run(&spec);
            acc.states += 1;
            acc.transitions += 1;
            acc.count(&format!("{}:read-deviations:{}", label, kind), 1);
            acc.nontrivial.insert(h8(format!("rd{}{}{}", label, cb, plan).as_bytes()));
            let mut rr = r.clone();
            if rr.files.is_empty() && r.ok() {
                rr.files.insert("<stdout>".into(), refmodel::run::strip_time(&r.stdout).replace(&wk.dir.display().to_string(), "<ROOT>").into_bytes());
            }
            if let Some((sig, d)) = judge(&rr, &refs[cb], kind, false) {
                acc.disagree(&format!("{}:read-deviation:{}", sig, plan.split(':').last().unwrap_or("")), format!("{} {} read plan {}: {}", label, cb, plan, d), replay_case(world, &spec, json!({"kind": kind}), &r, &wk.dir));
            }
        },
    );
    for p in parts {
        rep.merge(p);
    }
}

/// Judge one faulted / crashed run against the fault-free files.
fn judge(r: &RunResult, reference: &BTreeMap<String, Vec<u8>>, kind: &str, crashed: bool) -> Option<(String, String)> {
    let finals: Vec<&String> = r.files.keys().filter(|k| k.ends_with(".csv")).collect();
    let complete = |name: &String| reference.get(name).map(|c| &canon(name, &r.files[name]) == c).unwrap_or(false);
    if crashed {
        // at no instant does a final-named file hold partial content
        for n in &finals {
            if !complete(n) {
                return Some(("crash-point-leaves-partial-final-named-file".into(), format!("{} exists with {} of {} bytes", n, r.files[*n].len(), reference.get(*n).map(|c| c.len()).unwrap_or(0))));
            }
        }
        return None;
    }
    if r.stderr.contains("VERIF-HANG") {
        return Some(("run-does-not-terminate".into(), r.stderr.lines().last().unwrap_or("").to_string()));
    }
    if r.stderr.contains("VERIF-TIMEOUT") {
        return Some(("machinery-timeout".into(), String::new()));
    }
    if r.code == Some(0) {
        for (n, c) in reference {
            match r.files.get(n) {
                None => return Some(("exit-0-but-output-file-missing".into(), format!("{} missing; folder {:?}", n, r.files.keys().collect::<Vec<_>>()))),
                Some(g) => {
                    if &canon(n, g) != c {
                        return Some(("exit-0-but-final-named-file-incomplete".into(), format!("{} has {} bytes, the undisturbed run writes {}", n, g.len(), c.len())));
                    }
                }
            }
        }
        if let Some(t) = r.files.keys().find(|k| k.ends_with(".tmp")) {
            return Some(("exit-0-but-tmp-file-remains".into(), t.clone()));
        }
        if kind == "write-error" {
            // unreachable for a correct implementation: a failed write cannot yield complete output... unless the data was
            // written by a retry; the files were compared above, so exit 0 with complete files is acceptable
        }
        return None;
    }
    // failure exit
    match kind {
        "write-error" | "open-error" | "input-fault" => {
            if let Some(n) = finals.first() {
                return Some(("failed-run-leaves-final-named-file".into(), format!("exit {:?} but {} exists", r.code, n)));
            }
        }
        "benign" => return Some(("benign-deviation-makes-run-fail".into(), format!("exit {:?}: {}", r.code, r.stderr.lines().next().unwrap_or("")))),
        "signal" => {
            // the run was ended by (or failed after) a signal: a file under a final name of the undisturbed run must be complete;
            // files under other final names (a shorter range written by a graceful shutdown) are not judged here
            for n in &finals {
                if reference.contains_key(*n) && !complete(n) {
                    return Some(("signal-leaves-partial-final-named-file".into(), format!("{} exists with {} of {} bytes", n, r.files[*n].len(), reference.get(*n).map(|c| c.len()).unwrap_or(0))));
                }
            }
        }
        _ => {
            // rename / close faults: whatever exists under a final name must be complete
            for n in &finals {
                if !complete(n) {
                    return Some(("failed-run-leaves-partial-final-named-file".into(), format!("{} partial", n)));
                }
            }
        }
    }
    None
}

/// Second run of a two-run history: undisturbed, shorter output (`-e 2`), same dump folder as the failed / killed first run.
/// Exit 0 must mean complete output identical to the undisturbed run on a fresh folder, and no tmp file.
fn recovery(wk: &Worker, cb: &str, reference: &BTreeMap<String, Vec<u8>>, acc: &mut Report) -> Option<(String, String)> {
    let r = wk.run_keep(&RunSpec::new("bitcoin", cb).range(None, Some(2)));
    acc.transitions += 1;
    acc.count("recovery-runs-after-failed-or-killed-run", 1);
    if r.code != Some(0) {
        return Some(("undisturbed-run-fails-after-failed-run".into(), format!("exit {:?}: {}", r.code, r.stderr.lines().next().unwrap_or(""))));
    }
    for (n, c) in reference {
        match r.files.get(n) {
            None => return Some(("exit-0-but-output-file-missing".into(), n.clone())),
            Some(g) => {
                if &canon(n, g) != c {
                    return Some(("exit-0-but-output-differs-from-undisturbed-run".into(), format!("{} has {} bytes, the undisturbed run on a fresh folder writes {}", n, g.len(), c.len())));
                }
            }
        }
    }
    let tmp: Vec<&str> = match cb {
        "csvdump" => vec!["blocks.csv.tmp", "transactions.csv.tmp", "tx_in.csv.tmp", "tx_out.csv.tmp"],
        "unspentcsvdump" => vec!["unspent.csv.tmp"],
        _ => vec!["balances.csv.tmp"],
    };
    if let Some(t) = tmp.iter().find(|t| r.files.contains_key(**t)) {
        return Some(("exit-0-but-tmp-file-remains".into(), t.to_string()));
    }
    None
}

/// After a failed / killed run of `cb`, an undisturbed run of ANOTHER file-producing callback in the same dump folder: it must
/// succeed with its own complete output, and it must not give a final name to anything the failed run left behind - every
/// final-named file in the folder afterwards is either its own or was there, with that content, before it started.
fn cross_recovery(wk: &Worker, cb: &str, recovery_ref: &BTreeMap<&str, BTreeMap<String, Vec<u8>>>, acc: &mut Report) -> Option<(String, String)> {
    let cb2 = match cb {
        "csvdump" => "unspentcsvdump",
        "unspentcsvdump" => "balances",
        _ => "csvdump",
    };
    let before = refmodel::run::read_dir_files(&wk.dump());
    let r = wk.run_keep(&RunSpec::new("bitcoin", cb2).range(None, Some(2)));
    acc.transitions += 1;
    acc.count("recovery-runs-of-another-callback-after-failed-or-killed-run", 1);
    if r.code != Some(0) {
        return Some(("undisturbed-run-of-another-callback-fails-after-failed-run".into(), format!("{} after {}: exit {:?}: {}", cb2, cb, r.code, r.stderr.lines().next().unwrap_or(""))));
    }
    let own = &recovery_ref[cb2];
    for (n, c) in own {
        match r.files.get(n) {
            None => return Some(("exit-0-but-output-file-missing".into(), format!("{} (run of {} after a failed {})", n, cb2, cb))),
            Some(g) if &canon(n, g) != c => return Some(("exit-0-but-output-differs-from-undisturbed-run".into(), format!("{} (run of {} after a failed {})", n, cb2, cb))),
            _ => {}
        }
    }
    for (n, g) in &r.files {
        if n.ends_with(".csv") && !own.contains_key(n) && before.get(n) != Some(g) {
            return Some(("final-named-file-of-a-failed-run-appears-later".into(), format!("{} ({} bytes) has a final name after the undisturbed run of {}; it is not that run's output and was not there (with this content) before it - the failed / killed run of {} left only temporary files", n, g.len(), cb2, cb)));
        }
    }
    None
}

#[derive(Clone, Debug)]
enum Case {
    Input { cb: &'static str, height: u64, fault: String, range: (Option<u64>, Option<u64>) },
    Output { cb: &'static str, large: bool, plan: String, kind: &'static str },
    Crash { cb: &'static str, large: bool, k: usize },
    Fsize { cb: &'static str, limit: u64 },
    /// nobody reads the log any more: stdout (1), stderr (2) or both (3) are pipes whose reading end is closed; alone, or
    /// together with an unreadable block (blk file of height 2 removed)
    Streams { cb: &'static str, which: u8, input_fault: bool },
    /// merged-mined chains (namecoin / dogecoin: header, AuxPoW section, transactions), one block per blk file, the file of
    /// `height` cut at byte `cut` - inside the header, the section or the transactions
    InputAux { coin: &'static str, height: u64, cut: u64 },
}

/// 4 blocks, one per file; blocks 1..3 carry an AuxPoW section (parent coinbase in legacy form with version 1, version 2 with
/// two outputs, segwit form)
fn aux_world(cn: &'static str) -> (World, ChainBuilder) {
    use refmodel::ser::{AuxPow, Header, TxIn, TxOut, Tx};
    let c = coin(cn);
    let mut cb = dependent_chain(c, 0, 4);
    let thr = c.auxpow_from.unwrap();
    // rebuild blocks 1..3 with AuxPoW versions (hash links must follow)
    let mut blocks = vec![cb.blocks[0].clone()];
    for h in 1..4usize {
        let old = &cb.blocks[h];
        let mut b = refmodel::ser::Block::build(thr + h as u32 - 1, blocks[h - 1].hash(), old.header.time, old.header.bits, old.header.nonce, old.txs.clone());
        let parent_coinbase = match h {
            1 => refmodel::chain::coinbase(7, 7, vec![refmodel::chain::pay(7, 25)]),
            2 => Tx { version: 2, segwit: false, inputs: vec![TxIn::coinbase(vec![0x51; 40])], outputs: vec![TxOut { value: 25, script: vec![0x51; 30] }, TxOut { value: 0, script: refmodel::script::op_return(b"aux") }], locktime: 7, wide: 0 },
            _ => {
                let mut i = TxIn::coinbase(vec![3, 9, 9, 9]);
                i.witness = vec![vec![0u8; 32]];
                Tx { version: 2, segwit: true, inputs: vec![i], outputs: vec![TxOut { value: 25, script: refmodel::script::witness(0, &refmodel::script::h20(9)) }], locktime: 0, wide: 0 }
            }
        };
        b.auxpow = Some(AuxPow { parent_coinbase, parent_hash: [h as u8; 32], coinbase_branch: vec![[0x21; 32]; h], coinbase_mask: 1, chain_branch: vec![[0x22; 32]; h - 1], chain_mask: 0, branch_wide: 0, parent_header: Header { version: 0x2000_0000, prev: [3; 32], merkle: [4; 32], time: 1_500_000_000, bits: 0x1b00ffff, nonce: 5 } });
        blocks.push(b);
    }
    cb.blocks = blocks;
    let mut w = World::new(c);
    for (i, b) in cb.blocks.iter().enumerate() {
        w.add_block(i as u64, i as u64, b);
    }
    (w, cb)
}

pub fn run() -> Report {
    let mut rep = Report::new("C10", "e3a");
    let thorough = is_thorough();
    let root = refmodel::world::scratch_root();
    let (small, recs, chain) = small_world();
    let large = large_world();
    // fault-free reference runs: intercepted call sequences and output files
    let mut calls: BTreeMap<(&str, bool), Vec<Call>> = BTreeMap::new();
    let mut reference: BTreeMap<(&str, bool), BTreeMap<String, Vec<u8>>> = BTreeMap::new();
    {
        let wk = Worker::new(&root, 800);
        for (is_large, world) in [(false, &small), (true, &large)] {
            if let Err(m) = wk.materialise(world) {
                rep.machinery(m);
                return rep;
            }
            for cb in CBS {
                let (r, log) = run_with_log(&wk, &fault_spec(cb, &wk, ""));
                let (r2, log2) = run_with_log(&wk, &fault_spec(cb, &wk, ""));
                rep.transitions += 2;
                if !r.ok() {
                    undisturbed_run_failed(&mut rep, &format!("fault-free {} run on the {} world", cb, if is_large { "large" } else { "small" }), &r);
                    return rep;
                }
                if log.is_empty() {
                    rep.machinery(format!("fault-free {} run was not intercepted (exit {:?}, {} calls)", cb, r.code, log.len()));
                    return rep;
                }
                let sig = |l: &Vec<Call>| l.iter().map(|c| format!("{} {} {}", c.op, c.path, c.len)).collect::<Vec<_>>();
                if sig(&log) != sig(&log2) || r.files.keys().collect::<Vec<_>>() != r2.files.keys().collect::<Vec<_>>() {
                    rep.machinery(format!("{}: two fault-free runs issue different call sequences (nondeterminism not owned)", cb));
                    return rep;
                }
                reference.insert((cb, is_large), r.files.iter().map(|(k, v)| (k.clone(), canon(k, v))).collect());
                calls.insert((cb, is_large), log);
            }
        }
    }
    // reference of the recovery run (`-e 2`, shorter output) on a fresh folder
    let mut recovery_ref: BTreeMap<&str, BTreeMap<String, Vec<u8>>> = BTreeMap::new();
    {
        let wk = Worker::new(&root, 801);
        if let Err(m) = wk.materialise(&small) {
            rep.machinery(m);
            return rep;
        }
        for cb in CBS {
            let r = wk.run(&RunSpec::new("bitcoin", cb).range(None, Some(2)));
            rep.transitions += 1;
            if !r.ok() {
                undisturbed_run_failed(&mut rep, &format!("recovery reference run (-e 2) of {}", cb), &r);
                return rep;
            }
            recovery_ref.insert(cb, r.files.iter().map(|(k, v)| (k.clone(), canon(k, v))).collect());
        }
    }
    rep.count("phase-ms:reference-runs", rep.started.elapsed().as_millis() as u64);
    let t_phase = std::time::Instant::now();
    let mut cases: Vec<Case> = Vec::new();
    // 1. input faults
    for cb in CBS {
        for h in 0..6u64 {
            let flen = small.files[&h].len;
            for f in ["removed", "emptied", "offset-past-eof", "offset-in-last-3-bytes", "offset-plus-2^32", "offset-plus-2^33", "offset-with-bit-63", "offset-plus-2^16-past-eof", "pruned", "record-names-missing-file-plus-2^32", "record-names-missing-file-plus-2^16", "record-names-missing-file-plus-2^8", "record-names-missing-file-plus-2^63", "removed-but-set-aside-copies-left"] {
                cases.push(Case::Input { cb, height: h, fault: f.into(), range: (None, None) });
                // the same fault with the block being the first / an inner / the last block of a requested range
                for (rs, re) in [(Some(2u64), None), (None, Some(3u64)), (Some(1), Some(4))] {
                    if h >= rs.unwrap_or(0) && h <= re.unwrap_or(5) {
                        cases.push(Case::Input { cb, height: h, fault: f.into(), range: (rs, re) });
                    }
                }
            }
            for cut in 0..flen {
                // quick: every byte for csvdump, every 5th byte and the first / last 16 for the two map callbacks (they read the
                // same bytes through the same reader); thorough: every byte for all three
                if !thorough && cb != "csvdump" && cut % 5 != 0 && cut >= 16 && cut + 16 < flen {
                    continue;
                }
                cases.push(Case::Input { cb, height: h, fault: format!("truncated@{}", cut), range: (None, None) });
                if cut == flen / 2 {
                    cases.push(Case::Input { cb, height: h, fault: format!("truncated@{}", cut), range: (Some(h.min(4)), None) });
                }
            }
        }
    }
    let aux_worlds: BTreeMap<&'static str, (World, ChainBuilder)> = ["namecoin", "dogecoin"].into_iter().map(|cn| (cn, aux_world(cn))).collect();
    for (cn, (w, _)) in &aux_worlds {
        for h in 1..4u64 {
            for cut in 0..w.files[&h].len {
                cases.push(Case::InputAux { coin: cn, height: h, cut });
            }
        }
    }
    for cb in ["csvdump", "unspentcsvdump", "balances"] {
        for which in 1..=3u8 {
            for input_fault in [false, true] {
                cases.push(Case::Streams { cb, which, input_fault });
            }
        }
    }
    // 2. output faults: bound 1 complete; bound 2 on the small world
    for ((cb, is_large), seq) in &calls {
        for c in seq {
            let answers: Vec<(&str, &'static str)> = match c.op.as_str() {
                "write" | "writev" => vec![("ENOSPC", "write-error"), ("EIO", "write-error"), ("SHORT1", "write-error"), ("SHORTM", "benign"), ("EINTR", "benign"), ("EPIPE", "write-error"), ("EDQUOT", "write-error"), ("EFBIG", "write-error"), ("EAGAIN", "write-error"), ("EBADF", "write-error"), ("ENOMEM", "write-error"), ("ETIMEDOUT", "write-error"), ("ESTALE", "write-error")],
                "open" => vec![("ENOSPC", "open-error"), ("EIO", "open-error"), ("EACCES", "open-error"), ("EROFS", "open-error"), ("EDQUOT", "open-error"), ("ENOMEM", "open-error")],
                "rename" => vec![("ENOSPC", "rename-error"), ("EIO", "rename-error"), ("EACCES", "rename-error"), ("EROFS", "rename-error"), ("EDQUOT", "rename-error"), ("EPIPE", "rename-error")],
                "close" | "fsync" => vec![("EIO", "close-error")],
                _ => vec![],
            };
            for (a, kind) in answers {
                // (a run on the large world costs seconds in the dev profile: the quick tier answers its calls with ENOSPC, a
                // short write on every other call, a crash - below - and a signal at the first and the last call; thorough: all)
                if *is_large && !thorough && !(a == "ENOSPC" || (a == "SHORTM" && c.k % 2 == 0)) {
                    continue;
                }
                // SHORT1 / SHORTM need a write of more than one byte
                if (a == "SHORT1" || a == "SHORTM") && c.len < 2 {
                    continue;
                }
                cases.push(Case::Output { cb, large: *is_large, plan: format!("{}:{}", c.k, a), kind });
            }
            cases.push(Case::Crash { cb, large: *is_large, k: c.k });
            // asynchronous events: a signal arrives immediately before this call (terminal interrupt, termination request,
            // hang-up, a user signal, quit) - whatever the program does with it
            for sig in ["SIGINT", "SIGTERM", "SIGHUP", "SIGUSR1", "SIGQUIT"] {
                if !*is_large || thorough || (sig == "SIGINT" && (c.k == 0 || c.k + 1 == seq.len())) {
                    cases.push(Case::Output { cb, large: *is_large, plan: format!("{}:{}", c.k, sig), kind: "signal" });
                }
            }
        }
        cases.push(Case::Crash { cb, large: *is_large, k: seq.len() }); // after the last call: normal end
        if !*is_large {
            for a in seq {
                for b in seq {
                    if a.k < b.k && a.op == "write" && (b.op == "write" || b.op == "rename") {
                        // first deviation benign (the run goes on), second one an error or a crash
                        cases.push(Case::Output { cb, large: false, plan: format!("{}:SHORTM,{}:{}", a.k, b.k, if b.op == "write" { "ENOSPC" } else { "EIO" }), kind: if b.op == "write" { "write-error" } else { "rename-error" } });
                        cases.push(Case::Output { cb, large: false, plan: format!("{}:EINTR,{}:CRASH", a.k, b.k), kind: "crash" });
                    }
                }
            }
        }
    }
    // byte-granular RLIMIT_FSIZE sweep (interposer-free cross-check), small world
    for cb in CBS {
        let maxlen = reference[&(cb, false)].values().map(|v| v.len() as u64).max().unwrap_or(0);
        let step = if thorough { 1 } else { 3 };
        let mut l = 0;
        while l <= maxlen + 2 {
            cases.push(Case::Fsize { cb, limit: l });
            l += step;
        }
    }
    rep.rule = "three enumerations on the real binary for csvdump / unspentcsvdump / balances (plus: stdout / stderr / both without a reader, alone and together with an unreadable block): (1) input faults: every height x {blk file removed, emptied, truncated at EVERY byte, index offset past EOF, offset into the last 3 bytes}, also with the faulted block first / inner / last of a --start/--end range; (2) output faults with deviation bound 1 (complete): at EVERY intercepted open/write/rename/close call on the dump folder every answer of {ENOSPC, EIO, EPIPE, EDQUOT, EFBIG, EAGAIN, EBADF, ENOMEM, ETIMEDOUT, ESTALE, EACCES, EROFS as applicable to the call, 1-byte short write then ENOSPC, n-1 short write, EINTR}, bound 2 (benign deviation followed by an error or a crash) on the small world, plus a byte-granular RLIMIT_FSIZE sweep; (3) crash points: process killed (_exit) immediately before EVERY intercepted call and after the last one; every failed or killed run on the small world is followed by an undisturbed shorter run (-e 2) in the same folder, which must be complete and identical to a fresh-folder run; small world (all writes at completion) and large world (4 MB buffers overflow mid-run); non-trivial = distinct fault / crash case".into();
    rep.bound = json!({"cases": cases.len(), "intercepted_calls": calls.iter().map(|((cb, l), v)| (format!("{}{}", cb, if *l { "/large" } else { "/small" }), json!(v.len()))).collect::<serde_json::Map<_, _>>(), "deviation_bound": "1 complete, 2 on the small world (benign then error/crash)"});
    rep.not_covered = vec!["power-loss durability (fsync ordering) is not claimed by the property".into(), "SIGKILL at instants between two syscalls is equivalent to the crash point before the later syscall (the directory cannot change in between)".into()];
    let parts = par_fold(
        &cases,
        || Report::new("C10", "e3a"),
        |w, _i, c, acc| {
            let wk = Worker::new(&root, w);
            acc.states += 1;
            acc.transitions += 1;
            acc.nontrivial.insert(h8(format!("{:?}", c).as_bytes()));
            match c {
                Case::Input { cb, height, fault, range } => {
                    let mut world = small.clone();
                    let f = world.files.get_mut(height).unwrap();
                    let flen = f.len;
                    match fault.as_str() {
                        "removed" => {
                            world.files.remove(height);
                        }
                        "emptied" => {
                            f.chunks.clear();
                            f.len = 0;
                        }
                        // the file is gone, but copies of it under names that CONTAIN its name or number stand next to it
                        // (set aside by hand, left by a backup tool): they are not blk files
                        "removed-but-set-aside-copies-left" => {
                            let bytes = f.dense();
                            let name = f.name.clone();
                            let stem = name.trim_end_matches(".dat").to_string();
                            world.files.remove(height);
                            for n in [format!("{}.bak.dat", stem), format!("{}.dat.bak", stem), format!("{}.dat.old.dat", stem), format!("{}.1.dat", stem), format!("{}_copy.dat", stem), format!("old_{}", name), format!("{}.DAT", stem), format!("{} .dat", stem), format!("{}.dat~", stem)] {
                                world.extra.push(refmodel::world::Extra::File(n, bytes.clone()));
                            }
                        }
                        // what a pruning node leaves: the blk file is gone and the index record says so (validity kept, no
                        // HAVE_DATA / HAVE_UNDO, no file position)
                        "pruned" => {
                            world.files.remove(height);
                            let mut r = recs[*height as usize].clone();
                            r.status = refmodel::world::VALID_SCRIPTS;
                            world.put_rec(&r);
                        }
                        "offset-past-eof" => {
                            let mut r = recs[*height as usize].clone();
                            r.data_pos = flen + 100;
                            world.put_rec(&r);
                        }
                        "offset-in-last-3-bytes" => {
                            let mut r = recs[*height as usize].clone();
                            r.data_pos = flen + 1;
                            world.put_rec(&r);
                        }
                        // the record names a blk file that does not exist - one whose number equals that of the file the block
                        // really sits in modulo a power of two (that file is present, with the block at the very offset)
                        "record-names-missing-file-plus-2^32" | "record-names-missing-file-plus-2^16" | "record-names-missing-file-plus-2^8" | "record-names-missing-file-plus-2^63" => {
                            let mut r = recs[*height as usize].clone();
                            r.file += match fault.as_str() {
                                "record-names-missing-file-plus-2^32" => 1u64 << 32,
                                "record-names-missing-file-plus-2^16" => 1u64 << 16,
                                "record-names-missing-file-plus-2^8" => 1u64 << 8,
                                _ => 1u64 << 63,
                            };
                            world.put_rec(&r);
                        }
                        // far beyond the end of the file, but equal to the true offset modulo a power of two
                        "offset-plus-2^32" | "offset-plus-2^33" | "offset-with-bit-63" | "offset-plus-2^16-past-eof" => {
                            let mut r = recs[*height as usize].clone();
                            r.data_pos += match fault.as_str() {
                                "offset-plus-2^32" => 1u64 << 32,
                                "offset-plus-2^33" => 1u64 << 33,
                                "offset-with-bit-63" => 1u64 << 63,
                                _ => 1u64 << 16,
                            };
                            world.put_rec(&r);
                        }
                        t => {
                            let cut: u64 = t.trim_start_matches("truncated@").parse().unwrap();
                            let mut d = f.dense();
                            d.truncate(cut as usize);
                            f.chunks = vec![(0, d)];
                            f.len = cut;
                        }
                    }
                    let spec = RunSpec::new("bitcoin", cb).range(range.0, range.1);
                    let r = match wk.world_run(&world, &spec) {
                        Ok(r) => r,
                        Err(m) => return acc.machinery(m),
                    };
                    acc.count(&format!("input:{}", fault.split('@').next().unwrap_or("")), 1);
                    if range.0.is_some() || range.1.is_some() {
                        acc.count("input-faults-under-a-range", 1);
                    }
                    let mut bad = judge(&r, &reference[&(*cb, false)], "input-fault", false);
                    if bad.is_none() {
                        if r.code == Some(0) {
                            bad = Some(("input-fault-not-detected".into(), format!("exit 0 although block {} cannot be read", height)));
                        } else if r.error_height() != Some(*height) {
                            bad = Some(("input-fault-reported-at-wrong-height".into(), format!("stderr names {:?}, the unreadable block is {}: {}", r.error_height(), height, r.stderr.lines().next().unwrap_or(""))));
                        }
                    }
                    if acc.samples.is_empty() {
                        acc.sample(json!({"input_fault": format!("{:?}", c), "exit": r.code, "stderr": r.stderr.lines().next().map(|l| l.chars().skip(11).collect::<String>())}));
                    }
                    if let Some((sig, d)) = bad {
                        acc.disagree(&format!("{}:{}", sig, fault.split('@').next().unwrap_or("")), format!("{:?}: {}", c, d), replay_case(&world, &spec, json!({"must": "fail at this height, no final-named file"}), &r, &wk.dir));
                    }
                }
                Case::Streams { cb, which, input_fault } => {
                    let mut world = small.clone();
                    if *input_fault {
                        world.files.remove(&2);
                    }
                    let mut spec = RunSpec::new("bitcoin", cb);
                    if which & 1 != 0 {
                        spec.env.push(("VERIF_STDOUT_GONE".into(), "1".into()));
                    }
                    if which & 2 != 0 {
                        spec.env.push(("VERIF_STDERR_GONE".into(), "1".into()));
                    }
                    let r = match wk.world_run(&world, &spec) {
                        Ok(r) => r,
                        Err(m) => return acc.machinery(m),
                    };
                    acc.count("log-stream-without-reader", 1);
                    // exit 0 only with complete output; a failed run leaves no final-named file; an unreadable block is never a success
                    let mut bad = judge(&r, &reference[&(*cb, false)], "input-fault", false);
                    if bad.is_none() && *input_fault && r.code == Some(0) {
                        bad = Some(("input-fault-not-detected".into(), "exit 0 although block 2 cannot be read".into()));
                    }
                    if let Some((sig, d)) = bad {
                        acc.disagree(&format!("{}:log-stream-gone", sig), format!("{:?}: {}", c, d), replay_case(&world, &spec, json!({"must": "exit 0 only with complete output"}), &r, &wk.dir));
                    }
                }
                Case::Output { cb, large: lg, plan, kind } => {
                    let world = if *lg { &large } else { &small };
                    if let Err(m) = wk.materialise(world) {
                        return acc.machinery(m);
                    }
                    let spec = fault_spec(cb, &wk, plan);
                    let (r, log) = run_with_log(&wk, &spec);
                    // replay determinism: the calls before the first deviation must be the recorded ones
                    let refseq = &calls[&(*cb, *lg)];
                    let first_k: usize = plan.split(':').next().unwrap().parse().unwrap();
                    for (a, b) in log.iter().zip(refseq.iter()).take(first_k) {
                        if a.op != b.op || a.path != b.path || a.len != b.len {
                            return acc.machinery(format!("{} {}: call #{} is {} {} {}, recorded {} {} {} (divergent prefix)", cb, plan, a.k, a.op, a.path, a.len, b.op, b.path, b.len));
                        }
                    }
                    acc.count(&format!("output:{}", kind), 1);
                    if r.code != Some(0) {
                        acc.count("faulted-run-exited-nonzero", 1);
                    }
                    let crashed = *kind == "crash";
                    if acc.samples.len() < 2 && *kind == "write-error" {
                        acc.sample(json!({"output_fault": format!("{} plan {}", cb, plan), "call": refseq.get(first_k).map(|c| format!("{} {} {}", c.op, c.path, c.len)), "exit": r.code, "files_after": r.files.keys().collect::<Vec<_>>()}));
                    }
                    if !*lg && r.code != Some(0) {
                        if let Some((sig, d)) = cross_recovery(&wk, cb, &recovery_ref, acc) {
                            acc.disagree(&format!("{}:after-{}", sig, kind), format!("{} small, first run with plan {} (exit {:?}): {}", cb, plan, r.code, d), json!({"kind": "e1-described", "callback": cb, "plan": plan, "then": "another callback, undisturbed, same folder"}));
                        }
                        if let Some((sig, d)) = recovery(&wk, cb, &recovery_ref[*cb], acc) {
                            acc.disagree(&format!("{}:after-{}", sig, kind), format!("{} small, first run with plan {} (exit {:?}), then an undisturbed `-e 2` run in the same folder: {}", cb, plan, r.code, d), json!({"kind": "e1-described", "callback": cb, "first_run_plan": plan, "second_run": "-e 2, no faults, same dump folder"}));
                        }
                    }
                    if let Some((sig, d)) = judge(&r, &reference[&(*cb, *lg)], kind, crashed) {
                        let call = refseq.get(plan.rsplit(',').next().unwrap().split(':').next().unwrap().parse::<usize>().unwrap_or(0)).map(|c| format!("{} {}", c.op, c.path)).unwrap_or_default();
                        let rc = if *lg { json!({"kind": "e1-described", "world": "large", "callback": cb, "plan": plan}) } else { replay_case(world, &spec, json!({"plan": plan, "kind": kind}), &r, &wk.dir) };
                        acc.disagree(&format!("{}:{}", sig, kind), format!("{} {} plan {} (call: {}): {}", cb, if *lg { "large" } else { "small" }, plan, call, d), rc);
                    }
                }
                Case::Crash { cb, large: lg, k } => {
                    let world = if *lg { &large } else { &small };
                    if let Err(m) = wk.materialise(world) {
                        return acc.machinery(m);
                    }
                    let spec = fault_spec(cb, &wk, &format!("{}:CRASH", k));
                    let (r, _log) = run_with_log(&wk, &spec);
                    acc.count("crash-points", 1);
                    let refseq = &calls[&(*cb, *lg)];
                    if *k < refseq.len() && r.code != Some(137) {
                        return acc.machinery(format!("{} crash point {}: process exited {:?} instead of being killed", cb, k, r.code));
                    }
                    if !*lg && *k < refseq.len() {
                        if let Some((sig, d)) = cross_recovery(&wk, cb, &recovery_ref, acc) {
                            acc.disagree(&format!("{}:after-crash", sig), format!("{} small, first run killed before call #{}: {}", cb, k, d), json!({"kind": "e1-described", "callback": cb, "crash_before_call": k, "then": "another callback, undisturbed, same folder"}));
                        }
                        if let Some((sig, d)) = recovery(&wk, cb, &recovery_ref[*cb], acc) {
                            acc.disagree(&format!("{}:after-crash", sig), format!("{} small, first run killed before call #{}, then an undisturbed `-e 2` run in the same folder: {}", cb, k, d), json!({"kind": "e1-described", "callback": cb, "first_run_crash_before_call": k, "second_run": "-e 2, no faults, same dump folder"}));
                        }
                    }
                    if let Some((sig, d)) = judge(&r, &reference[&(*cb, *lg)], "crash", true) {
                        let call = refseq.get(*k).map(|c| format!("{} {}", c.op, c.path)).unwrap_or_else(|| "end".into());
                        let rc = if *lg { json!({"kind": "e1-described", "world": "large", "callback": cb, "crash_before_call": k}) } else { replay_case(world, &spec, json!({"crash_before_call": k}), &r, &wk.dir) };
                        acc.disagree(&sig, format!("{} {} killed before call #{} ({}): {}", cb, if *lg { "large" } else { "small" }, k, call, d), rc);
                    }
                }
                Case::InputAux { coin: cn, height, cut } => {
                    let (w0, _) = &aux_worlds[cn];
                    let mut world = w0.clone();
                    {
                        let f = world.files.get_mut(height).unwrap();
                        let mut d = f.dense();
                        d.truncate(*cut as usize);
                        f.chunks = vec![(0, d)];
                        f.len = *cut;
                    }
                    let cb = CBS[(*cut % 3) as usize];
                    let spec = RunSpec::new(cn, cb);
                    let r = match wk.world_run(&world, &spec) {
                        Ok(r) => r,
                        Err(m) => return acc.machinery(m),
                    };
                    acc.count("input:truncated-merged-mined-block", 1);
                    let finals: Vec<&String> = r.files.keys().filter(|k| !k.ends_with(".tmp")).collect();
                    let bad = if r.code == Some(0) {
                        Some(("input-fault-not-detected".to_string(), format!("exit 0 although block {} cannot be read; files {:?}", height, r.files.keys().collect::<Vec<_>>())))
                    } else if !finals.is_empty() {
                        Some(("final-named-file-after-failed-run".to_string(), format!("{:?}", finals)))
                    } else if r.error_height() != Some(*height) {
                        Some(("input-fault-reported-at-wrong-height".to_string(), format!("stderr names {:?}, the unreadable block is {}: {}", r.error_height(), height, r.stderr.lines().next().unwrap_or(""))))
                    } else {
                        None
                    };
                    if let Some((sig, d)) = bad {
                        acc.disagree(&format!("{}:truncated-merged-mined-block", sig), format!("{:?} {}: {}", c, cb, d), replay_case(&world, &spec, json!({"must": "fail at this height, no final-named file"}), &r, &wk.dir));
                    }
                }
                Case::Fsize { cb, limit } => {
                    if let Err(m) = wk.materialise(&small) {
                        return acc.machinery(m);
                    }
                    let mut spec = RunSpec::new("bitcoin", cb);
                    spec.rlimit_fsize = Some(*limit);
                    let r = wk.run(&spec);
                    acc.count("fsize-limits", 1);
                    let refs = &reference[&(*cb, false)];
                    let too_small = refs.values().any(|v| v.len() as u64 > *limit);
                    let mut bad = judge(&r, refs, "write-error", false);
                    if bad.is_none() && too_small && r.code == Some(0) {
                        bad = Some(("exit-0-under-too-small-file-size-limit".into(), String::new()));
                    }
                    if let Some((sig, d)) = bad {
                        acc.disagree(&format!("{}:fsize-limit", sig), format!("{} RLIMIT_FSIZE={}: {}", cb, limit, d), replay_case(&small, &spec, json!({"rlimit_fsize": limit}), &r, &wk.dir));
                    }
                }
            }
        },
    );
    for p in parts {
        rep.merge(p);
    }
    rep.count("phase-ms:fault-and-crash-cases", t_phase.elapsed().as_millis() as u64);
    let t_phase = std::time::Instant::now();
    nothing_to_list(&mut rep, &root);
    read_deviations(&mut rep, &root, "C10", &small, &small, "plain", &CBS);
    {
        // blocks larger than the reader's buffer (40 KiB and 100 KiB): one block = several read() calls
        let btc = coin("bitcoin");
        let mut cb = ChainBuilder::with_genesis(btc);
        for (k, sz) in [40_000usize, 100_000, 300].iter().enumerate() {
            let tx = Tx { version: 1, segwit: false, inputs: vec![TxIn::spend([0xee; 32], k as u32)], outputs: vec![TxOut { value: 5, script: vec![0x51; *sz] }, pay(9, 77)], locktime: 0, wide: 0 };
            cb.push(vec![tx]);
        }
        let big = World::simple(btc, &cb.blocks, 0);
        read_deviations(&mut rep, &root, "C10", &big, &big, "plain-big-blocks", &CBS);
    }
    rep.count("phase-ms:read-deviations", t_phase.elapsed().as_millis() as u64);
    // no fault at all: the first clause (exit 0 => every output file under its final name, no *.tmp) for every accepted shape
    // of the range options, including ranges that contain no block at all (an incremental dump when nothing new has arrived)
    {
        let wk = Worker::new(&root, 802);
        let tip = chain.blocks.len() as u64 - 1;
        if let Err(m) = wk.materialise(&small) {
            rep.machinery(m);
        } else {
            let ranges: Vec<(Option<u64>, Option<u64>)> = vec![(None, None), (Some(tip), None), (Some(tip + 1), None), (Some(tip + 1), Some(tip + 4)), (Some(tip + 9), Some(tip + 10)), (Some(1), Some(tip + 9)), (None, Some(1)), (Some(0), Some(1)), (Some(tip - 1), Some(tip))];
            for cb in CBS {
                for (s, e) in &ranges {
                    for verify in [false, true] {
                        let spec = RunSpec::new("bitcoin", cb).range(*s, *e).verify(verify);
                        let r = wk.run(&spec);
                        rep.states += 1;
                        rep.transitions += 1;
                        rep.count("fault-free-option-shapes", 1);
                        rep.nontrivial.insert(h8(format!("nofault{}{:?}{:?}{}", cb, s, e, verify).as_bytes()));
                        let stems: Vec<&str> = match cb {
                            "csvdump" => vec!["blocks-", "transactions-", "tx_in-", "tx_out-"],
                            "unspentcsvdump" => vec!["unspent-"],
                            _ => vec!["balances-"],
                        };
                        let finals: Vec<&String> = r.files.keys().filter(|k| k.ends_with(".csv")).collect();
                        let bad = if r.code == Some(0) {
                            if let Some(t) = r.files.keys().find(|k| k.ends_with(".tmp")) {
                                Some(("exit-0-but-tmp-file-remains".to_string(), format!("{} remains; folder {:?}", t, r.files.keys().collect::<Vec<_>>())))
                            } else {
                                stems.iter().find(|st| !finals.iter().any(|f| f.starts_with(**st))).map(|st| ("exit-0-but-output-file-missing".to_string(), format!("no final-named {}*.csv; folder {:?}", st, r.files.keys().collect::<Vec<_>>())))
                            }
                        } else {
                            finals.first().map(|f| ("failed-run-leaves-final-named-file".to_string(), format!("exit {:?} but {} exists", r.code, f)))
                        };
                        if let Some((sig, d)) = bad {
                            rep.disagree(&format!("{}:no-fault", sig), format!("{} -s {:?} -e {:?} verify {} (tip {}): {}", cb, s, e, verify, tip, d), replay_case(&small, &spec, json!({"exit 0": "final-named files, no tmp"}), &r, &wk.dir));
                        }
                    }
                }
            }
        }
    }
    let _ = std::fs::remove_dir_all(&root);
    let _ = (coinbase(0, 0, vec![]), pay(0, 0), COIN_VALUE, chain);
    rep
}
