//! C15 (E1) — every simplestats figure equals an independent recomputation.
use crate::bind::representatives;
use crate::hx::{replay_case, Worker};
use crate::oracle::*;
use refmodel::chain::{coinbase, pay, ChainBuilder, COIN_VALUE};
use refmodel::coins::{coin, Coin};
use refmodel::ev::{h8, is_thorough, par_fold, Report};
use refmodel::model::base_reward;
use refmodel::run::RunSpec;
use refmodel::ser::{Block, Tx, TxIn, TxOut};
use refmodel::world::World;
use serde_json::json;

#[derive(Clone, Debug)]
struct Case {
    coin: &'static str,
    base: u64,
    times: Vec<u32>,
    mix: u8,
    /// coinbase first-output value relative to the reward: -1, 0, +1, or i64::MIN for "0"
    cb_delta: i64,
    types_world: bool,
    label: &'static str,
}

fn mix_txs(mix: u8, h: u64) -> Vec<Tx> {
    let spend = |k: u8| TxIn::spend([0xa0 + k; 32], h as u32);
    match mix {
        0 => vec![],
        1 => vec![Tx { version: 1, segwit: false, inputs: vec![spend(1)], outputs: vec![pay(3, 9 * COIN_VALUE)], locktime: 0, wide: 0 }],
        // two txs with equal total value, both above the coinbase (tie for biggest value: the first one wins)
        2 => vec![
            Tx { version: 1, segwit: false, inputs: vec![spend(1)], outputs: vec![pay(3, 70 * COIN_VALUE), pay(4, 10 * COIN_VALUE)], locktime: 0, wide: 0 },
            Tx { version: 1, segwit: false, inputs: vec![spend(2)], outputs: vec![pay(5, 80 * COIN_VALUE)], locktime: 0, wide: 0 },
        ],
        // two txs of equal witness-stripped size, larger than the coinbase (tie for biggest size)
        3 => vec![
            Tx { version: 1, segwit: false, inputs: vec![spend(1), spend(3), spend(5), spend(7)], outputs: vec![pay(3, 1)], locktime: 0, wide: 0 },
            Tx { version: 1, segwit: false, inputs: vec![spend(2), spend(4), spend(6), spend(8)], outputs: vec![pay(4, 2)], locktime: 0, wide: 0 },
            Tx { version: 1, segwit: false, inputs: vec![spend(9), spend(10), spend(11), spend(12)], outputs: vec![pay(5, 3)], locktime: 0, wide: 0 },
        ],
        // sizes are those of the bytes as stored: a transaction whose counts and lengths are kept in 3-byte CompactSize forms
        // (16 bytes more than its shortest serialisation) next to a shortest-form transaction that is 10 bytes longer than that; both larger than the coinbase
        5 => {
            let a = Tx { version: 1, segwit: false, inputs: (1..=5).map(spend).collect(), outputs: vec![pay(3, 5)], locktime: 0, wide: 1 };
            let mut b = Tx { version: 1, segwit: false, inputs: (6..=10).map(spend).collect(), outputs: vec![pay(4, 6)], locktime: 0, wide: 0 };
            b.inputs[0].script_sig = vec![0x51; 11];
            vec![b, a]
        }
        // transactions that carry the null outpoint without being a coinbase: as the first of two inputs, as the second of two,
        // and a one-input transaction with the null txid but index 0 - each with a first output far above the subsidy
        6 => {
            let null = TxIn { prev_txid: [0; 32], prev_index: 0xffff_ffff, script_sig: vec![0x51], sequence: 0xffff_ffff, witness: vec![] };
            let mut almost = null.clone();
            almost.prev_index = 0;
            vec![
                Tx { version: 1, segwit: false, inputs: vec![null.clone(), spend(1)], outputs: vec![pay(3, 60 * COIN_VALUE)], locktime: 0, wide: 0 },
                Tx { version: 1, segwit: false, inputs: vec![spend(2), null], outputs: vec![pay(4, 70 * COIN_VALUE)], locktime: 0, wide: 0 },
                Tx { version: 1, segwit: false, inputs: vec![almost], outputs: vec![pay(5, 80 * COIN_VALUE)], locktime: 0, wide: 0 },
            ]
        }
        // a segwit tx that is the biggest on disk but not witness-stripped, next to a larger legacy tx
        _ => {
            let mut i = spend(1);
            i.witness = vec![vec![7u8; 400], vec![8u8; 300]];
            vec![
                Tx { version: 2, segwit: true, inputs: vec![i], outputs: vec![pay(3, 5)], locktime: 0, wide: 0 },
                Tx { version: 1, segwit: false, inputs: vec![spend(2), spend(3), spend(4), spend(5), spend(6)], outputs: vec![pay(4, 6), pay(5, 7)], locktime: 0, wide: 0 },
            ]
        }
    }
}

fn build(c: &'static Coin, case: &Case) -> ChainBuilder {
    let mut cb = ChainBuilder::at(c, case.base);
    for (i, t) in case.times.iter().enumerate() {
        let h = case.base + i as u64;
        let reward = base_reward(h);
        // cb_delta 31337: blocks alternate between collecting 5000 in fees and claiming 1000 less than the subsidy
        // (fees are floored at zero per coinbase, not over the whole range)
        let delta = if case.cb_delta == 31337 { if i % 2 == 0 { 5000 } else { -1000 } } else { case.cb_delta };
        // cb_delta i64::MAX: the first coinbase's first output lies in the upper half of the 8-byte amount field (2^63 + 7; the
        // volume of the whole range stays below 2^64)
        let v = if case.cb_delta == i64::MIN { 0 } else if case.cb_delta == i64::MAX { if i == 0 { (1u64 << 63) + 7 } else { reward } } else { (reward as i64 + delta).max(0) as u64 };
        let filler_out = if case.mix == 9 { vec![TxOut { value: 1, script: vec![0x51; (i * 3) % 3000 + i / 4] }] } else { vec![] };
        let mut txs = vec![coinbase(h, 5, [vec![pay(1, v), pay(2, 1234), TxOut { value: 0, script: refmodel::script::op_return(format!("block {}", h).as_bytes()) }], filler_out].concat())];
        if case.label == "coinbase forms" {
            // the coinbase is a transaction like any other: stored in segwit form (witness reserved value, as in every block
            // since segwit), with counts in wide CompactSize forms, or with a longer witness stack; all coinbases of the chain
            // have the same witness-stripped size, so the first one is the biggest by size unless a mix transaction is larger
            let cbtx = &mut txs[0];
            match i % 4 {
                1 => {
                    cbtx.segwit = true;
                    cbtx.inputs[0].witness = vec![vec![0u8; 32]];
                }
                2 => cbtx.wide = 1,
                3 => {
                    cbtx.segwit = true;
                    cbtx.inputs[0].witness = vec![vec![0u8; 32], vec![0x42; 150]];
                }
                _ => {}
            }
        }
        txs.extend(mix_txs(case.mix, h));
        // "per coinbase": every coinbase-shaped transaction counts, wherever it stands in the block and however many there are
        if case.label == "several coinbase-shaped transactions in a block" {
            txs.push(coinbase(h, 77, vec![pay(3, reward + 4100 + i as u64), pay(4, 1)]));
            if i % 2 == 1 {
                txs.insert(0, coinbase(h, 78, vec![pay(5, reward.saturating_sub(10))]));
            }
        }
        // a transaction need not have outputs (its inputs and its size count all the same): three inputs, none out, larger than
        // every other transaction of the chain
        if case.label == "transactions without outputs" {
            txs.push(Tx { version: 1, segwit: false, inputs: (0..3u32).map(|k| { let mut t = TxIn::spend([0xd0 + i as u8; 32], k); t.script_sig = vec![0x51; 60]; t }).collect(), outputs: vec![], locktime: 0, wide: 0 });
        }
        if case.types_world && i == 0 {
            let scripts = representatives(c, true);
            for (k, chunk) in scripts.chunks(5).enumerate() {
                txs.push(Tx { version: 1, segwit: false, inputs: vec![TxIn::spend([0xee; 32], k as u32)], outputs: chunk.iter().enumerate().map(|(j, s)| TxOut { value: 100 + (k * 5 + j) as u64, script: s.clone() }).collect(), locktime: 0, wide: 0 });
            }
        }
        // a block record without a single transaction (no valid chain has one, a blk file may): it still is a block of the
        // range, with a size and a time, and contributes nothing else
        if case.label == "blocks without transactions" && [1usize, 2, 4].contains(&(i % 5)) {
            txs.clear();
        }
        let prev = cb.tip_hash();
        // on merged-mined chains every block but the first carries an AuxPoW section whose parent header has its own time
        let merged = case.label == "merged-mined blocks" && i > 0;
        let version = if merged { c.auxpow_from.unwrap() + 2 } else { 1 };
        let mut b = Block::build(version, prev, *t, 0x1d00ffff, i as u32, txs);
        if merged {
            b.auxpow = Some(refmodel::ser::AuxPow { parent_coinbase: coinbase(9, 9, vec![pay(9, 9)]), parent_hash: [9; 32], coinbase_branch: vec![[1; 32]; 2], coinbase_mask: 1, chain_branch: vec![], chain_mask: 0, branch_wide: 0, parent_header: refmodel::ser::Header { version: 0x2000_0000, prev: [3; 32], merkle: [4; 32], time: t.wrapping_add(7200 * (i as u32 % 3)).wrapping_sub(5), bits: 6, nonce: 7 } });
        }
        cb.blocks.push(b);
    }
    cb
}

pub fn run() -> Report {
    let mut rep = Report::new("C15", "e1");
    let thorough = is_thorough();
    // thorough: a fourth timestamp value (the sign bit of a 32-bit time) - 340 sequences instead of 120
    let tvals: Vec<u32> = if thorough { vec![1, 1000, 0x8000_0000, 4_000_000_000] } else { vec![1, 1000, 4_000_000_000] };
    let mut cases: Vec<Case> = Vec::new();
    for cn in ["bitcoin", "litecoin"] {
        // all timestamp sequences of length 1..4 x tx mixes
        let mut seqs: Vec<Vec<u32>> = vec![];
        let mut frontier: Vec<Vec<u32>> = vec![vec![]];
        for _ in 0..4 {
            let mut next = vec![];
            for s in &frontier {
                for &t in &tvals {
                    let mut x = s.clone();
                    x.push(t);
                    next.push(x);
                }
            }
            seqs.extend(next.iter().cloned());
            frontier = next;
        }
        for s in &seqs {
            for mix in 0..8u8 {
                if mix == 4 {
                    continue; // (4 is the transaction-less mix of other families)
                }
                if cn == "litecoin" && !thorough && (mix + s.len() as u8) % 3 != 0 {
                    continue;
                }
                cases.push(Case { coin: cn, base: 0, times: s.clone(), mix, cb_delta: 0, types_world: false, label: "timestamps x mixes" });
            }
        }
        // coinbase value around the reward x start heights around the halvings
        for base in [0u64, 209_999, 210_000, 419_999, 6_930_000, 13_439_999] {
            for d in [-1i64, 0, 1, 5000, i64::MIN] {
                cases.push(Case { coin: cn, base, times: vec![1000, 2000, 2500], mix: 1, cb_delta: d, types_world: false, label: "reward boundaries" });
            }
            if base == 0 || base == 210_000 {
                cases.push(Case { coin: cn, base, times: vec![1000, 2000, 2500], mix: 1, cb_delta: i64::MAX, types_world: false, label: "coinbase amount in the upper half of the field" });
            }
        }
        for n in [2usize, 3, 4, 5] {
            cases.push(Case { coin: cn, base: 0, times: (0..n).map(|i| 1000 + 600 * i as u32).collect(), mix: 1, cb_delta: 31337, types_world: false, label: "coinbases above and below the subsidy in one range" });
        }
        cases.push(Case { coin: cn, base: 0, times: vec![1000, 2000, 1500], mix: 1, cb_delta: 7, types_world: true, label: "every script type" });
        for mix in [0u8, 1, 2] {
            cases.push(Case { coin: cn, base: 0, times: vec![1000, 1600, 2200, 2800], mix, cb_delta: 720, types_world: false, label: "several coinbase-shaped transactions in a block" });
            cases.push(Case { coin: cn, base: 0, times: vec![1000, 1600, 2200], mix, cb_delta: 5, types_world: false, label: "transactions without outputs" });
        }
        for n in [2usize, 3, 5, 6, 11] {
            for mix in [0u8, 1, 4] {
                cases.push(Case { coin: cn, base: 0, times: (0..n).map(|i| 1000 + 450 * i as u32).collect(), mix, cb_delta: 40, types_world: false, label: "blocks without transactions" });
            }
        }
        cases.push(Case { coin: cn, base: 0, times: vec![1000, 2000, 1500], mix: 4, cb_delta: 7, types_world: true, label: "every script type" });
        for n in [1usize, 2, 3, 4, 5, 8] {
            for mix in [0u8, 1, 7] {
                cases.push(Case { coin: cn, base: 0, times: (0..n).map(|i| 1000 + 500 * i as u32).collect(), mix, cb_delta: 3, types_world: false, label: "coinbase forms" });
                cases.push(Case { coin: cn, base: 0, times: (0..n).map(|i| 1000 + 500 * (n - i) as u32).collect(), mix, cb_delta: 3, types_world: false, label: "coinbase forms" });
            }
        }
    }
    for cn in ["bitcoin", "litecoin"] {
        for n in [2usize, 3, 4] {
            cases.push(Case { coin: cn, base: 0, times: (0..n).map(|i| 1000 + 600 * i as u32).collect(), mix: 1, cb_delta: 0, types_world: false, label: "block sizes summing beyond 2^32" });
        }
    }
    // long chains (more items than any plausible chunk / page size of an accumulator): sizes grow with height, gaps vary
    for n in [4097usize, 5000] {
        cases.push(Case { coin: "bitcoin", base: 0, times: (0..n).map(|i| 1_000_000 + (i as u32) * 600 + ((i * i) % 977) as u32).collect(), mix: 9, cb_delta: 3, types_world: false, label: "long chain" });
    }
    for cn in ["testnet3", "dogecoin", "namecoin"] {
        cases.push(Case { coin: cn, base: 0, times: vec![1000, 2000, 1500], mix: 2, cb_delta: 7, types_world: true, label: "every script type" });
    }
    // reward shift >= 64 (height >= 13 440 000): "floored at zero"
    for cn in ["bitcoin"] {
        // ... and halving counts at and beyond 2^32 (a count kept in 32 bits starts over: 0, 1, 5, 32, 33 halvings again), 2^33, 2^40
        for base in [13_440_000u64, 13_439_998, 1 << 32, 1 << 40, (210_000u64 << 32) - 2, 210_000u64 << 32, 210_000 * ((1u64 << 32) + 1) - 1, 210_000 * ((1u64 << 32) + 5), 210_000 * ((1u64 << 32) + 32) + 9, 210_000 * ((1u64 << 32) + 33), 210_000u64 << 33, 210_000 * ((1u64 << 40) + 2), (1u64 << 62) + 1] {
            cases.push(Case { coin: cn, base, times: vec![1000, 2000, 2500], mix: 1, cb_delta: 5000, types_world: false, label: "reward shift >= 64" });
            // the same with coinbases far above any subsidy (a phantom subsidy shows as missing fees)
            cases.push(Case { coin: cn, base, times: vec![1000, 2000, 2500], mix: 0, cb_delta: 7 * 100_000_000, types_world: false, label: "reward shift >= 64" });
        }
    }
    for cn in ["namecoin", "dogecoin"] {
        for times in [vec![1000u32, 1600, 2200, 2800, 3400], vec![5000, 4000, 4000, 9000]] {
            for mix in [1u8, 4] {
                cases.push(Case { coin: cn, base: 0, times: times.clone(), mix, cb_delta: 0, types_world: false, label: "merged-mined blocks" });
            }
        }
    }
    rep.rule = "chains of 1..4 blocks x ALL timestamp sequences over {1, 1000, 4e9} (non-monotonic, equal, gaps summing beyond 2^32) x 7 transaction mixes (null outpoints in non-coinbase transactions, coinbase only, +1 tx, value tie, stripped-size tie, segwit tx biggest on disk only, a tx with wide CompactSize forms) on bitcoin (all) and litecoin; coinbase first-output value {reward-1, reward, reward+1, reward+5000, 0, alternating reward+5000 / reward-1000} x start heights around the halvings (sparse indexes); one world per coin with every script class; every figure of the parsed report compared with an exact integer / rational recomputation; non-trivial = distinct case with >= 2 blocks".into();
    rep.bound = json!({"cases": cases.len(), "timestamps": tvals, "max_blocks": 4});
    rep.not_covered = vec!["value sums >= 2^64".into(), "header time 0 (used as 'no previous block' sentinel by the code; cannot occur after 1970)".into()];
    let root = refmodel::world::scratch_root();
    let parts = par_fold(
        &cases,
        || Report::new("C15", "e1"),
        |w, i, case, acc| {
            let wk = Worker::new(&root, w);
            let c = coin(case.coin);
            let chain = build(c, case);
            let mut world = World::laid_out(c, &chain.blocks, case.base, if chain.blocks.len() > 1000 { 0 } else { i });
            let mut mblocks = chain.mblocks();
            if case.label == "block sizes summing beyond 2^32" {
                // the stored length prefix is what "block size" means (C01); prefixes of 3*10^9 make the sum exceed 32 bits with 3 blocks
                world = World::new(c);
                for (i, b) in chain.blocks.iter().enumerate() {
                    let raw = b.ser();
                    let prefix: u32 = 3_000_000_000u32.wrapping_add(i as u32 * 1000);
                    let pos = world.place_raw(0, &raw, prefix);
                    let h = case.base + i as u64;
                    world.put_rec(&refmodel::world::IndexRec { hash: b.hash(), client_version: 270000, height: h, status: refmodel::world::ACTIVE, ntx: b.txs.len() as u64, file: 0, data_pos: pos, undo_pos: 9, header: b.header.ser() });
                    mblocks[i].size = prefix;
                }
            }
            let spec = RunSpec::new(case.coin, "simplestats").range(if case.base > 0 { Some(case.base) } else { None }, None);
            let r = match wk.world_run(&world, &spec) {
                Ok(r) => r,
                Err(m) => return acc.machinery(m),
            };
            acc.states += 1;
            acc.transitions += 1;
            if case.times.len() >= 2 {
                acc.nontrivial.insert(h8(format!("{:?}", case).as_bytes()));
            }
            acc.count(case.label, 1);
            let tip = case.base + case.times.len() as u64 - 1;
            let (s, e) = (r.declared_start().unwrap_or(case.base), r.declared_end().unwrap_or(tip));
            let range = in_range(&mblocks, s, e);
            let bad = check_stats(&r, c, &range);
            if let Some(t) = r.record("simplestats") {
                acc.outcomes.insert(h8(t.as_bytes()));
            }
            if acc.samples.is_empty() && case.times.len() == 4 {
                acc.sample(json!({"case": format!("{:?}", case), "report_head": r.record("simplestats").map(|t| t.lines().take(9).collect::<Vec<_>>().join(" / "))}));
            }
            if r.ok() && e != tip {
                acc.disagree("range-not-whole-chain", format!("{:?}: declared {}..{}", case, s, e), replay_case(&world, &spec, json!({}), &r, &wk.dir));
            } else if let Some((sig, detail)) = bad.into_iter().next() {
                let sig = if case.label == "reward shift >= 64" { format!("reward-shift-overflow-at-heights>=13440000:{}", sig) } else { sig };
                acc.disagree(&sig, format!("{:?}: {}", case, detail), replay_case(&world, &spec, json!({"oracle": "exact recomputation"}), &r, &wk.dir));
            }
        },
    );
    for p in parts {
        rep.merge(p);
    }
    index_above_range_start(&mut rep, &root);
    let _ = std::fs::remove_dir_all(&root);
    rep
}

/// An index whose records begin above the start of the requested range (a node bootstrapped from a snapshot, a partial copy of
/// an index): whichever blocks a run over it delivers - none, as on the pinned tree, or those it finds - is C02's business; the
/// FIGURES must be the definitions computed over the delivered blocks. Which blocks were delivered is taken from a csvdump
/// run with the same options (every callback observes the same blocks).
fn index_above_range_start(rep: &mut Report, root: &std::path::Path) {
    let mut cases = Vec::new();
    for cn in ["bitcoin", "litecoin"] {
        for base in [5u64, 300, 210_001] {
            for start in [None, Some(0u64), Some(base - 2), Some(base)] {
                for n in [1usize, 3, 4] {
                    cases.push((cn, base, start, n));
                }
            }
        }
    }
    let parts = par_fold(
        &cases,
        || Report::new("C15", "e1"),
        |w, i, (cn, base, start, n), acc| {
            let c = coin(cn);
            let wk = Worker::new(root, 600 + w);
            let case = Case { coin: cn, base: *base, times: (0..*n).map(|k| 1_500_000_000 + [600u32, 1200, 60, 7200][(i + k) % 4] * k as u32).collect(), mix: [0u8, 1, 3][i % 3], cb_delta: 9, types_world: false, label: "index starts above the range start" };
            let cb = build(c, &case);
            let world = World::simple(c, &cb.blocks, *base);
            if let Err(m) = wk.materialise(&world) {
                return acc.machinery(m);
            }
            acc.states += 1;
            acc.nontrivial.insert(h8(format!("above{}{}{:?}{}", cn, base, start, n).as_bytes()));
            acc.count(case.label, 1);
            let listing = wk.run(&RunSpec::new(cn, "csvdump").range(*start, None));
            acc.transitions += 1;
            let mut delivered: Vec<u64> = Vec::new();
            for (name, content) in &listing.files {
                if name.starts_with("blocks") {
                    delivered.extend(String::from_utf8_lossy(content).lines().filter_map(|l| l.split(';').nth(1).and_then(|h| h.parse::<u64>().ok())));
                }
            }
            let spec = RunSpec::new(cn, "simplestats").range(*start, None);
            let r = wk.run(&spec);
            acc.transitions += 1;
            if !r.ok() || !listing.ok() {
                acc.count("index starts above the range start: run failed (not judged)", 1);
                return;
            }
            if delivered.is_empty() {
                acc.count("index starts above the range start: nothing delivered (not judged)", 1);
                return;
            }
            acc.count("index starts above the range start: judged", 1);
            let range: Vec<refmodel::model::MBlock> = cb.mblocks().into_iter().filter(|b| delivered.contains(&b.height)).collect();
            if let Some((sig, detail)) = check_stats(&r, c, &range).into_iter().next() {
                acc.disagree(&format!("index-above-range-start:{}", sig), format!("{} index records {}..{} read with --start {:?}: csvdump delivers heights {:?}; simplestats: {}", cn, base, base + *n as u64 - 1, start, delivered, detail), replay_case(&world, &spec, json!({"oracle": "exact recomputation over the blocks a csvdump run with the same options delivers"}), &r, &wk.dir));
            }
        },
    );
    for p in parts {
        rep.merge(p);
    }
}
