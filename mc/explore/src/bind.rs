//! E1 binding for C05 / C06 / C16: the in-process verdicts must be what the callbacks print.
//! Worlds whose outputs are representatives of every oracle class are run through the binary.
use crate::hx::{replay_case, Worker};
use crate::oracle::*;
use refmodel::chain::{coinbase, pay, ChainBuilder, COIN_VALUE};
use refmodel::coins::{coin, Coin, COINS};
use refmodel::ev::{h8, is_thorough, par_fold, Report};
use refmodel::families;
use refmodel::run::RunSpec;
use refmodel::script::{self, *};
use refmodel::ser::{Tx, TxIn, TxOut};
use refmodel::world::World;
use serde_json::json;

/// One representative per oracle class (strict classes only when `strict`).
pub fn representatives(c: &Coin, strict: bool) -> Vec<Vec<u8>> {
    let mut v: Vec<Vec<u8>> = Vec::new();
    let (ka, kb, kc) = (key33(1), key65(2), key33(3));
    v.push(p2pkh(&h20(10)));
    v.push(p2pk(&key33(11)));
    v.push(p2pk(&key65(12)));
    v.push(p2sh(&h20(13)));
    v.push(multisig(2, &[&ka, &kb, &kc], 3));
    v.push(op_return(b"class representative"));
    v.push(vec![0x73, 0x63, 0x72]); // unrecognised
    v.push(vec![]); // empty
    // scripts far longer than any standardness / element-size limit: still templates for the reference rules
    v.push({
        let mut s = vec![0x6a];
        s.extend(push_with(2, &vec![b'z'; 12_000]));
        s
    });
    if !c.is_bitcoin_family() {
        v.push({
            let mut s = push_with(2, &filler(41, 12_000));
            s.push(0xac);
            s
        }); // P2PK with a 12 000-byte "key" (any non-empty push fills the slot)
        v.push({
            let mut s = p2sh(&h20(42));
            s.extend(std::iter::repeat(0x61).take(10_001));
            s
        }); // P2SH followed by 10 001 NOPs
        v.push({
            let mut s = vec![0x61; 600];
            s.extend(p2pkh(&h20(43)));
            s
        });
    }
    if c.is_bitcoin_family() {
        v.push(witness(0, &filler(14, 20)));
        v.push(witness(0, &filler(15, 32)));
        v.push(witness(1, &filler(16, 32)));
        v.push(witness(2, &filler(17, 40)));
        v.push(witness(16, &filler(18, 2)));
        v.push(multisig(1, &[&ka], 1));
        // every key count a multisig script may have (1..16), as 1-of-n and n-of-n, and one key too many
        for n in 2..=17u8 {
            let keys: Vec<Vec<u8>> = (0..n).map(|i| if i % 3 == 0 { key65(20 + i) } else { key33(20 + i) }).collect();
            let refs: Vec<&[u8]> = keys.iter().map(|k| k.as_slice()).collect();
            v.push(multisig(1, &refs, n.min(16)));
            v.push(multisig(n.min(16), &refs, n.min(16)));
        }
        v.push(vec![0x50]); // unspendable
        v.push(vec![0xff, 0x01]);
        v.push(vec![0x6a]); // bare OP_RETURN
        // lookalikes that must stay unrecognised
        v.push({
            let mut s = vec![0x51];
            s.extend(push_direct(&ka));
            s.push(0x76);
            s.push(0xae);
            s
        });
        v.push(multisig(3, &[&ka, &kb], 2)); // m > n
        v.push({
            let mut s = p2pkh(&h20(10));
            s.push(0x61);
            s
        });
        if !strict {
            v.push(witness(0, &filler(19, 25))); // v0 program of illegal length: label open, no address
        }
    } else {
        // every push form for the hash slot
        for form in [1u8, 2, 4] {
            let mut s = vec![0x76, 0xa9];
            s.extend(push_with(form, &filler(20 + form, 20)));
            s.extend_from_slice(&[0x88, 0xac]);
            v.push(s);
        }
        v.push({
            let mut s = vec![0x6a];
            s.extend(push_with(1, &filler(b'a', 80).iter().map(|b| b'a' + b % 26).collect::<Vec<u8>>()));
            s
        });
        v.push({
            let mut s = vec![0x61];
            s.extend(p2pkh(&h20(30)));
            s.push(0xb0);
            s
        }); // NOP-decorated P2PKH
        v.push(vec![0x76, 0xa9, 0x14, 1, 2, 3]); // truncated push
        v.push(vec![0x76, 0xa9, 0x00, 0x88, 0xac]); // empty push in the hash slot
        v.push(multisig(1, &[&ka], 1)); // only 2-of-3 is a fork template
        v.push({
            let mut s = vec![0x76, 0xa9];
            s.extend(push_direct(&filler(31, 21)));
            s.extend_from_slice(&[0x88, 0xac]);
            s
        }); // 21-byte "hash": any non-empty push fills the slot
        if !strict {
            v.push(vec![0x6a]);
            v.push(vec![0x6a, 0x00]);
        }
    }
    v
}

/// Merged-mining section for a block (namecoin / dogecoin worlds): the parent chain's coinbase, branches and header carry
/// their own version, time and scripts - none of which is the block's.
fn aux_section(seed: u8) -> refmodel::ser::AuxPow {
    refmodel::ser::AuxPow {
        parent_coinbase: coinbase(7, seed as u32, vec![pay(seed, 25), TxOut { value: 0, script: script::op_return(b"parent chain") }]),
        parent_hash: [seed; 32],
        coinbase_branch: vec![[seed.wrapping_add(1); 32]; 3],
        coinbase_mask: 5,
        chain_branch: vec![[seed.wrapping_add(2); 32]],
        chain_mask: 0,
        branch_wide: 0, parent_header: refmodel::ser::Header { version: 0x2000_0000, prev: [seed.wrapping_add(3); 32], merkle: [seed.wrapping_add(4); 32], time: 1_400_000_000 + seed as u32 * 7919, bits: 0x1b00ffff, nonce: 42 },
    }
}

fn world_for(c: &'static Coin, scripts: &[Vec<u8>], per_tx: usize, auxpow: bool) -> ChainBuilder {
    // interleave address-less and address-bearing outputs so that every transaction has an address-less output BEFORE an
    // address-bearing one (output index != rank among addressed outputs) and vice versa
    let (with, without): (Vec<Vec<u8>>, Vec<Vec<u8>>) = scripts.iter().cloned().partition(|s| script::expect(c, s).address.is_some());
    let mut inter: Vec<Vec<u8>> = Vec::new();
    let (mut wi, mut wo) = (with.into_iter(), without.into_iter());
    loop {
        let (a, b) = (wo.next(), wi.next());
        if a.is_none() && b.is_none() {
            break;
        }
        inter.extend(a);
        inter.extend(b);
    }
    let scripts = &inter[..];
    let mut cb = ChainBuilder::with_genesis(c);
    let mut txs = Vec::new();
    for (k, chunk) in scripts.chunks(per_tx).enumerate() {
        let outs = chunk.iter().enumerate().map(|(i, s)| TxOut { value: 1000 + (k * per_tx + i) as u64, script: s.clone() }).collect();
        txs.push(Tx { version: 1, segwit: false, inputs: vec![TxIn::spend([0xee; 32], k as u32)], outputs: outs, locktime: 0, wide: 0 });
    }
    let half = txs.len() / 2;
    let second = txs.split_off(half);
    if auxpow {
        cb.version = c.auxpow_from.unwrap() + 1;
    }
    cb.push(txs);
    cb.push(second);
    if auxpow {
        for (k, b) in cb.blocks.iter_mut().enumerate().skip(1) {
            b.auxpow = Some(aux_section(k as u8 * 16 + 1));
        }
    }
    cb
}

pub fn run_c05_c06(prop: &str) -> Report {
    let mut rep = Report::new(prop, "e1");
    let coins: Vec<&'static Coin> = COINS.iter().filter(|c| (prop == "C05") == c.is_bitcoin_family()).collect();
    let mut cases: Vec<(&'static Coin, bool, &'static str)> = Vec::new();
    for c in &coins {
        for cb in ["csvdump", "unspentcsvdump", "balances", "simplestats", "opreturn"] {
            cases.push((c, true, cb));
        }
        for cb in ["csvdump", "unspentcsvdump"] {
            cases.push((c, false, cb));
        }
    }
    rep.rule = "binding of the in-process verdicts to the observable: per coin one world whose outputs are one representative of every reference class (strict classes through all five callbacks, grey-zone classes through csvdump/unspentcsvdump), run on the real binary; address column, unspent rows, balances, per-type counts / first occurrences and opreturn lines must equal the model; non-trivial = distinct (coin, world, callback)".into();
    rep.bound = json!({"coins": coins.iter().map(|c| c.name).collect::<Vec<_>>(), "cases": cases.len()});
    let root = refmodel::world::scratch_root();
    let parts = par_fold(
        &cases,
        || Report::new(prop, "e1"),
        |w, _i, (c, strict, cbn), acc| {
            let wk = Worker::new(&root, w);
            let scripts = representatives(c, *strict);
            // on the coins that have merged mining the strict world consists of merged-mined blocks
            let chain = world_for(c, &scripts, 4, *strict && c.auxpow_from.is_some());
            let world = World::simple(c, &chain.blocks, 0);
            let mut spec = RunSpec::new(c.name, cbn);
            // the file-producing callbacks at trace verbosity (log statements are code too; their arguments are only evaluated
            // when the level is on), the two printing callbacks at the default
            if !matches!(*cbn, "simplestats" | "opreturn") {
                spec.verbosity = if *strict { 3 } else { 2 };
            }
            let r = match wk.world_run(&world, &spec) {
                Ok(r) => r,
                Err(m) => return acc.machinery(m),
            };
            acc.states += 1;
            acc.transitions += 1;
            acc.nontrivial.insert(h8(format!("{}{}{}", c.name, strict, cbn).as_bytes()));
            let (s, e) = (r.declared_start().unwrap_or(0), r.declared_end().unwrap_or(2));
            let range = in_range(&chain.mblocks(), s, e);
            let bad = match *cbn {
                "csvdump" => check_csvdump(&r, c, &range, s, e),
                "unspentcsvdump" => check_unspent(&r, c, &range, s, e),
                "balances" => check_balances(&r, c, &range, s, e),
                "simplestats" => check_stats(&r, c, &range),
                _ => check_opreturn(&r, c, &range),
            };
            if acc.samples.is_empty() {
                acc.sample(json!({"coin": c.name, "callback": cbn, "output_scripts": scripts.iter().take(6).map(|s| refmodel::ser::hex(s)).collect::<Vec<_>>()}));
            }
            if let Some((sig, detail)) = bad.into_iter().next() {
                acc.disagree(&format!("binding:{}", sig), format!("{} {} strict={}: {}", c.name, cbn, strict, detail), replay_case(&world, &spec, expected_brief("model", s, e), &r, &wk.dir));
            }
        },
    );
    for p in parts {
        rep.merge(p);
    }
    // sequences inside a transaction: every ordered triple (repetitions included) of one representative per reference class
    // as the three outputs of a transaction - whatever is carried from one output to the next (a reused evaluation, a buffer)
    let seq_cases: Vec<(&'static Coin, &'static str)> = coins.iter().flat_map(|c| ["csvdump", "simplestats", "unspentcsvdump", "opreturn"].into_iter().map(move |cb| (*c, cb))).collect();
    let parts = par_fold(
        &seq_cases,
        || Report::new(prop, "e1"),
        |w, _i, (c, cbn), acc| {
            let wk = Worker::new(&root, 500 + w);
            let mut seen = std::collections::BTreeSet::new();
            let reps: Vec<Vec<u8>> = representatives(c, true).into_iter().filter(|s| s.len() <= 300 && seen.insert(script::expect(c, s).class.to_string())).collect();
            let mut cb = ChainBuilder::with_genesis(c);
            let mut txs = Vec::new();
            let mut k = 0u32;
            for a in &reps {
                for b in &reps {
                    for d in &reps {
                        let outs = [a, b, d].iter().enumerate().map(|(i, s)| TxOut { value: 1000 + (k as u64) * 3 + i as u64, script: (*s).clone() }).collect();
                        txs.push(Tx { version: 1, segwit: false, inputs: vec![TxIn::spend([0xec; 32], k)], outputs: outs, locktime: k, wide: 0 });
                        k += 1;
                    }
                }
            }
            let second = txs.split_off(txs.len() / 2);
            cb.push(txs);
            cb.push(second);
            let world = World::simple(c, &cb.blocks, 0);
            let spec = RunSpec::new(c.name, cbn);
            let r = match wk.world_run(&world, &spec) {
                Ok(r) => r,
                Err(m) => return acc.machinery(m),
            };
            acc.states += 1;
            acc.transitions += 1;
            acc.count("output-triples-in-one-transaction", k as u64);
            acc.nontrivial.insert(h8(format!("triples{}{}", c.name, cbn).as_bytes()));
            let range = cb.mblocks();
            let bad = match *cbn {
                "csvdump" => check_csvdump(&r, c, &range, 0, 2),
                "unspentcsvdump" => check_unspent(&r, c, &range, 0, 2),
                "simplestats" => check_stats(&r, c, &range),
                _ => check_opreturn(&r, c, &range),
            };
            if let Some((sig, detail)) = bad.into_iter().next() {
                acc.disagree(&format!("binding:output-triples:{}", sig), format!("{} {} ({} classes): {}", c.name, cbn, reps.len(), detail.chars().take(500).collect::<String>()), json!({"kind": "e1-described", "world": format!("every ordered triple of {} class representatives as the outputs of a transaction", reps.len()), "coin": c.name, "callback": cbn}));
            }
        },
    );
    for p in parts {
        rep.merge(p);
    }
    // the amount an output carries is not an input of its type or address: one representative per reference class under
    // amounts 0, 1, dust, around 21 million coins (the Bitcoin supply, routinely exceeded on Dogecoin), 2^53 + 1, 2^62 and
    // 2^64 - 1, alone in a transaction and side by side
    let amount_cases: Vec<(&'static Coin, &'static str)> = coins.iter().flat_map(|c| ["csvdump", "unspentcsvdump"].into_iter().map(move |cb| (*c, cb))).collect();
    let parts = par_fold(
        &amount_cases,
        || Report::new(prop, "e1"),
        |w, _i, (c, cbn), acc| {
            let wk = Worker::new(&root, 600 + w);
            let mut seen = std::collections::BTreeSet::new();
            let reps: Vec<Vec<u8>> = representatives(c, true).into_iter().filter(|s| s.len() <= 300 && seen.insert(script::expect(c, s).class.to_string())).collect();
            let amounts: [u64; 10] = [0, 1, 546, 2_100_000_000_000_000 - 1, 2_100_000_000_000_000, 2_100_000_000_000_001, 2_500_000_000_000_000, (1 << 53) + 1, 1 << 62, u64::MAX];
            let mut cb = ChainBuilder::with_genesis(c);
            let mut txs = Vec::new();
            let mut k = 0u32;
            for sc in &reps {
                for a in amounts {
                    txs.push(Tx { version: 1, segwit: false, inputs: vec![TxIn::spend([0xea; 32], k)], outputs: vec![TxOut { value: a, script: sc.clone() }], locktime: k, wide: 0 });
                    k += 1;
                }
                txs.push(Tx { version: 1, segwit: false, inputs: vec![TxIn::spend([0xea; 32], k)], outputs: amounts.iter().map(|a| TxOut { value: *a, script: sc.clone() }).collect(), locktime: k, wide: 0 });
                k += 1;
            }
            let second = txs.split_off(txs.len() / 2);
            cb.push(txs);
            cb.push(second);
            let world = World::simple(c, &cb.blocks, 0);
            let spec = RunSpec::new(c.name, cbn);
            let r = match wk.world_run(&world, &spec) {
                Ok(r) => r,
                Err(m) => return acc.machinery(m),
            };
            acc.states += 1;
            acc.transitions += 1;
            acc.count("class-representative-x-amount", (reps.len() * amounts.len()) as u64);
            acc.nontrivial.insert(h8(format!("amounts{}{}", c.name, cbn).as_bytes()));
            let range = cb.mblocks();
            let bad = if *cbn == "csvdump" { check_csvdump(&r, c, &range, 0, 2) } else { check_unspent(&r, c, &range, 0, 2) };
            if let Some((sig, detail)) = bad.into_iter().next() {
                acc.disagree(&format!("binding:amounts:{}", sig), format!("{} {} ({} classes x {} amounts): {}", c.name, cbn, reps.len(), amounts.len(), detail.chars().take(500).collect::<String>()), json!({"kind": "e1-described", "world": "one representative per class under 10 amounts", "coin": c.name, "callback": cbn}));
            }
        },
    );
    for p in parts {
        rep.merge(p);
    }
    let _ = std::fs::remove_dir_all(&root);
    rep
}

/// C16 E1: the payload grammar through the opreturn callback.
pub fn run_c16() -> Report {
    let mut rep = Report::new("C16", "e1");
    let thorough = is_thorough();
    let coins: Vec<&'static Coin> = if thorough { COINS.iter().collect() } else { vec![coin("bitcoin"), coin("testnet3"), coin("litecoin"), coin("dogecoin")] };
    let ranges: Vec<(Option<u64>, Option<u64>)> = vec![(None, None), (Some(1), None), (Some(1), Some(2)), (None, Some(1)), (Some(2), Some(3))];
    let mut cases = Vec::new();
    for c in &coins {
        for r in &ranges {
            cases.push((*c, *r));
        }
    }
    rep.rule = "every script of the payload grammar (12 lengths x 7 content classes x every push form) as outputs of transactions spread over 3 blocks, interleaved with one output of every non-OP_RETURN class, run through the opreturn callback with 5 range shapes; stdout lines (height, txid, payload) must be exactly the model's list in chain order; non-trivial = distinct (coin, range)".into();
    let payloads = families::opreturn_payload_scripts();
    rep.bound = json!({"payload_scripts": payloads.len(), "coins": coins.iter().map(|c| c.name).collect::<Vec<_>>(), "ranges": ranges.len()});
    let root = refmodel::world::scratch_root();
    let parts = par_fold(
        &cases,
        || Report::new("C16", "e1"),
        |w, _i, (c, (s0, e0)), acc| {
            let wk = Worker::new(&root, w);
            let mut others = representatives(c, true).into_iter().filter(|s| s.first() != Some(&0x6a)).collect::<Vec<_>>();
            // scripts the evaluator comments on in the log while it works (version-0 witness programs of a length that is
            // neither 20 nor 32 bytes): no OP_RETURN, nothing to print, and the lines of their neighbours are due all the same
            for (k, n) in [2usize, 5, 19, 21, 25, 33, 40].into_iter().enumerate() {
                others.insert((k * 3 + 1).min(others.len()), script::witness(0, &script::filler(70 + k as u8, n)));
            }
            let mut cb = ChainBuilder::with_genesis(c);
            let mut txs: Vec<Tx> = Vec::new();
            // transactions of 2..18 outputs (not all alike: a split of the outputs over the workers leaves remainders)
            let mut rest: &[(String, Vec<u8>)] = &payloads;
            let mut groups: Vec<&[(String, Vec<u8>)]> = Vec::new();
            let mut gi = 0usize;
            while !rest.is_empty() {
                let n = ([1usize, 4, 7, 8, 10, 12, 16, 17, 3, 5][gi % 10]).min(rest.len());
                groups.push(&rest[..n]);
                rest = &rest[n..];
                gi += 1;
            }
            for (k, chunk) in groups.into_iter().enumerate() {
                let mut outs: Vec<TxOut> = chunk.iter().map(|(_, s)| TxOut { value: 0, script: s.clone() }).collect();
                outs.insert(k % (outs.len() + 1), TxOut { value: 5, script: others[k % others.len()].clone() });
                txs.push(Tx { version: 1, segwit: false, inputs: vec![TxIn::spend([0xee; 32], k as u32)], outputs: outs, locktime: 0, wide: 0 });
            }
            // one payload beyond 1 MiB (PUSHDATA4), between two ordinary payload outputs
            txs.push(Tx { version: 1, segwit: false, inputs: vec![TxIn::spend([0xee; 32], 7777)], outputs: vec![
                TxOut { value: 0, script: script::op_return(b"before the big one") },
                TxOut { value: 0, script: { let mut s = vec![0x6a]; s.extend(push_with(4, &vec![b'B'; 1_200_000])); s } },
                TxOut { value: 0, script: script::op_return(b"after the big one") },
            ], locktime: 0, wide: 0 });
            let per = txs.len() / 3 + 1;
            for chunk in txs.chunks(per) {
                let h = cb.next_height();
                let mut all = vec![coinbase(h, 4, vec![pay(2, 50 * COIN_VALUE), TxOut { value: 0, script: script::op_return(format!("cb{}", h).as_bytes()) }])];
                all.extend(chunk.iter().cloned());
                cb.push_raw(all);
            }
            // the LAST line a block prints is a line like any other: blocks whose final output is a payload that ends in (or consists
            // of) white space, a line break, a NUL, or that is ordinary - each behind an ordinary line of the same block
            for (k, tail) in [&b"tail  "[..], b" ", b"\t", b"abc\t", b"  both  ", "abc\u{a0}".as_bytes(), "abc\u{3000}".as_bytes(), "abc\u{2028}".as_bytes(), "abc\u{85}".as_bytes(), b"line\n", b"nul\0", b"plain"].into_iter().enumerate() {
                let h = cb.next_height();
                cb.push_raw(vec![
                    coinbase(h, 4, vec![pay(2, 50 * COIN_VALUE), TxOut { value: 0, script: script::op_return(format!("head of block {}", h).as_bytes()) }]),
                    Tx { version: 1, segwit: false, inputs: vec![TxIn::spend([0xed; 32], k as u32)], outputs: vec![TxOut { value: 1, script: others[k % others.len()].clone() }, TxOut { value: 0, script: script::op_return(tail) }], locktime: 0, wide: 0 },
                ]);
            }
            let world = World::simple(c, &cb.blocks, 0);
            // every other case at trace verbosity: the printed lines are the same, the log lines around them are not judged
            let mut spec = RunSpec::new(c.name, "opreturn").range(*s0, *e0);
            spec.verbosity = if _i % 2 == 1 { 3 } else { 0 };
            spec.threads = [2u32, 3, 4, 1, 16][_i % 5];
            // how the directory is named is no input of what is printed: every third case through a path of more than 600
            // bytes (the log lines that mention it get long), one in three through names with spaces and non-ASCII characters
            // who reads stdout is no input either: every other case prints to a terminal instead of a pipe
            if _i % 2 == 0 {
                spec.env.push(("VERIF_STDOUT_TTY".into(), "1".into()));
            }
            match _i % 3 {
                1 => spec.env.push(("VERIF_PATH_FORM".into(), "11".into())),
                2 => spec.env.push(("VERIF_PATH_FORM".into(), "9".into())),
                _ => {}
            }
            let r = match wk.world_run(&world, &spec) {
                Ok(r) => r,
                Err(m) => return acc.machinery(m),
            };
            acc.states += 1;
            acc.transitions += 1;
            acc.nontrivial.insert(h8(format!("{}{:?}{:?}", c.name, s0, e0).as_bytes()));
            let (s, e) = (r.declared_start().unwrap_or(s0.unwrap_or(0)), r.declared_end().unwrap_or(3));
            let range = in_range(&cb.mblocks(), s, e);
            let want = refmodel::model::opreturn_lines(c, &range);
            acc.count("expected-lines", want.iter().filter(|l| l.data.is_some()).count() as u64);
            if acc.samples.is_empty() {
                acc.sample(json!({"coin": c.name, "range": [s, e], "first_expected_lines": want.iter().take(3).map(|l| json!([l.height, l.txid, l.data.as_ref().map(|d| d.chars().take(20).collect::<String>())])).collect::<Vec<_>>()}));
            }
            if let Some((sig, detail)) = check_opreturn(&r, c, &range).into_iter().next() {
                acc.disagree(&sig, format!("{} range {:?}..{:?}: {}", c.name, s0, e0, detail.chars().take(600).collect::<String>()), json!({"kind": "e1-described", "coin": c.name, "range": [s0, e0], "note": "world = payload grammar of refmodel::families::opreturn_payload_scripts(), see DESIGN C16"}));
            }
        },
    );
    for p in parts {
        rep.merge(p);
    }
    failing_runs(&mut rep, &root);
    let _ = std::fs::remove_dir_all(&root);
    rep
}

/// "For every processed output ... prints one line": a run that cannot read (or, under --verify, rejects) a LATER block has
/// processed the blocks before it; their lines are due whatever happens afterwards and however the process ends. Chain of 6
/// blocks, one per blk file, two printable payloads per block; for every height f in 1..=5 the block f is made unusable in each
/// of 4 ways (file removed, file cut inside the block, index offset past the end, a txid-covered byte changed under --verify);
/// the run must fail, and stdout must carry exactly the model's lines of heights start..f-1, in order.
fn failing_runs(rep: &mut Report, root: &std::path::Path) {
    let mut cases = Vec::new();
    for cn in ["bitcoin", "litecoin", "dogecoin"] {
        for f in 1..=5u64 {
            for kind in 0..4usize {
                for start in [0u64, 1] {
                    if start < f {
                        cases.push((cn, f, kind, start));
                    }
                }
            }
        }
    }
    let parts = par_fold(
        &cases,
        || Report::new("C16", "e1"),
        |w, i, (cn, f, kind, start), acc| {
            let c = coin(cn);
            let wk = Worker::new(root, 500 + w);
            let mut cb = ChainBuilder::with_genesis(c);
            while cb.blocks.len() < 6 {
                let h = cb.next_height();
                cb.push_raw(vec![
                    coinbase(h, 4, vec![pay(2, 50 * COIN_VALUE), TxOut { value: 0, script: script::op_return(format!("coinbase of {}", h).as_bytes()) }]),
                    Tx { version: 1, segwit: false, inputs: vec![TxIn::spend([0xe0; 32], h as u32)], outputs: vec![pay(3, 7), TxOut { value: 0, script: script::op_return(format!("payload {} \u{e9}\u{3b2}", h).as_bytes()) }], locktime: 0, wide: 0 },
                ]);
            }
            let mut world = World::new(c);
            let mut recs = Vec::new();
            for (h, b) in cb.blocks.iter().enumerate() {
                recs.push(world.add_block(h as u64, h as u64, b));
            }
            let label = match kind {
                0 => {
                    world.files.remove(f);
                    "blk-file-removed"
                }
                1 => {
                    let fl = world.files.get_mut(f).unwrap();
                    let mut d = fl.dense();
                    d.truncate(8 + 80 + 20);
                    fl.len = d.len() as u64;
                    fl.chunks = vec![(0, d)];
                    "blk-file-cut-inside-the-block"
                }
                2 => {
                    let mut r = recs[*f as usize].clone();
                    r.data_pos = world.files[f].len + 64;
                    world.put_rec(&r);
                    "offset-past-the-end"
                }
                _ => {
                    // last byte of the block = last byte of the last transaction's lock time: covered by its txid
                    let fl = world.files.get_mut(f).unwrap();
                    let mut d = fl.dense();
                    let n = d.len();
                    d[n - 1] ^= 0x01;
                    fl.chunks = vec![(0, d)];
                    "txid-covered-byte-changed-under-verify"
                }
            };
            let mut spec = RunSpec::new(cn, "opreturn").range(if *start > 0 { Some(*start) } else { None }, None).verify(*kind == 3);
            spec.verbosity = [0u8, 1, 3][i % 3];
            spec.threads = [1u32, 2, 16][(i / 3) % 3];
            let r = match wk.world_run(&world, &spec) {
                Ok(r) => r,
                Err(m) => return acc.machinery(m),
            };
            acc.states += 1;
            acc.transitions += 1;
            acc.count(&format!("failing-run:{}", label), 1);
            acc.nontrivial.insert(h8(format!("fail{}{}{}{}", cn, f, kind, start).as_bytes()));
            let desc = replay_case(&world, &spec, json!({"must": format!("fail at height {}; stdout carries exactly the lines of heights {}..{}", f, start, f - 1)}), &r, &wk.dir);
            if r.code == Some(0) {
                // whether such a run may succeed is C09's / C10's business; nothing to judge here
                acc.count("failing-run:not-judged-run-succeeded", 1);
                return;
            }
            let range = in_range(&cb.mblocks(), *start, f - 1);
            acc.count("expected-lines", refmodel::model::opreturn_lines(c, &range).iter().filter(|l| l.data.is_some()).count() as u64);
            if let Some((sig, detail)) = check_opreturn_lines(&r, c, &range).into_iter().next() {
                acc.disagree(&format!("lines-of-processed-blocks-before-a-failure:{}", sig), format!("{} {} at height {} (start {}): {}", cn, label, f, start, detail.chars().take(500).collect::<String>()), desc);
            }
        },
    );
    for p in parts {
        rep.merge(p);
    }
}
