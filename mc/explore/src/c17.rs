//! C17 — open blk files stay bounded by the files overlapping the current height.
//! Oracle 1: open-set automaton on the syscall trace (shim log: open/close of blk files interleaved with height markers).
//! Oracle 2: black box, RLIMIT_NOFILE calibrated on the single-file layout of the same chain.
use crate::gen::dependent_chain;
use crate::hx::{replay_case, Worker};
use crate::oracle::*;
use refmodel::coins::coin;
use refmodel::ev::{h8, is_thorough, par_fold, Report};
use refmodel::run::{RunResult, RunSpec};
use refmodel::world::World;
use serde_json::json;
use std::collections::{BTreeMap, BTreeSet};

/// All set partitions of {0..n-1} as restricted growth strings (block -> file).
pub fn partitions(n: usize) -> Vec<Vec<usize>> {
    fn rec(a: &mut Vec<usize>, n: usize, out: &mut Vec<Vec<usize>>) {
        if a.len() == n {
            out.push(a.clone());
            return;
        }
        let maxv = a.iter().copied().max().map(|m| m + 1).unwrap_or(0);
        for v in 0..=maxv {
            a.push(v);
            rec(a, n, out);
            a.pop();
        }
    }
    let mut out = vec![];
    rec(&mut vec![], n, &mut out);
    out
}

fn world_for(chain: &refmodel::chain::ChainBuilder, assign: &[usize]) -> World {
    world_with_stale_tails(chain, assign, false)
}

/// `stale_tails`: every file additionally ends with a never-connected competitor block (with data) whose height is
/// one above the file's highest active block - the losing block of a short fork at a file roll-over.
/// File numbers used for the k-th file of a partition: k * stride. Strides collide in power-of-two sized tables and
/// truncating casts (two files whose numbers differ by a multiple of 256 / 4096 / 65536 / 2^32).
const STRIDES: [u64; 6] = [1, 256, 4096, 65_536, 1 << 32, (1 << 32) + 4096];

fn world_with_stale_tails(chain: &refmodel::chain::ChainBuilder, assign: &[usize], stale_tails: bool) -> World {
    world_numbered(chain, assign, stale_tails, 1, 0)
}

/// `order`: physical order of the blocks inside every file - 0 ascending height, 1 descending height (the file's highest
/// block is stored first, its physically last block is its lowest), 2 the file's highest block first, the rest ascending.
fn world_numbered(chain: &refmodel::chain::ChainBuilder, assign: &[usize], stale_tails: bool, stride: u64, order: u8) -> World {
    use refmodel::world::{HAVE_DATA, VALID_TRANSACTIONS};
    let mut w = World::new(chain.coin);
    let n = chain.blocks.len();
    let mut hs: Vec<usize> = (0..n).collect();
    match order {
        1 => hs.reverse(),
        2 => {
            let maxh = |f: usize| (0..n).filter(|h| assign[*h] == f).max().unwrap();
            hs.sort_by_key(|h| (if *h == maxh(assign[*h]) { 0 } else { 1 }, *h));
        }
        _ => {}
    }
    for h in hs {
        w.add_block(assign[h] as u64 * stride, chain.first_height + h as u64, &chain.blocks[h]);
    }
    // Bitcoin Core's per-file records ('f' + file number): nBlocks, nSize, nUndoSize, nHeightFirst, nHeightLast, nTimeFirst,
    // nTimeLast. nHeightLast counts every block ever stored in the file - with a stale block on top it is one above the file's
    // highest active block. The parser has no use for these records; they are part of every real index.
    {
        use refmodel::ser::core_varint;
        let files: BTreeSet<usize> = assign.iter().copied().collect();
        for f in files {
            let hs: Vec<usize> = (0..n).filter(|h| assign[*h] == f).collect();
            let (first, last) = (*hs.first().unwrap() as u64, *hs.last().unwrap() as u64 + if stale_tails { 1 } else { 0 });
            let fno = f as u64 * stride;
            if fno > u32::MAX as u64 {
                continue;
            }
            let mut key = vec![b'f'];
            key.extend_from_slice(&(fno as u32).to_le_bytes());
            let mut val = Vec::new();
            for x in [hs.len() as u64 + stale_tails as u64, 100_000, 5_000, chain.first_height + first, chain.first_height + last, 1_600_000_000, 1_600_009_999] {
                val.extend(core_varint(x));
            }
            w.index_ops.push(refmodel::world::IndexOp::Put(key, val));
        }
        w.index_ops.push(refmodel::world::IndexOp::Put(b"l".to_vec(), (assign.iter().max().copied().unwrap_or(0) as u32).to_le_bytes().to_vec()));
    }
    if stale_tails {
        let files: BTreeSet<usize> = assign.iter().copied().collect();
        for f in files {
            let maxh = assign.iter().enumerate().filter(|(_, x)| **x == f).map(|(h, _)| h).max().unwrap();
            let parent = chain.blocks[maxh].hash();
            let txs = vec![refmodel::chain::coinbase(maxh as u64 + 1, 0xdead, vec![refmodel::chain::pay(250, 1)])];
            let b = refmodel::ser::Block::build(1, parent, 1_700_000_000, 0x1d00ffff, f as u32, txs);
            w.add_block_status(f as u64 * stride, maxh as u64 + 1, &b, VALID_TRANSACTIONS | HAVE_DATA);
        }
    }
    w
}

#[derive(Debug)]
struct TraceVerdict {
    peak: usize,
    problems: Vec<(String, String)>,
}

/// Replay the shim log through the open-set automaton.
fn judge_trace(log: &str, assign: &[usize], s: u64, e: u64, stride: u64) -> TraceVerdict {
    let maxh: BTreeMap<usize, u64> = {
        let mut m = BTreeMap::new();
        for (h, f) in assign.iter().enumerate() {
            m.insert(*f, h as u64);
        }
        m
    };
    let file_of = |path: &str| -> Option<usize> {
        let name = path.rsplit('/').next()?;
        let num = name.strip_prefix("blk")?.strip_suffix(".dat")?;
        num.parse::<u64>().ok().map(|n| (n / stride) as usize)
    };
    // file -> number of descriptors open on it (a file is closed when the last of them is)
    let mut fds: BTreeMap<usize, usize> = BTreeMap::new();
    let mut open: BTreeSet<usize> = BTreeSet::new();
    let mut peak = 0usize;
    let mut problems = Vec::new();
    let mut markers = Vec::new();
    for line in log.lines() {
        let f: Vec<&str> = line.split_whitespace().collect();
        if f.len() < 3 || f[0] != "T" {
            continue;
        }
        match f[1] {
            "open" => {
                if let Some(n) = file_of(f[2]) {
                    if f.get(3).map(|x| x.starts_with('-')).unwrap_or(false) {
                        continue;
                    }
                    *fds.entry(n).or_insert(0) += 1;
                    open.insert(n);
                    peak = peak.max(open.len());
                }
            }
            "close" => {
                if let Some(n) = file_of(f[2]) {
                    let c = fds.entry(n).or_insert(0);
                    *c = c.saturating_sub(1);
                    if *c == 0 {
                        open.remove(&n);
                    }
                }
            }
            "marker" => {
                let h: u64 = f[2].parse().unwrap_or(u64::MAX);
                markers.push(h);
                // block h has been delivered: every open file must still hold a block of a height yet to come
                for n in &open {
                    if maxh.get(n).map(|m| *m <= h).unwrap_or(true) {
                        problems.push(("file-left-open-after-its-highest-block".to_string(), format!("after height {} file {} (highest block {:?}) is still open ({} descriptor(s)); open set {:?}", h, n, maxh.get(n), fds.get(n).copied().unwrap_or(0), open)));
                    }
                }
            }
            _ => {}
        }
    }
    let want: Vec<u64> = (s..=e).collect();
    if markers != want {
        problems.insert(0, ("machinery-trace-markers".to_string(), format!("height markers {:?}, expected {:?}", markers, want)));
    }
    TraceVerdict { peak, problems }
}

/// Model: peak number of files that are open at the same time when each file is opened at its first needed
/// height (>= s) and closed once its highest block (over the whole index) has been delivered.
fn model_peak(assign: &[usize], s: u64, e: u64) -> usize {
    let mut first: BTreeMap<usize, u64> = BTreeMap::new();
    let mut last: BTreeMap<usize, u64> = BTreeMap::new();
    for (h, f) in assign.iter().enumerate() {
        let h = h as u64;
        last.insert(*f, h);
        if h >= s && h <= e {
            first.entry(*f).or_insert(h);
        }
    }
    let mut peak = 0;
    for h in s..=e {
        let n = first.iter().filter(|(f, fh)| **fh <= h && last[*f] >= h).count();
        peak = peak.max(n);
    }
    peak
}

fn trace_spec(cb: &str, s: Option<u64>, e: Option<u64>, wk: &Worker) -> RunSpec {
    let mut spec = RunSpec::new("bitcoin", cb).range(s, e);
    spec.verbosity = 2;
    spec.env.push(("FAULTFS_TRACE".into(), format!("{}/blk", wk.data().display())));
    spec.env.push(("FAULTFS_LOG".into(), wk.dir.join("shim.log").display().to_string()));
    spec
}

fn min_nofile(wk: &Worker, spec: &RunSpec) -> Option<u64> {
    // smallest RLIMIT_NOFILE under which the run succeeds (monotone: binary search)
    let ok = |n: u64| -> bool {
        let mut s = spec.clone();
        s.rlimit_nofile = n;
        wk.run(&s).ok()
    };
    let (mut lo, mut hi) = (3u64, 64u64);
    if !ok(hi) {
        return None;
    }
    while lo < hi {
        let mid = (lo + hi) / 2;
        if ok(mid) {
            hi = mid;
        } else {
            lo = mid + 1;
        }
    }
    Some(lo)
}

pub fn run() -> Report {
    let mut rep = Report::new("C17", "e3a");
    let thorough = is_thorough();
    let n = if thorough { 8 } else { 6 };
    let btc = coin("bitcoin");
    let chain = dependent_chain(btc, 0, n);
    let parts_list = partitions(n);
    let ranges: Vec<(Option<u64>, Option<u64>)> = vec![(None, None), (Some(2), None), (None, Some(3)), (Some(1), Some(4))];
    // the same heights with blocks of 33 KB .. 100 KB among small ones (larger than any read buffer a blk reader is likely to use)
    let chain_big = {
        let mut cb = refmodel::chain::ChainBuilder::with_genesis(btc);
        while cb.blocks.len() < n {
            let h = cb.next_height() as usize;
            let sz = [40_000usize, 300, 70_000, 33_000, 100, 100_000][h % 6];
            cb.push(vec![refmodel::ser::Tx { version: 1, segwit: false, inputs: vec![refmodel::ser::TxIn::spend([0xe7; 32], h as u32)], outputs: vec![refmodel::ser::TxOut { value: 5, script: vec![0x51; sz] }, refmodel::chain::pay(9, 77)], locktime: 0, wide: 0 }]);
        }
        cb
    };
    let mut cases: Vec<(Vec<usize>, (Option<u64>, Option<u64>), bool, u64, u8, bool)> = Vec::new();
    for p in &parts_list {
        cases.push((p.clone(), (None, None), false, 1, 0, true));
        cases.push((p.clone(), (Some(1), Some(4)), false, 1, 0, true));
        for r in &ranges {
            cases.push((p.clone(), *r, false, 1, 0, false));
        }
        // the same partition with the blocks of every file stored out of height order
        for order in [1u8, 2] {
            cases.push((p.clone(), (None, None), false, 1, order, false));
            cases.push((p.clone(), (Some(1), Some(4)), false, 1, order, false));
        }
        // the same partition with a stale block at the end of every file (whole range and one mid-file range)
        cases.push((p.clone(), (None, None), true, 1, 0, false));
        cases.push((p.clone(), (Some(2), None), true, 1, 0, false));
        // the same partition with file numbers k * stride
        for st in STRIDES.iter().skip(1) {
            cases.push((p.clone(), (None, None), false, *st, 0, false));
        }
    }
    rep.rule = format!("ALL {} set partitions of heights 0..{} into blk files (disjoint, overlapping and interleaved spans) x 4 range shapes, plus every partition again with a never-connected stale block (with data) appended to every file one height above that file's highest active block, with file numbers k*stride for strides 256, 4096, 65536, 2^32, 2^32+4096, with the blocks of every file stored in descending height order / highest block first, and with blocks of 33 KB to 100 KB among the small ones: (1) the syscall trace of the real binary (open/close of blk files interleaved with per-height markers) is replayed through the open-set automaton of the statement and its peak compared with the model's overlap number; (2) black box: the run must succeed under RLIMIT_NOFILE = N1 + overlap - 1 with N1 calibrated on the single-file layout; plus disjoint layouts of 200 and 1200 one-block files under N1; non-trivial = distinct (partition, range) with >= 2 files", parts_list.len(), n - 1);
    rep.bound = json!({"heights": n, "partitions": parts_list.len(), "ranges": ranges.len(), "large_layouts": [200, 1200]});
    rep.assumptions = vec!["'height yet to come' is read against the whole index (a file whose remaining blocks lie beyond --end may stay open until exit)".into()];
    let root = refmodel::world::scratch_root();
    // calibration of N1 on the single-file layout (same binary, same chain)
    let n1 = {
        let wk = Worker::new(&root, 500);
        let w = world_for(&chain, &vec![0; n]);
        if let Err(m) = wk.materialise(&w) {
            rep.machinery(m);
            return rep;
        }
        match min_nofile(&wk, &RunSpec::new("bitcoin", "csvdump")) {
            Some(x) => x,
            None => {
                // the plain run over the simplest layout fails whatever the limit: not a matter of descriptors (C01 / C03 judge it)
                rep.count("note:calibration-run-fails-under-every-descriptor-limit", 1);
    rep.exhaustive = false;
                rep.not_covered.push("the run over the single-file layout fails on this tree even with 64 descriptors: the descriptor oracles need a working reference and were not run".into());
                return rep;
            }
        }
    };
    rep.count("calibrated_N1", n1);
    let all = chain.mblocks();
    let parts = par_fold(
        &cases,
        || Report::new("C17", "e3a"),
        |w, _i, (assign, (s0, e0), stale, stride, order, big), acc| {
            let wk = Worker::new(&root, w);
            let world = world_numbered(if *big { &chain_big } else { &chain }, assign, *stale, *stride, *order);
            if *big {
                acc.count("partitions-with-blocks-larger-than-32-KiB", 1);
            }
            if *order != 0 {
                acc.count("partitions-with-blocks-stored-out-of-height-order-inside-the-files", 1);
            }
            if *stride != 1 {
                acc.count("partitions-with-strided-file-numbers", 1);
            }
            if let Err(m) = wk.materialise(&world) {
                return acc.machinery(m);
            }
            if *stale {
                acc.count("partitions-with-stale-block-at-the-end-of-every-file", 1);
            }
            let tip = n as u64 - 1;
            let (s, e) = (s0.unwrap_or(0), e0.map(|x| x.min(tip)).unwrap_or(tip));
            let nfiles = assign.iter().collect::<BTreeSet<_>>().len();
            acc.states += 1;
            if nfiles >= 2 {
                acc.nontrivial.insert(h8(format!("{:?}{:?}{:?}{}{}{}{}", assign, s0, e0, stale, stride, order, big).as_bytes()));
            }
            // oracle 1: trace
            let _ = std::fs::remove_file(wk.dir.join("shim.log"));
            let spec = trace_spec("csvdump", *s0, *e0, &wk);
            let r = wk.run(&spec);
            acc.transitions += 1;
            let log = std::fs::read_to_string(wk.dir.join("shim.log")).unwrap_or_default();
            // C17 judges descriptors only: the run must succeed; what it dumped is C01/C03/C04's business
            let mut bad: Vec<Mismatch> = expect_success(&r);
            let _ = &all;
            let tv = judge_trace(&log, assign, s, e, *stride);
            let mp = model_peak(assign, s, e);
            if tv.problems.first().map(|p| p.0 == "machinery-trace-markers").unwrap_or(false) && r.ok() {
                // the run delivered other heights than the index model says (a different chain or range was selected):
                // which heights are delivered is C02/C04's business, and without them the height->file map of this case
                // says nothing about the files the run needs. Not judged here; counted.
                acc.count("not-judged:delivered-heights-differ-from-the-layout-model", 1);
                return;
            }
            bad.extend(tv.problems.clone());
            // the statement is an upper bound: a file may be closed early and transparently reopened
            if bad.is_empty() && tv.peak > mp {
                bad.push(("peak-open-files-exceeds-overlap-number".into(), format!("trace peak {} model overlap {}", tv.peak, mp)));
            }
            if tv.peak < mp {
                acc.count("note:peak-below-model-overlap(closed-early-and-reopened)", 1);
            }
            acc.outcomes.insert(h8(format!("{}", tv.peak).as_bytes()));
            acc.count(&format!("overlap:{}", mp), 1);
            if acc.samples.is_empty() && mp >= 3 {
                acc.sample(json!({"height_to_file": assign, "range": [s, e], "trace_peak": tv.peak, "model_overlap": mp, "trace_excerpt": log.lines().filter(|l| l.starts_with("T open") || l.starts_with("T close") || l.starts_with("T marker")).take(14).map(|l| l.replace(&wk.dir.display().to_string(), "")).collect::<Vec<_>>()}));
            }
            if let Some((sig, detail)) = bad.into_iter().next() {
                acc.disagree(&format!("trace:{}", sig), format!("height->file {:?} stale-tails {} file-number-stride {} physical-order {} range {:?}..{:?}: {}", assign, stale, stride, order, s0, e0, detail), replay_case(&world, &RunSpec::new("bitcoin", "csvdump").range(*s0, *e0), json!({"height_to_file": assign, "model_overlap": mp}), &r, &wk.dir));
                return;
            }
            // oracle 2: descriptor limit (whole range and one mid-file range per partition)
            if s0.is_none() || e0.is_none() {
                let mut spec2 = RunSpec::new("bitcoin", "csvdump").range(*s0, *e0);
                spec2.rlimit_nofile = n1 + mp as u64 - 1;
                let r2 = wk.run(&spec2);
                acc.transitions += 1;
                acc.count("rlimit-runs", 1);
                if !r2.ok() {
                    acc.disagree("rlimit:run-fails-under-calibrated-descriptor-limit", format!("height->file {:?} range {:?}..{:?}: RLIMIT_NOFILE={} (N1={} + overlap {} - 1): exit {:?} {}", assign, s0, e0, spec2.rlimit_nofile, n1, mp, r2.code, r2.stderr.lines().next().unwrap_or("")), replay_case(&world, &spec2, json!({"must": "succeed"}), &r2, &wk.dir));
                }
            }
        },
    );
    for p in parts {
        rep.merge(p);
    }
    // cases whose delivered heights differ from the layout model are not judged; on layouts WITHOUT competitor blocks that
    // cannot happen unless the premise of this check is gone altogether
    let nj = rep.counters.get("not-judged:delivered-heights-differ-from-the-layout-model").copied().unwrap_or(0);
    if nj * 2 > rep.states {
        // which heights are delivered is C02 / C04's business; this check can only say that it could not look
        rep.not_covered.push(format!("{} of {} layouts could not be judged: the run delivers other heights than the layout model (a matter of C02 / C04)", nj, rep.states));
    }
    // large disjoint layouts
    for (files, obfuscated, name_style) in [(200usize, false, 0u8), (1200, false, 0), (200, true, 0), (200, false, 1), (200, false, 2)] {
        let wk = Worker::new(&root, 600);
        let big = dependent_chain(btc, 0, files);
        let assign: Vec<usize> = (0..files).collect();
        let mut world = world_for(&big, &assign);
        // the zero-padding of file names is not fixed (C03): numbers without padding, numbers padded to nine digits
        if name_style != 0 {
            for (n, f) in world.files.iter_mut() {
                f.name = if name_style == 1 { format!("blk{}.dat", n) } else { format!("blk{:09}.dat", n) };
            }
            rep.count("large-layout-with-other-file-name-padding", 1);
        }
        if obfuscated {
            // a feature that has nothing to do with descriptors (block-file obfuscation) must not change how many are held
            world.xor_key = Some(vec![0x3d, 0x9a, 0x00, 0xc7, 0x51, 0xee, 0x08, 0xb2]);
            rep.count("large-layout-obfuscated", 1);
        }
        if let Err(m) = wk.materialise(&world) {
            rep.machinery(m);
            continue;
        }
        rep.states += 1;
        rep.nontrivial.insert(h8(format!("large{}{}{}", files, obfuscated, name_style).as_bytes()));
        let mut spec = RunSpec::new("bitcoin", "csvdump");
        spec.rlimit_nofile = n1;
        let r: RunResult = wk.run(&spec);
        rep.transitions += 1;
        rep.count("large-layout-runs", 1);
        let bad = expect_success(&r);
        if let Some((sig, detail)) = bad.into_iter().next() {
            rep.disagree(&format!("rlimit:large-disjoint-layout:{}", sig), format!("{} one-block files under RLIMIT_NOFILE={}: {}", files, n1, detail.chars().take(300).collect::<String>()), json!({"kind": "e1-described", "layout": format!("{} one-block files blk00000..", files), "rlimit_nofile": n1}));
        }
        let _ = std::fs::remove_file(wk.dir.join("shim.log"));
        let r = wk.run(&trace_spec("csvdump", None, None, &wk));
        rep.transitions += 1;
        let log = std::fs::read_to_string(wk.dir.join("shim.log")).unwrap_or_default();
        let tv = judge_trace(&log, &assign, 0, files as u64 - 1, 1);
        if !r.ok() || tv.peak != 1 || !tv.problems.is_empty() {
            rep.disagree("trace:large-disjoint-layout", format!("{} files: exit {:?} peak {} problems {:?}", files, r.code, tv.peak, tv.problems.first()), json!({"kind": "e1-described", "layout": format!("{} one-block files", files)}));
        }
    }
    // the same disjoint layout far from height 0: spans that end below, straddle and lie above 2^32, and above 2^40 (a height kept
    // in a narrower integer than the index stores never reaches a file's last height, or reaches it too early); --start at
    // the first height of the layout. Black-box oracle only: the run must get by with the calibrated descriptor limit.
    for base in [(1u64 << 32) - 100, 1 << 32, (1 << 40) + 5, (1 << 16) - 100, (1 << 31) - 100] {
        let files = 200usize;
        let wk = Worker::new(&root, 602);
        let big = dependent_chain(btc, base, files);
        let assign: Vec<usize> = (0..files).collect();
        let world = world_for(&big, &assign);
        if let Err(m) = wk.materialise(&world) {
            rep.machinery(m);
            continue;
        }
        rep.states += 1;
        rep.nontrivial.insert(h8(format!("large-high{}", base).as_bytes()));
        let mut spec = RunSpec::new("bitcoin", "csvdump").range(Some(base), None);
        spec.rlimit_nofile = n1;
        let r: RunResult = wk.run(&spec);
        rep.transitions += 1;
        rep.count("large-layout-runs-at-high-heights", 1);
        if let Some((sig, detail)) = expect_success(&r).into_iter().next() {
            rep.disagree(&format!("rlimit:large-disjoint-layout-at-high-heights:{}", sig), format!("{} one-block files holding heights {}.. under RLIMIT_NOFILE={}: {}", files, base, n1, detail.chars().take(300).collect::<String>()), json!({"kind": "e1-described", "layout": format!("{} one-block files, first height {}", files, base)}));
        }
        wk.cleanup();
    }
    // long chains: several blocks per file, more blocks than a difficulty period (2016) / a halving-sized stretch of heights,
    // so that anything the driver does "every N blocks" (look-backs that reopen an old file, periodic re-reads) happens a few times
    let long_layouts: Vec<(usize, usize)> = if thorough { vec![(6_200, 310), (12_200, 40), (70_000, 5_000)] } else { vec![(6_200, 310)] };
    for (blocks, per_file) in long_layouts {
        let wk = Worker::new(&root, 601);
        let big = crate::c03::uniform_chain(blocks);
        let assign: Vec<usize> = (0..blocks).map(|h| h / per_file).collect();
        let world = world_for(&big, &assign);
        if let Err(m) = wk.materialise(&world) {
            rep.machinery(m);
            continue;
        }
        rep.states += 1;
        rep.nontrivial.insert(h8(format!("long{}/{}", blocks, per_file).as_bytes()));
        let desc = json!({"kind": "e1-described", "layout": format!("{} blocks, {} per file, files in height order", blocks, per_file), "rlimit_nofile": n1});
        let mut spec = RunSpec::new("bitcoin", "unspentcsvdump");
        spec.rlimit_nofile = n1;
        spec.env.push(("VERIF_RUN_TIMEOUT".into(), "600".into()));
        let r: RunResult = wk.run(&spec);
        rep.transitions += 1;
        rep.count("long-layout-runs", 1);
        if let Some((sig, detail)) = expect_success(&r).into_iter().next() {
            rep.disagree(&format!("rlimit:long-layout:{}", sig), format!("{} blocks in files of {} under RLIMIT_NOFILE={}: {}", blocks, per_file, n1, detail.chars().take(300).collect::<String>()), desc.clone());
        }
        let _ = std::fs::remove_file(wk.dir.join("shim.log"));
        let mut ts = trace_spec("unspentcsvdump", None, None, &wk);
        ts.env.push(("VERIF_RUN_TIMEOUT".into(), "600".into()));
        let r = wk.run(&ts);
        rep.transitions += 1;
        let log = std::fs::read_to_string(wk.dir.join("shim.log")).unwrap_or_default();
        let tv = judge_trace(&log, &assign, 0, blocks as u64 - 1, 1);
        if !r.ok() || tv.peak != 1 || !tv.problems.is_empty() {
            rep.disagree("trace:long-layout", format!("{} blocks in files of {}: exit {:?} peak {} problems {:?}", blocks, per_file, r.code, tv.peak, tv.problems.first()), desc);
        }
        wk.cleanup();
    }
    let _ = std::fs::remove_dir_all(&root);
    rep
}
