//! C01 — csvdump reproduces every on-disk field (E1; bounded-exhaustive chain shapes against the reference model).
use crate::hx::{replay_case, Worker};
use crate::oracle::*;
use refmodel::chain::{coinbase, pay, ChainBuilder, COIN_VALUE};
use refmodel::coins::{coin, genesis, Coin, COINS};
use refmodel::ev::{h8, is_thorough, par_fold, Report};
use refmodel::run::RunSpec;
use refmodel::script;
use refmodel::ser::{Block, Tx, TxIn, TxOut};
use refmodel::world::World;
use serde_json::json;

#[derive(Clone, Debug)]
pub struct TxP {
    pub version: u32,
    pub segwit: bool,
    pub sig_lens: Vec<usize>,
    pub spk_lens: Vec<usize>,
    /// the outputs are data carriers with long UTF-8 texts (refmodel::families::utf8_alignment_payloads) instead
    pub text_outputs: bool,
    /// witness item lengths per input (used when segwit)
    pub wit: Vec<Vec<usize>>,
    pub sequence: u32,
    pub prev_index: u32,
    pub locktime: u32,
    pub value: u64,
    /// see refmodel::ser::Tx::wide (CompactSize fields stored wider than necessary)
    pub wide: u8,
}

impl TxP {
    pub fn base() -> TxP {
        TxP { version: 1, segwit: false, sig_lens: vec![1], spk_lens: vec![25], text_outputs: false, wit: vec![], sequence: 0xffff_fffe, prev_index: 0, locktime: 0, value: 1000, wide: 0 }
    }
    pub fn build(&self, seed: u8) -> Tx {
        let spk = |n: usize, k: usize| -> Vec<u8> {
            match n {
                25 => script::p2pkh(&script::h20(seed.wrapping_add(k as u8))),
                n => vec![0x51; n],
            }
        };
        let inputs = self
            .sig_lens
            .iter()
            .enumerate()
            .map(|(i, l)| {
                let mut txid = [0u8; 32];
                txid.copy_from_slice(&script::filler(seed.wrapping_add(i as u8).wrapping_add(77), 32));
                let witness = if self.segwit { self.wit.get(i).cloned().unwrap_or_default().iter().enumerate().map(|(j, l)| vec![0xa0u8.wrapping_add(j as u8); *l]).collect() } else { vec![] };
                TxIn { prev_txid: txid, prev_index: self.prev_index.wrapping_add(i as u32), script_sig: vec![0x51; *l], sequence: self.sequence, witness }
            })
            .collect();
        let outputs = if self.text_outputs {
            refmodel::families::utf8_alignment_payloads(200).into_iter().enumerate().map(|(k, (_, d))| TxOut { value: k as u64, script: script::op_return(&d) }).collect()
        } else {
            self.spk_lens.iter().enumerate().map(|(k, l)| TxOut { value: self.value.wrapping_add(k as u64), script: spk(*l, k) }).collect()
        };
        Tx { version: self.version, segwit: self.segwit, inputs, outputs, locktime: self.locktime, wide: self.wide }
    }
}

#[derive(Clone, Debug)]
struct Case {
    coin: &'static str,
    verify: bool,
    /// non-coinbase txs of the middle block
    txs: Vec<TxP>,
    /// header overrides for the middle block: (version, time, bits, nonce)
    hdr: Option<(u32, u32, u32, u32)>,
    n_blocks: usize,
    label: String,
}

fn product_shapes(ns: &[usize]) -> Vec<TxP> {
    let mut v = Vec::new();
    for segwit in [false, true] {
        for &n_in in ns {
            for &n_out in ns {
                for sig in [0usize, 1, 0xfc, 0xfd] {
                    for spk in [0usize, 25, 0xfc, 0xfd] {
                        let wits: Vec<Vec<usize>> = if segwit { vec![vec![], vec![0], vec![1, 2]] } else { vec![vec![]] };
                        for w in wits {
                            let mut p = TxP::base();
                            p.segwit = segwit;
                            p.sig_lens = vec![sig; n_in];
                            p.spk_lens = vec![spk; n_out];
                            p.wit = vec![w.clone(); n_in];
                            v.push(p);
                        }
                    }
                }
            }
        }
    }
    v
}

/// Transactions and blocks whose hashes and fields carry particular byte patterns (found by grinding lock time / nonce):
/// txids that begin or end with zero bytes, with 0xff, with the bytes of ';', '"', ',' and line feed; previous-output hashes of
/// all zero / all 0xff / a single non-zero byte; values 0, 1, equal, powers of two, top bit set; block hashes with two
/// zero bytes at either end (real block hashes are displayed with many leading zeros).
fn ground_chain(coin: &'static Coin) -> ChainBuilder {
    let mut cb = ChainBuilder::with_genesis(coin);
    let grind_tx = |mut tx: Tx, pred: &dyn Fn(&[u8; 32]) -> bool| -> Tx {
        for lt in 0..2_000_000u32 {
            tx.locktime = lt;
            if pred(&tx.txid()) {
                return tx;
            }
        }
        tx
    };
    let mk = |k: u8, prev: [u8; 32], idx: u32, values: Vec<u64>| Tx { version: 1, segwit: false, inputs: vec![TxIn { prev_txid: prev, prev_index: idx, script_sig: vec![0x51; 2], sequence: 0x8000_0000 | k as u32, witness: vec![] }], outputs: values.into_iter().enumerate().map(|(i, v)| TxOut { value: v, script: script::p2pkh(&script::h20(k.wrapping_mul(7).wrapping_add(i as u8))) }).collect(), locktime: 0, wide: 0 };
    let mut one = [0u8; 32];
    one[31] = 1;
    let mut txs = vec![coinbase(1, 1, vec![pay(9, 50 * COIN_VALUE)])];
    let preds: Vec<Box<dyn Fn(&[u8; 32]) -> bool>> = vec![
        Box::new(|h| h[0] == 0),
        Box::new(|h| h[31] == 0),
        Box::new(|h| h[0] == 0 && h[1] == 0),
        Box::new(|h| h[31] == 0 && h[30] == 0),
        Box::new(|h| h[0] == 0xff),
        Box::new(|h| h[31] == 0xff),
        Box::new(|h| h[31] == b';'),
        Box::new(|h| h[31] == b'\n'),
        Box::new(|h| h[0] == b'"' && h[31] == b','),
        Box::new(|h| h[31] < 0x10 && h[30] < 0x10),
    ];
    let prevs = [[0u8; 32], [0xff; 32], one, [0x0a; 32], [0x3b; 32]];
    let values: Vec<Vec<u64>> = vec![vec![0, 0], vec![1, 1], vec![1 << 63, 1 << 63], vec![u64::MAX, 0], vec![1 << 32, (1 << 32) - 1], vec![10, 100, 1000], vec![0x8000_0000, 0x7fff_ffff], vec![COIN_VALUE, COIN_VALUE], vec![1 << 53, (1 << 53) + 1], vec![0x3b, 0x0a]];
    for (k, pred) in preds.iter().enumerate() {
        let tx = grind_tx(mk(k as u8, prevs[k % prevs.len()], if k % 2 == 0 { 0 } else { 0xffff_ffff }, values[k].clone()), pred.as_ref());
        txs.push(tx);
    }
    let grind_block = |cb: &ChainBuilder, txs: Vec<Tx>, pred: &dyn Fn(&[u8; 32]) -> bool| -> Block {
        let prev = cb.tip_hash();
        let mut b = Block::build(1, prev, 0x8000_0000, 0x1d00ffff, 0, txs);
        for nonce in 0..4_000_000u32 {
            b.header.nonce = nonce;
            if pred(&b.hash()) {
                break;
            }
        }
        b
    };
    let b1 = grind_block(&cb, txs, &|h| h[31] == 0 && h[30] == 0);
    cb.blocks.push(b1);
    let b2 = grind_block(&cb, vec![coinbase(2, 2, vec![pay(9, 0)])], &|h| h[0] == 0 && h[1] == 0);
    cb.blocks.push(b2);
    let b3 = grind_block(&cb, vec![coinbase(3, 3, vec![pay(9, 1)])], &|h| h[31] == 0xff);
    cb.blocks.push(b3);
    cb
}

fn build_chain(c: &Case, coin: &'static Coin) -> (ChainBuilder, Option<u64>) {
    // returns chain and --start (noteblockchain/verify needs start 1)
    if c.label == "ground-patterns" {
        return (ground_chain(coin), if c.verify && genesis(coin).is_none() { Some(1) } else { None });
    }
    let mut cb = ChainBuilder::with_genesis(coin);
    // merged-mined blocks: version at the coin's activation version, an AuxPoW section in front of the transactions whose
    // parent-hash field is whatever the parent chain's node wrote there (Namecoin Core writes zeros; nothing in the block's
    // own hash, transactions or links depends on it)
    let merged = c.label.starts_with("merged-mined") && coin.auxpow_from.is_some();
    if merged {
        cb.version = coin.auxpow_from.unwrap() + 3;
    }
    for h in 1..c.n_blocks {
        if h == 1 {
            let mut txs = vec![coinbase(h as u64, 1, vec![pay(9, 50 * COIN_VALUE)])];
            for (k, p) in c.txs.iter().enumerate() {
                txs.push(p.build((k * 13 + 5) as u8));
            }
            if let Some((v, t, b, n)) = c.hdr {
                let prev = cb.tip_hash();
                let blk = Block::build(v, prev, t, b, n, txs);
                cb.blocks.push(blk);
            } else {
                cb.push_raw(txs);
            }
        } else {
            cb.push(vec![]);
        }
    }
    // the block's own transaction count stored in a wider CompactSize form (blocks 1.. in turn 0xfd / 0xfe / 0xff forms)
    if let Some(w) = c.label.strip_prefix("wide-txcount w") {
        let w: u8 = w.split(' ').next().and_then(|x| x.parse().ok()).unwrap_or(1);
        for (i, b) in cb.blocks.iter_mut().enumerate().skip(1) {
            b.txcount_wide = if w == 0 { 1 + (i as u8 % 3) } else { w };
        }
    }
    if merged {
        for (i, b) in cb.blocks.iter_mut().enumerate().skip(1) {
            b.auxpow = Some(refmodel::ser::AuxPow {
                parent_coinbase: coinbase(7, 7, vec![pay(7, 7)]),
                parent_hash: if i % 2 == 1 { [0u8; 32] } else { [0x5e; 32] },
                coinbase_branch: vec![[1; 32]; i],
                coinbase_mask: 1,
                chain_branch: vec![],
                chain_mask: 0,
                branch_wide: 0,
                parent_header: refmodel::ser::Header { version: 2, prev: [3; 32], merkle: [4; 32], time: 5, bits: 6, nonce: 7 },
            });
        }
    }
    let start = if c.verify && genesis(coin).is_none() { Some(1) } else { None };
    (cb, start)
}

pub fn run() -> Report {
    let mut rep = Report::new("C01", "e1");
    let thorough = is_thorough();
    let mut cases: Vec<Case> = Vec::new();
    let base = TxP::base();
    // (a) full product of the core shape alphabet
    let prod_coins: Vec<&str> = if thorough { COINS.iter().map(|c| c.name).collect() } else { vec!["bitcoin", "dogecoin", "litecoin", "namecoin"] };
    for cn in &prod_coins {
        for verify in [false, true] {
            for (i, p) in product_shapes(&[1, 2]).into_iter().enumerate() {
                cases.push(Case { coin: cn, verify, txs: vec![p], hdr: None, n_blocks: 3, label: format!("product#{}", i) });
            }
        }
    }
    if thorough {
        for (i, p) in product_shapes(&[1, 2, 3]).into_iter().enumerate() {
            cases.push(Case { coin: "bitcoin", verify: false, txs: vec![p], hdr: None, n_blocks: 4, label: format!("product3#{}", i) });
        }
    }
    // (b) base shape on all 8 coins, both verify modes, 1..4 blocks
    for c in COINS.iter() {
        for verify in [false, true] {
            for n in [2usize, 3, 4] {
                cases.push(Case { coin: c.name, verify, txs: vec![base.clone()], hdr: None, n_blocks: n, label: format!("base/{}blocks", n) });
            }
        }
    }
    // (c) ordered pairs of a reduced shape set in one block (row order across transactions)
    let reduced: Vec<TxP> = product_shapes(&[1, 2]).into_iter().filter(|p| p.sig_lens[0] <= 1 && p.spk_lens[0] == 25 && p.sig_lens.len() == p.spk_lens.len() && (!p.segwit || p.wit[0].len() != 1)).collect();
    for (i, a) in reduced.iter().enumerate() {
        for (j, b) in reduced.iter().enumerate() {
            cases.push(Case { coin: "bitcoin", verify: true, txs: vec![a.clone(), b.clone()], hdr: None, n_blocks: 3, label: format!("pair#{}x{}", i, j) });
        }
    }
    if thorough {
        // (c') ordered pairs over the FULL shape product (not the reduced set), alternating between a coin with and a coin
        // without merged mining and between the verify modes; the three-count product on three more coin / verify combinations
        let full = product_shapes(&[1, 2]);
        for (i, a) in full.iter().enumerate() {
            for (j, b) in full.iter().enumerate() {
                let coin = if (i + j) % 2 == 0 { "bitcoin" } else { "dogecoin" };
                cases.push(Case { coin, verify: (i + 2 * j) % 3 != 0, txs: vec![a.clone(), b.clone()], hdr: None, n_blocks: 3, label: format!("fullpair#{}x{}", i, j) });
            }
        }
        for (coin, verify) in [("bitcoin", true), ("litecoin", false), ("namecoin", true)] {
            for (i, p) in product_shapes(&[1, 2, 3]).into_iter().enumerate() {
                cases.push(Case { coin, verify, txs: vec![p], hdr: None, n_blocks: 4, label: format!("product3/{}#{}", coin, i) });
            }
        }
    }
    // (d) one-dimension CompactSize boundary sweeps
    // (the CompactSize widths, and the powers of two with their neighbours: sizes at which chunked reads, batches and table
    // sizes of an implementation end - a count of exactly 256 or 4096 is as much "any count" as 253)
    let bounds: Vec<usize> = vec![0xfc, 0xfd, 0xfe, 0xffff, 0x10000, 127, 128, 129, 255, 256, 257, 511, 512, 513, 1023, 1024, 1025, 4095, 4096, 4097, 32_767, 32_768, 32_769];
    for &n in &bounds {
        // txs per block: n txs in total (coinbase + n-1)
        cases.push(Case { coin: "bitcoin", verify: true, txs: vec![base.clone(); n - 1], hdr: None, n_blocks: 3, label: format!("txs_per_block={:#x}", n) });
        let mut p = base.clone();
        p.sig_lens = vec![1; n];
        cases.push(Case { coin: "bitcoin", verify: true, txs: vec![p], hdr: None, n_blocks: 3, label: format!("inputs={:#x}", n) });
        let mut p = base.clone();
        p.spk_lens = vec![25; n];
        cases.push(Case { coin: "bitcoin", verify: true, txs: vec![p], hdr: None, n_blocks: 3, label: format!("outputs={:#x}", n) });
        let mut p = base.clone();
        p.sig_lens = vec![n];
        cases.push(Case { coin: "bitcoin", verify: true, txs: vec![p], hdr: None, n_blocks: 3, label: format!("scriptsig_len={:#x}", n) });
        let mut p = base.clone();
        p.spk_lens = vec![n];
        cases.push(Case { coin: "bitcoin", verify: true, txs: vec![p], hdr: None, n_blocks: 3, label: format!("scriptpubkey_len={:#x}", n) });
        let mut p = base.clone();
        p.segwit = true;
        p.wit = vec![vec![1; n]];
        cases.push(Case { coin: "bitcoin", verify: true, txs: vec![p], hdr: None, n_blocks: 3, label: format!("witness_items={:#x}", n) });
        let mut p = base.clone();
        p.segwit = true;
        p.wit = vec![vec![n, 3]];
        cases.push(Case { coin: "bitcoin", verify: true, txs: vec![p], hdr: None, n_blocks: 3, label: format!("witness_item_len={:#x}", n) });
    }
    // merged-mined chains of the two AuxPoW coins, with and without --verify
    for coin in ["namecoin", "dogecoin"] {
        for verify in [false, true] {
            cases.push(Case { coin, verify, txs: vec![base.clone(), base.clone()], hdr: None, n_blocks: 4, label: "merged-mined blocks".into() });
        }
    }
    // mixed spends: witness stacks that differ from input to input - empty first, in the middle, last (an input without witness
    // data has an empty stack, it does not end the witness section)
    for (k, stacks) in [vec![vec![], vec![2usize, 3]], vec![vec![2, 3], vec![], vec![1]], vec![vec![2, 3], vec![]], vec![vec![], vec![], vec![72, 33]], vec![vec![0], vec![], vec![0, 0], vec![], vec![5]]].into_iter().enumerate() {
        for coin in ["bitcoin", "litecoin"] {
            let mut p = base.clone();
            p.segwit = true;
            p.sig_lens = vec![1; stacks.len()];
            p.wit = stacks.clone();
            // two of them in one block, an ordinary transaction behind them (a reader that runs out of step shows there)
            cases.push(Case { coin, verify: k % 2 == 0, txs: vec![p.clone(), base.clone(), p], hdr: None, n_blocks: 3, label: format!("mixed witness stacks #{}", k) });
        }
    }
    // data-carrier outputs with long texts: multi-byte characters across every byte offset up to 200
    for coin in ["bitcoin", "testnet3", "litecoin", "dogecoin"] {
        let mut p = base.clone();
        p.text_outputs = true;
        cases.push(Case { coin, verify: coin != "testnet3", txs: vec![p], hdr: None, n_blocks: 3, label: "utf8 texts in data-carrier outputs".into() });
    }
    // items far beyond any reader buffer / chunk size: 1 MiB + 1 and 2.5 MiB scripts and witness items
    for n in [1_048_577usize, 2_621_440] {
        let mut p = base.clone();
        p.sig_lens = vec![n];
        cases.push(Case { coin: "bitcoin", verify: true, txs: vec![p], hdr: None, n_blocks: 3, label: format!("scriptsig_len={:#x}", n) });
        let mut p = base.clone();
        p.spk_lens = vec![n, 25];
        cases.push(Case { coin: "litecoin", verify: true, txs: vec![p], hdr: None, n_blocks: 3, label: format!("scriptpubkey_len={:#x}", n) });
        let mut p = base.clone();
        p.segwit = true;
        p.wit = vec![vec![3, n, 2]];
        cases.push(Case { coin: "bitcoin", verify: true, txs: vec![p], hdr: None, n_blocks: 3, label: format!("witness_item_len={:#x}", n) });
    }
    if thorough {
        // one 100 KB script; pairwise combination of two boundary dimensions
        let mut p = base.clone();
        p.spk_lens = vec![100_000];
        cases.push(Case { coin: "bitcoin", verify: true, txs: vec![p], hdr: None, n_blocks: 3, label: "scriptpubkey_len=100000".into() });
        for a in [0xfcusize, 0xfd] {
            for b in [0xfcusize, 0xfd] {
                let dims = 6;
                for d1 in 0..dims {
                    for d2 in d1 + 1..dims {
                        let mut p = base.clone();
                        p.segwit = true;
                        p.wit = vec![vec![1]];
                        let mut set = |d: usize, n: usize, p: &mut TxP| match d {
                            0 => {
                                let w = p.wit[0].clone();
                                p.sig_lens = vec![p.sig_lens[0]; n];
                                p.wit = vec![w; n];
                            }
                            1 => p.spk_lens = vec![p.spk_lens[0]; n],
                            2 => p.sig_lens = vec![n; p.sig_lens.len()],
                            3 => p.spk_lens = vec![n; p.spk_lens.len()],
                            4 => p.wit = vec![vec![1; n]; p.sig_lens.len()],
                            _ => p.wit = vec![vec![n]; p.sig_lens.len()],
                        };
                        set(d1, a, &mut p);
                        set(d2, b, &mut p);
                        cases.push(Case { coin: "litecoin", verify: true, txs: vec![p], hdr: None, n_blocks: 3, label: format!("pairwise d{}={:#x} d{}={:#x}", d1, a, d2, b) });
                    }
                }
            }
        }
    }
    // (e) u32 / u64 field value sweeps
    let u32s = [0u32, 1, 0x7fff_ffff, 0x8000_0000, 0xffff_ffff];
    for &x in &u32s {
        if x != 0 {
            // header time 0 is excluded nowhere in C01 but keep time >= 1 for readability of other figures
        }
        cases.push(Case { coin: "bitcoin", verify: true, txs: vec![base.clone()], hdr: Some((1, x, 0x1d00ffff, 7)), n_blocks: 3, label: format!("nTime={:#x}", x) });
        cases.push(Case { coin: "bitcoin", verify: true, txs: vec![base.clone()], hdr: Some((1, 1_600_000_999, x, 7)), n_blocks: 3, label: format!("nBits={:#x}", x) });
        cases.push(Case { coin: "bitcoin", verify: true, txs: vec![base.clone()], hdr: Some((1, 1_600_000_999, 0x1d00ffff, x)), n_blocks: 3, label: format!("nNonce={:#x}", x) });
        let mut p = base.clone();
        p.locktime = x;
        cases.push(Case { coin: "bitcoin", verify: true, txs: vec![p], hdr: None, n_blocks: 3, label: format!("lockTime={:#x}", x) });
        let mut p = base.clone();
        p.sequence = x;
        cases.push(Case { coin: "bitcoin", verify: true, txs: vec![p], hdr: None, n_blocks: 3, label: format!("sequence={:#x}", x) });
        let mut p = base.clone();
        p.prev_index = x;
        cases.push(Case { coin: "bitcoin", verify: true, txs: vec![p], hdr: None, n_blocks: 3, label: format!("indexPrevOut={:#x}", x) });
    }
    // (versions are 4-byte fields like the others: the upper half of their range is part of "every field equals the value
    // serialized on disk ... integers decimal" - HEAD prints them as the unsigned numbers they are stored as)
    for v in [1u32, 2, 0x7fff_ffff, 0x8000_0000, 0x8000_0002, 0x8265_0cc0, 0xffff_ffff] {
        cases.push(Case { coin: "bitcoin", verify: true, txs: vec![base.clone()], hdr: Some((v, 1_600_000_999, 0x1d00ffff, 7)), n_blocks: 3, label: format!("block_version={:#x}", v) });
        let mut p = base.clone();
        p.version = v;
        cases.push(Case { coin: "bitcoin", verify: true, txs: vec![p], hdr: None, n_blocks: 3, label: format!("tx_version={:#x}", v) });
    }
    for val in [0u64, 1, (1 << 63) - 1, 1 << 63, u64::MAX] {
        let mut p = base.clone();
        p.value = val;
        cases.push(Case { coin: "bitcoin", verify: true, txs: vec![p], hdr: None, n_blocks: 3, label: format!("value={:#x}", val) });
    }
    for coin in ["bitcoin", "litecoin", "dogecoin"] {
        for w in 0..=3u8 {
            for verify in [false, true] {
                for n_tx in [0usize, 1, 3] {
                    cases.push(Case { coin, verify, txs: vec![TxP::base(); n_tx], hdr: None, n_blocks: 4, label: format!("wide-txcount w{} txs={}", w, n_tx + 1) });
                }
            }
        }
    }
    // counts and lengths stored in a wider CompactSize form than they need (fd / fe / ff prefix), all four kinds at once and
    // one kind at a time: the fields decode to the same values, txid and merkle root are those of the bytes as stored
    for coin in ["bitcoin", "litecoin"] {
        for width in 1..=3u8 {
            for fields in [0u8, 1, 2, 4, 8] {
                for segwit in [false, true] {
                    let mut p = TxP::base();
                    p.wide = width | (fields << 2);
                    p.segwit = segwit;
                    p.sig_lens = vec![2, 0];
                    p.spk_lens = vec![25, 3];
                    p.wit = vec![vec![1], vec![]];
                    cases.push(Case { coin, verify: true, txs: vec![TxP::base(), p, TxP::base()], hdr: None, n_blocks: 3, label: format!("wide-compactsize w{} f{} segwit={}", width, fields, segwit) });
                }
            }
        }
    }
    // alignment: a segwit transaction with witness data and a legacy one, shifted byte by byte (220 positions) across the
    // 32 KiB mark of their block by the length of a filler script in front of them - every field straddles a buffer refill once
    for shift in 0..220usize {
        let mut filler = TxP::base();
        filler.spk_lens = vec![32_768 - 300 + shift];
        let mut sw = TxP::base();
        sw.segwit = true;
        sw.sig_lens = vec![3, 0];
        sw.spk_lens = vec![25, 4];
        sw.wit = vec![vec![2, 33], vec![]];
        cases.push(Case { coin: if shift % 2 == 0 { "bitcoin" } else { "litecoin" }, verify: shift % 3 == 0, txs: vec![filler, sw, TxP::base()], hdr: None, n_blocks: 3, label: format!("alignment shift {}", shift) });
    }
    // a blocks directory like a real one: hundreds of blk files, of which the range touches one; descriptor limit 48
    for verify in [false, true] {
        cases.push(Case { coin: "bitcoin", verify, txs: vec![TxP::base()], hdr: None, n_blocks: 3, label: "300-other-blk-files".into() });
    }
    for coin in ["bitcoin", "litecoin", "dogecoin"] {
        for verify in [false, true] {
            cases.push(Case { coin, verify, txs: vec![], hdr: None, n_blocks: 4, label: "ground-patterns".into() });
        }
    }
    rep.rule = "product of the core tx-shape alphabet (segwit x n_in x n_out x |scriptSig| x |scriptPubKey| x witness-stack shape) as 2nd tx of the middle block, ordered shape pairs in one block, one-dimension CompactSize boundary sweeps (0xfc,0xfd,0xfe,0xffff,0x10000) for 7 count/length dimensions, u32/u64 field value sweeps; counts and lengths stored in wider CompactSize forms than needed (3 widths x {all, input count, output count, scriptSig length, scriptPubKey length} x legacy/segwit; the block's transaction count in each of the 3 wider forms, 3 coins); two transactions shifted byte by byte (220 positions) across the 32 KiB mark of their block; a chain of ground byte patterns (txids / block hashes beginning or ending with 00, 0000, ff, the bytes of ; \" , and line feed, previous-output hashes of all 00 / ff, values 0, 1, equal, 2^63, 2^64-1, top-bit-set sequence numbers and block time); x coins x --verify; non-trivial = distinct case whose run wrote at least 2 block rows".into();
    rep.bound = json!({"cases": cases.len(), "product_coins": prod_coins, "blocks": "2..4", "max_count": "0x10000", "max_item_bytes": 2621440});
    rep.not_covered = vec!["counts >= 2^32 (9-byte CompactSize)".into(), "tx/block versions >= 2^31".into()];
    let root = refmodel::world::scratch_root();
    let parts = par_fold(
        &cases,
        || Report::new("C01", "e1"),
        |w, i, c, acc| {
            let wk = Worker::new(&root, w);
            let cn = coin(c.coin);
            let (chain, start) = build_chain(c, cn);
            // every other case spread over two blk files (height order leaves a file and returns to the adjacent block)
            let mut world = World::laid_out(cn, &chain.blocks, 0, i);
            // every fifth case in an obfuscated directory; the keys carry particular byte values (a zero byte, 0xff, a lone 1)
            if i % 5 == 2 {
                world.xor_key = Some(match (i / 5) % 3 {
                    0 => vec![0x5a, 0x31, 0x13, 0x00, 0x88, 0x9e, 0x21, 0xf4],
                    1 => vec![0xff; 8],
                    _ => vec![0, 0, 0, 0, 0, 0, 0, 1],
                });
            }
            let mut spec = RunSpec::new(c.coin, "csvdump").verify(c.verify).range(start, None);
            if c.label == "300-other-blk-files" {
                // well-formed blk files (a block of another chain each) that no index record names
                let other = crate::c03::uniform_block(7, [0x31; 32]).ser();
                for n in 100..400u64 {
                    let magic = cn.magic;
                    let f = world.file(n);
                    f.append(&magic.to_le_bytes());
                    f.append(&(other.len() as u32).to_le_bytes());
                    f.append(&other);
                }
                spec.rlimit_nofile = 48;
            }
            // options that have nothing to do with the content of the dump: every third case at another verbosity
            spec.verbosity = [0u8, 0, 3][i % 3];
            spec.env.push(("VERIF_PATH_FORM".into(), ((i / 3) % 10).to_string()));
            // ... and the passage of time is an input too: every fourth case under a virtual monotonic clock (a status
            // line falls due after every block, after every tenth, never; a machine suspended for an hour between blocks)
            if i % 4 == 1 {
                let step = ["11000000000", "3600000000000", "1000000000", "0"][(i / 4) % 4];
                spec.env.push(("VERIF_CLOCK_STEP".into(), step.into()));
                acc.count(&format!("virtual-clock-step-ns:{}", step), 1);
            }
            if let Err(m) = wk.materialise(&world) {
                acc.machinery(m);
                return;
            }
            // every seventh case starts from a dump folder with the long *.csv.tmp leftovers of an aborted earlier dump
            let r = if i % 7 == 3 {
                wk.fresh_dump();
                let junk: String = (0..300).map(|k| format!("{:064x};{};{};{};leftover\n", k, k, k, k)).collect();
                for n in ["blocks.csv.tmp", "transactions.csv.tmp", "tx_in.csv.tmp", "tx_out.csv.tmp"] {
                    std::fs::write(wk.dump().join(n), &junk).unwrap();
                }
                acc.count("dump-folder-with-leftover-tmp-files", 1);
                wk.run_keep(&spec)
            } else {
                wk.run(&spec)
            };
            acc.states += 1;
            acc.transitions += 1;
            let s = r.declared_start().unwrap_or(start.unwrap_or(0));
            let e = r.declared_end().unwrap_or(chain.blocks.len() as u64 - 1);
            let range = in_range(&chain.mblocks(), s, e);
            let bad = check_csvdump(&r, cn, &range, s, e);
            if range.len() >= 2 && r.ok() {
                acc.nontrivial.insert(h8(format!("{:?}", c).as_bytes()));
            }
            acc.outcomes.insert(h8(&r.files.values().flat_map(|v| refmodel::hash::sha256(v).to_vec()).collect::<Vec<u8>>()));
            acc.count(&format!("coin:{}", c.coin), 1);
            acc.count(if c.verify { "verify:on" } else { "verify:off" }, 1);
            acc.count(c.label.split(['#', '=', '/']).next().unwrap_or("?"), 1);
            if acc.samples.is_empty() {
                acc.sample(json!({"coin": c.coin, "verify": c.verify, "label": c.label, "middle_block_txs": c.txs.iter().take(2).map(|p| format!("{:?}", p)).collect::<Vec<_>>()}));
            }
            if let Some((sig, detail)) = bad.into_iter().next() {
                // keep replay files small: huge worlds are described, not embedded
                let rc = if world.files.values().map(|f| f.len).sum::<u64>() > 300_000 {
                    json!({"kind": "e1-described", "case": format!("{:?}", (c.coin, c.verify, &c.label)), "spec": spec.describe()})
                } else {
                    replay_case(&world, &spec, expected_brief("csvdump == model", s, e), &r, &wk.dir)
                };
                acc.disagree(&sig, format!("{} {} verify={}: {}", c.coin, c.label, c.verify, detail), rc);
            }
        },
    );
    for p in parts {
        rep.merge(p);
    }
    // (f) "blocksize = the stored length prefix": records whose prefix is larger than the serialised block (padding inside
    // the record), index status carrying OPT_WITNESS (two-byte VarInt status)
    {
        use refmodel::world::{IndexRec, ACTIVE, HAVE_DATA, OPT_WITNESS, VALID_SCRIPTS};
        let wk = Worker::new(&root, 700);
        for cname in ["bitcoin", "litecoin"] {
            let cn = coin(cname);
            let mut cb = ChainBuilder::with_genesis(cn);
            cb.push(vec![TxP::base().build(3)]);
            cb.push(vec![TxP::base().build(4)]);
            let mut world = World::new(cn);
            let mut ms = Vec::new();
            for (h, b) in cb.blocks.iter().enumerate() {
                let mut raw = b.ser();
                let pad = [0usize, 8, 1][h % 3];
                let prefix = (raw.len() + pad) as u32;
                raw.extend(std::iter::repeat(0u8).take(pad));
                let pos = world.place_raw(0, &raw, prefix);
                world.put_rec(&IndexRec { hash: b.hash(), client_version: 270000, height: h as u64, status: if h == 0 { VALID_SCRIPTS | HAVE_DATA } else { ACTIVE | OPT_WITNESS }, ntx: b.txs.len() as u64, file: 0, data_pos: pos, undo_pos: 9, header: b.header.ser() });
                ms.push(refmodel::model::MBlock { height: h as u64, size: prefix, block: b.clone() });
            }
            let spec = RunSpec::new(cname, "csvdump").verify(true);
            match wk.world_run(&world, &spec) {
                Err(m) => rep.machinery(m),
                Ok(r) => {
                    rep.states += 1;
                    rep.transitions += 1;
                    rep.count("stored-size-prefix-differs-from-serialised-length", 1);
                    rep.nontrivial.insert(h8(format!("prefix{}", cname).as_bytes()));
                    if let Some((sig, detail)) = check_csvdump(&r, cn, &ms, 0, 2).into_iter().next() {
                        rep.disagree(&format!("stored-prefix:{}", sig), format!("{}: {}", cname, detail), replay_case(&world, &spec, expected_brief("blocksize column = stored prefix", 0, 2), &r, &wk.dir));
                    }
                }
            }
        }
    }
    let _ = std::fs::remove_dir_all(&root);
    rep
}
