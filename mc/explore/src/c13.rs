//! C13 (E1 part) — (b) all histories of runs sharing one dump folder and one data directory, BFS depth 3;
//! (c) free-running conformance of the schedule explorer's outcome set with the real rayon (sampling, labelled).
use crate::gen::dependent_chain;
use crate::hx::{replay_case, Worker};
use crate::oracle::*;
use refmodel::chain::{coinbase, pay, ChainBuilder, COIN_VALUE};
use refmodel::coins::coin;
use refmodel::ev::{h8, is_thorough, par_fold, Report};
use refmodel::hash::sha256;
use refmodel::run::{read_dir_files, RunResult, RunSpec};
use refmodel::ser::{hex, Tx, TxIn};
use refmodel::world::{dump_index, World};
use serde_json::json;
use std::collections::BTreeMap;
use std::os::unix::fs::MetadataExt;

#[derive(Clone, Copy, Debug, PartialEq, Eq, Hash, PartialOrd, Ord)]
struct Op {
    cb: &'static str,
    ranged: bool,
}

const OPS: [Op; 8] = [
    Op { cb: "simplestats", ranged: false },
    Op { cb: "opreturn", ranged: false },
    Op { cb: "csvdump", ranged: false },
    Op { cb: "unspentcsvdump", ranged: false },
    Op { cb: "balances", ranged: false },
    Op { cb: "csvdump", ranged: true },
    Op { cb: "unspentcsvdump", ranged: true },
    Op { cb: "balances", ranged: true },
];

fn spec_of(op: &Op, threads: u32) -> RunSpec {
    let mut s = RunSpec::new("bitcoin", op.cb);
    if op.ranged {
        s = s.range(Some(1), Some(2));
    }
    s.threads = threads;
    s
}

fn tmp_names(cb: &str) -> Vec<&'static str> {
    match cb {
        "csvdump" => vec!["blocks.csv.tmp", "transactions.csv.tmp", "tx_in.csv.tmp", "tx_out.csv.tmp"],
        "unspentcsvdump" => vec!["unspent.csv.tmp"],
        "balances" => vec!["balances.csv.tmp"],
        _ => vec![],
    }
}

fn canon(name: &str, content: &[u8]) -> Vec<u8> {
    if name.starts_with("unspent") || name.starts_with("balances") {
        let s = String::from_utf8_lossy(content);
        let mut lines: Vec<&str> = s.lines().collect();
        if lines.len() > 1 {
            lines[1..].sort();
        }
        lines.join("\n").into_bytes()
    } else {
        content.to_vec()
    }
}

fn data_fingerprint(dir: &std::path::Path) -> BTreeMap<String, (String, i64, i64)> {
    let mut m = BTreeMap::new();
    for e in std::fs::read_dir(dir).unwrap().flatten() {
        let name = e.file_name().to_string_lossy().into_owned();
        if !(e.path().is_file() && (name.starts_with("blk") || name == "xor.dat")) {
            // every other entry of the data directory must keep existing and nothing new may appear (content of index/ is
            // compared through its key/value dump)
            m.insert(format!("entry:{}", name), (String::new(), 0, 0));
        }
        if e.path().is_file() && (name.starts_with("blk") || name == "xor.dat") {
            let md = e.metadata().unwrap();
            m.insert(name, (hex(&sha256(&std::fs::read(e.path()).unwrap())), md.mtime(), md.mtime_nsec()));
        }
    }
    m
}

pub fn run() -> Report {
    let mut rep = Report::new("C13", "e1");
    let thorough = is_thorough();
    let btc = coin("bitcoin");
    let chain = dependent_chain(btc, 0, 4);
    let mut world = World::simple(btc, &chain.blocks, 0);
    world.xor_key = Some(vec![0x5a, 0x11, 0xc3, 0x07, 0x99, 0xe0, 0x3c, 0x42]);
    // all sequences of length 1..3
    let mut seqs: Vec<Vec<Op>> = Vec::new();
    let mut frontier: Vec<Vec<Op>> = vec![vec![]];
    for _ in 0..3 {
        let mut next = Vec::new();
        for s in &frontier {
            for o in OPS {
                let mut x = s.clone();
                x.push(o);
                next.push(x);
            }
        }
        seqs.extend(next.iter().cloned());
        frontier = next;
    }
    let mut cases: Vec<(Vec<Op>, u8, u32)> = Vec::new();
    for s in &seqs {
        for init in 0..4u8 {
            for threads in [1u32, 16] {
                if s.len() == 3 && threads == 16 && !thorough {
                    continue;
                }
                cases.push((s.clone(), init, threads));
            }
        }
    }
    rep.rule = "ALL sequences of 1..3 runs drawn from {csvdump, unspentcsvdump, balances} x {whole chain, -s 1 -e 2} and {simplestats, opreturn} sharing one dump folder and one (XOR-obfuscated) data directory, from 3 initial folder states {empty, stale *.csv.tmp files longer than any output, earlier final-named files with other content}, RAYON_NUM_THREADS in {1,16}: after every run its final-named files equal those of the same run on a fresh folder, no tmp file of it remains, results of earlier runs are untouched, blk*.dat / xor.dat content and mtimes are unchanged and the key/value content of the block index (dumped from a copy) is unchanged; non-trivial = distinct (sequence, initial state, threads) of length >= 2".into();
    rep.bound = json!({"ops": 8, "depth": 3, "sequences": seqs.len(), "cases": cases.len(), "restriction": "none"});
    let root = refmodel::world::scratch_root();
    // reference outputs per op from a fresh folder
    let mut reference: BTreeMap<Op, BTreeMap<String, Vec<u8>>> = BTreeMap::new();
    let mut stdout_ref: BTreeMap<Op, serde_json::Value> = BTreeMap::new();
    {
        let wk = Worker::new(&root, 900);
        for op in OPS {
            if let Err(m) = wk.materialise(&world) {
                rep.machinery(m);
                return rep;
            }
            let r = wk.run(&spec_of(&op, 2));
            rep.transitions += 1;
            let (s, e) = if op.ranged { (1, 2) } else { (0, 3) };
            let range = in_range(&chain.mblocks(), s, e);
            let bad = match op.cb {
                "csvdump" => check_csvdump(&r, btc, &range, s, e),
                "unspentcsvdump" => check_unspent(&r, btc, &range, s, e),
                "balances" => check_balances(&r, btc, &range, s, e),
                "simplestats" => check_stats(&r, btc, &range),
                _ => check_opreturn(&r, btc, &range),
            };
            stdout_ref.insert(op, crate::hx::observe(&r, &wk.dir)["stdout"].clone());
            if let Some((sig, _d)) = bad.into_iter().next() {
                rep.count(&format!("note:fresh-run-differs-from-model:{}", sig), 1); // not C13's business
            }
            reference.insert(op, r.files.iter().map(|(k, v)| (k.clone(), canon(k, v))).collect());
        }
    }
    let index_ref = {
        let wk = Worker::new(&root, 901);
        wk.materialise(&world).unwrap();
        dump_index(&wk.data().join("index"), &wk.dir.join("ixcopy")).unwrap_or_default()
    };
    let parts = par_fold(
        &cases,
        || Report::new("C13", "e1"),
        |w, _i, (seq, init, threads), acc| {
            let wk = Worker::new(&root, w);
            if let Err(m) = wk.materialise(&world) {
                return acc.machinery(m);
            }
            wk.fresh_dump();
            match init {
                1 => {
                    for cb in ["csvdump", "unspentcsvdump", "balances"] {
                        for n in tmp_names(cb) {
                            std::fs::write(wk.dump().join(n), vec![b'#'; 50_000]).unwrap();
                        }
                    }
                }
                2 => {
                    for (_, files) in &reference {
                        for name in files.keys() {
                            std::fs::write(wk.dump().join(name), b"stale result of an earlier run\n".repeat(400)).unwrap();
                        }
                    }
                }
                // earlier results under the same names and of exactly the SAME LENGTH, with other content (the same range dumped
                // from another chain or with another coin: equally long hashes, addresses and numbers)
                3 => {
                    for (_, files) in &reference {
                        for (name, content) in files {
                            let other: Vec<u8> = content.iter().map(|b| match b { b'a' => b'b', b'b' => b'a', b'1' => b'2', b'2' => b'1', x => *x }).collect();
                            std::fs::write(wk.dump().join(name), other).unwrap();
                        }
                    }
                }
                _ => {}
            }
            acc.states += 1;
            if seq.len() >= 2 {
                acc.nontrivial.insert(h8(format!("{:?}{}{}", seq, init, threads).as_bytes()));
            }
            if acc.samples.is_empty() && seq.len() == 3 {
                acc.sample(json!({"sequence": seq.iter().map(|o| format!("{}{}", o.cb, if o.ranged { " -s 1 -e 2" } else { "" })).collect::<Vec<_>>(), "initial_folder_state": match *init { 0 => "empty", 1 => "stale tmp files", 3 => "earlier results of the same names and lengths, other content", _ => "earlier final-named files" }, "threads": threads}));
            }
            let fp0 = data_fingerprint(&wk.data());
            for (k, op) in seq.iter().enumerate() {
                let before = read_dir_files(&wk.dump());
                let r = wk.run_keep(&spec_of(op, *threads));
                acc.transitions += 1;
                let here = format!("{:?} init {} threads {} step {}", seq, init, threads, k);
                let rc = json!({"kind": "run-history", "sequence": format!("{:?}", seq), "initial_folder_state": init, "threads": threads, "step": k});
                if !r.ok() {
                    acc.disagree("run-in-used-folder-fails", format!("{}: exit {:?} {}", here, r.code, r.stderr.lines().next().unwrap_or("")), rc);
                    return;
                }
                if matches!(op.cb, "simplestats" | "opreturn") && crate::hx::observe(&r, &wk.dir)["stdout"] != stdout_ref[op] {
                    acc.disagree("report-depends-on-earlier-runs", format!("{}: stdout of {} differs from the same run on a fresh folder / fresh data directory", here, op.cb), rc.clone());
                    return;
                }
                let want = &reference[op];
                for (name, content) in want {
                    match r.files.get(name) {
                        None => {
                            acc.disagree("result-file-missing-in-used-folder", format!("{}: {} missing", here, name), rc.clone());
                            return;
                        }
                        Some(got) => {
                            if &canon(name, got) != content {
                                acc.disagree("result-depends-on-files-already-in-dump-folder", format!("{}: {} differs from the result in a fresh folder: {}", here, name, first_diff(&String::from_utf8_lossy(got), &String::from_utf8_lossy(content))), rc.clone());
                                return;
                            }
                        }
                    }
                }
                for n in tmp_names(op.cb) {
                    if r.files.contains_key(n) {
                        acc.disagree("tmp-file-left-after-successful-run", format!("{}: {} remains", here, n), rc.clone());
                        return;
                    }
                }
                for (name, content) in &before {
                    if want.contains_key(name) || tmp_names(op.cb).contains(&name.as_str()) {
                        continue;
                    }
                    if r.files.get(name) != Some(content) {
                        acc.disagree("run-disturbs-other-files-in-dump-folder", format!("{}: {} changed or vanished", here, name), rc.clone());
                        return;
                    }
                }
                let fp = data_fingerprint(&wk.data());
                if fp != fp0 {
                    acc.disagree("run-modifies-blk-or-xor-files", format!("{}: fingerprint (sha256, mtime) {:?} -> {:?}", here, fp0, fp), rc.clone());
                    return;
                }
            }
            match dump_index(&wk.data().join("index"), &wk.dir.join("ixcopy")) {
                Ok(ix) => {
                    if ix != index_ref {
                        acc.disagree("run-changes-block-index-content", format!("{:?}: key/value content of the index differs after the runs ({} vs {} entries)", seq, ix.len(), index_ref.len()), json!({"kind": "run-history", "sequence": format!("{:?}", seq)}));
                    }
                }
                Err(e) => acc.disagree("index-unreadable-after-runs", format!("{:?}: {}", seq, e), json!({"kind": "run-history", "sequence": format!("{:?}", seq)})),
            }
        },
    );
    for p in parts {
        rep.merge(p);
    }
    conformance(&mut rep, &root);
    invocation_forms(&mut rep, &root);
    large_row_sets(&mut rep, &root);
    directory_histories(&mut rep, &root);
    let _ = std::fs::remove_dir_all(&root);
    rep
}

/// "identical row sets for the unspent and balances dumps" on repeated runs - also when the dumps are larger than any batch,
/// buffer or table an implementation is likely to use: 20 000 outputs to 20 000 distinct addresses (the rows leave a hash map
/// in an order that depends on the process's hash seed), dumped under five hash seeds with 1 and 16 workers.
fn large_row_sets(rep: &mut Report, root: &std::path::Path) {
    let btc = coin("bitcoin");
    let mut cb = ChainBuilder::with_genesis(btc);
    let outs: Vec<refmodel::ser::TxOut> = (0..20_000u32).map(|i| {
        let mut h = [0x3cu8; 20];
        h[..4].copy_from_slice(&i.to_le_bytes());
        refmodel::ser::TxOut { value: 1_000 + i as u64, script: refmodel::script::p2pkh(&h) }
    }).collect();
    cb.push(vec![Tx { version: 1, segwit: false, inputs: vec![TxIn::spend([0xe9; 32], 0)], outputs: outs, locktime: 0, wide: 0 }]);
    let world = World::simple(btc, &cb.blocks, 0);
    let wk = Worker::new(root, 97);
    if let Err(m) = wk.materialise(&world) {
        return rep.machinery(m);
    }
    for cbn in ["unspentcsvdump", "balances"] {
        let mut reference: Option<(Option<i32>, BTreeMap<String, Vec<u8>>)> = None;
        for (seed, threads) in [("1", 1u32), ("2", 16), ("6", 2), ("9", 16), ("17", 3)] {
            let mut spec = RunSpec::new("bitcoin", cbn);
            spec.threads = threads;
            spec.env.push(("VERIF_DETRAND".into(), seed.into()));
            let r = wk.run(&spec);
            rep.states += 1;
            rep.transitions += 1;
            rep.nontrivial.insert(h8(format!("large-rows{}{}{}", cbn, seed, threads).as_bytes()));
            rep.count("large-row-set-runs", 1);
            let files: BTreeMap<String, Vec<u8>> = r.files.iter().map(|(k, v)| (k.clone(), sha256(&canon(k, v)).to_vec())).collect();
            match &reference {
                None => reference = Some((r.code, files)),
                Some((code, want)) => {
                    if *code != r.code || *want != files {
                        rep.disagree("large-row-set-differs-between-runs", format!("{} over 20 000 outputs to 20 000 addresses: hash seed {} with {} workers gives another row set (or exit status {:?} vs {:?}) than hash seed 1 with 1 worker", cbn, seed, threads, r.code, code), json!({"kind": "e1-described", "case": format!("{} 20000 rows, hash seed {}, {} workers", cbn, seed, threads)}));
                        break;
                    }
                }
            }
        }
    }
    wk.cleanup();
}

/// "... a function of the data directory and the options only": the same directory and options named in different ways and
/// run in different process environments. Full product callback (5) x range {whole, -s 1 -e 2} x --verify {off, on} x path
/// form (absolute / relative / trailing slash / dot components / symbolic links / cwd inside the data directory / cwd = dump
/// folder named "", ".", "./" / names with spaces, quotes, non-ASCII characters / a path of more than 600 bytes) x environment (names that are not UTF-8 are refused by the command-line parser with exit status 2 before anything is read: not a case of this property)
/// (plain, the verbosity options -v / -vv / -vvv, RAYON_NUM_THREADS unset, a non-English UTF-8 locale with TZ set, logging-related variables, a virtual monotonic clock advancing 4 s / 11 s / 0 s per query, the calendar clock at the epoch / the last 32-bit second / a leap day before midnight / beyond 2106, five other hash seeds (iteration order of the std hash maps), directory listings served in reversed / rotated order). The chain contains addresses whose totals exceed 2^53 and consist of one large and seven unit outputs.
/// Compared with the absolute-path plain-environment run: exit status, every file of the dump folder, and the
/// simplestats / opreturn output (log lines that print a path are dropped).
fn invocation_forms(rep: &mut Report, root: &std::path::Path) {
    let btc = coin("bitcoin");
    let mut chain = dependent_chain(btc, 0, 3);
    {
        // addresses whose totals exceed 2^53 and are made of one large and several small outputs: a sum that is not exact
        // (floating point) depends on the order in which a hash map hands out the outputs
        let big: Vec<refmodel::ser::TxOut> = (0..4u8).flat_map(|a| std::iter::once(pay(210 + a, 1u64 << 53)).chain((0..7).map(move |_| pay(210 + a, 1)))).collect();
        chain.push(vec![Tx { version: 1, segwit: false, inputs: vec![TxIn::spend([0xeb; 32], 0)], outputs: big, locktime: 0, wide: 0 }]);
    }
    let mut world = World::simple(btc, &chain.blocks, 0);
    world.xor_key = Some(vec![0x5a, 0x11, 0xc3, 0x07, 0x99, 0xe0, 0x3c, 0x42]);
    {
        // what the index of a node looks like that was stopped while catching up: two blocks above the validated tip that are
        // stored but not yet connected (VALID_TRANSACTIONS | HAVE_DATA), a header beyond them, and a once-active block next to
        // the block below the tip. Whatever rule picks the tip among them, it must pick the same one under every hash seed.
        use refmodel::world::{ACTIVE, HAVE_DATA, VALID_TRANSACTIONS};
        let tip_h = chain.blocks.len() as u64 - 1;
        let mut parent = chain.blocks.last().unwrap().hash();
        for k in 1..=2u64 {
            let b = refmodel::ser::Block::build(1, parent, 1_700_000_000 + k as u32, 0x1d00ffff, k as u32, vec![coinbase(tip_h + k, 0xcafe, vec![pay(240 + k as u8, 9)])]);
            parent = b.hash();
            world.add_block_status(9, tip_h + k, &b, VALID_TRANSACTIONS | HAVE_DATA);
        }
        let stale = refmodel::ser::Block::build(1, chain.blocks[chain.blocks.len() - 3].hash(), 1_600_000_777, 0x1d00ffff, 99, vec![coinbase(tip_h - 1, 0xdead, vec![pay(239, 9)])]);
        world.add_block_status(9, tip_h - 1, &stale, ACTIVE);
    }
    let mut cases = Vec::new();
    for cbn in ["csvdump", "unspentcsvdump", "balances", "simplestats", "opreturn"] {
        for range in [(None, None), (Some(1u64), Some(2u64))] {
            for verify in [false, true] {
                cases.push((cbn, range, verify));
            }
        }
    }
    let essential = |r: &RunResult| -> serde_json::Value {
        // observe() sorts the "Transaction Types" entries (their order is that of a hash map and explicitly unspecified)
        let canonical = refmodel::run::observe(r, std::path::Path::new("/nonexistent-root"))["stdout"].as_str().unwrap_or("").to_string();
        let lines: Vec<String> = canonical.lines().filter(|l| !(l.contains("Reading index from") || l.contains("Reading files from") || l.contains("with dump folder") || l.contains("blockchain dir") || l.contains("Starting rusty-blockparser") || l.contains("Status: "))).map(|l| l.to_string()).collect();
        let files: BTreeMap<String, String> = r.files.iter().map(|(k, v)| (k.clone(), refmodel::ser::hex(&refmodel::hash::sha256(&canon(k, v))))).collect();
        json!({"exit": r.code, "signal": r.signal, "files": files, "stdout": lines})
    };
    let envs: Vec<(&str, Vec<(&str, &str)>, u32)> = vec![
        ("plain", vec![], 2),
        ("RAYON_NUM_THREADS unset", vec![], 0),
        ("tr_TR locale, TZ", vec![("LC_ALL", "tr_TR.UTF-8"), ("LANG", "tr_TR.UTF-8"), ("TZ", "Pacific/Kiritimati")], 2),
        ("RUST_LOG and COLUMNS set", vec![("RUST_LOG", "trace"), ("COLUMNS", "20"), ("NO_COLOR", "1"), ("TERM", "dumb")], 2),
        ("long options with =", vec![("VERIF_ARGV_FORM", "1")], 2),
        ("numbers with leading zeros", vec![("VERIF_ARGV_FORM", "2")], 2),
        ("numbers with a plus sign", vec![("VERIF_ARGV_FORM", "3")], 2),
        ("options in another order", vec![("VERIF_ARGV_FORM", "4")], 2),
        ("defaults: no -d (default folder below $HOME), no -c", vec![("VERIF_ARGV_FORM", "5")], 2),
        ("-v", vec![("__verbosity", "1")], 2),
        ("-vv", vec![("__verbosity", "2")], 2),
        ("-vvv", vec![("__verbosity", "3")], 2),
        ("virtual clock: 4 s per query", vec![("VERIF_CLOCK_STEP", "4000000000")], 2),
        ("virtual clock: 11 s per query", vec![("VERIF_CLOCK_STEP", "11000000000")], 2),
        ("virtual clock: standing still", vec![("VERIF_CLOCK_STEP", "0")], 2),
        ("calendar clock: the epoch", vec![("VERIF_REALTIME", "0")], 2),
        ("calendar clock: 2038-01-19 03:14:07", vec![("VERIF_REALTIME", "2147483647"), ("TZ", "America/St_Johns")], 2),
        ("calendar clock: leap day, a second before midnight", vec![("VERIF_REALTIME", "1709251199"), ("TZ", "UTC")], 2),
        ("calendar clock: year 2106 and beyond", vec![("VERIF_REALTIME", "4294967296")], 2),
        ("hash seed 2", vec![("VERIF_DETRAND", "2")], 2),
        ("hash seed 6", vec![("VERIF_DETRAND", "6")], 2),
        ("hash seed 9", vec![("VERIF_DETRAND", "9")], 2),
        ("hash seed 17", vec![("VERIF_DETRAND", "17")], 2),
        ("hash seed 28", vec![("VERIF_DETRAND", "28")], 2),
        ("stdout is a terminal", vec![("VERIF_STDOUT_TTY", "1")], 2),
        ("stdout is a terminal, TERM and COLUMNS set", vec![("VERIF_STDOUT_TTY", "1"), ("TERM", "xterm-256color"), ("COLUMNS", "40"), ("LINES", "10")], 2),
        ("directory listings reversed", vec![("VERIF_READDIR", "1")], 2),
        ("directory listings rotated", vec![("VERIF_READDIR", "3")], 2),
    ];
    let parts = par_fold(
        &cases,
        || Report::new("C13", "e1"),
        |w, _i, (cbn, range, verify), acc| {
            let wk = Worker::new(root, 300 + w);
            if let Err(m) = wk.materialise(&world) {
                return acc.machinery(m);
            }
            let base_spec = RunSpec::new("bitcoin", cbn).range(range.0, range.1).verify(*verify);
            let r0 = wk.run(&base_spec);
            let reference = essential(&r0);
            if r0.code != Some(0) {
                acc.count("note:reference-invocation-failed", 1);
            }
            for form in [0u8, 1, 2, 3, 4, 5, 6, 7, 8, 9, 11] {
                for (ename, evars, threads) in &envs {
                    if form == 0 && *ename == "plain" {
                        continue;
                    }
                    let mut spec = base_spec.clone();
                    spec.threads = *threads;
                    spec.env.push(("VERIF_PATH_FORM".into(), form.to_string()));
                    let mut verbose = false;
                    for (k, v) in evars {
                        if *k == "__verbosity" {
                            spec.verbosity = v.parse().unwrap_or(0);
                            verbose = true;
                        } else {
                            spec.env.push((k.to_string(), v.to_string()));
                        }
                    }
                    let r = wk.run(&spec);
                    acc.states += 1;
                    acc.transitions += 1;
                    acc.count("invocation-form-runs", 1);
                    acc.nontrivial.insert(h8(format!("{}{:?}{}{}{}", cbn, range, verify, form, ename).as_bytes()));
                    let mut o = essential(&r);
                    if verbose {
                        // more log lines are the point of the option: exit status, files, and the lines that are not log records
                        let keep = |v: &serde_json::Value| -> Vec<String> { v.as_array().map(|a| a.iter().filter_map(|l| l.as_str()).filter(|l| l.starts_with("height: ") || l.starts_with("   ->") || l.starts_with("SimpleStats")).map(|l| l.to_string()).collect()).unwrap_or_default() };
                        let (a, b) = (keep(&o["stdout"]), keep(&reference["stdout"]));
                        if a == b {
                            o["stdout"] = reference["stdout"].clone();
                        }
                    }
                    if o != reference {
                        let what = if o["exit"] != reference["exit"] { "exit-status" } else if o["files"] != reference["files"] { "dump-files" } else { "printed-output" };
                        acc.disagree(&format!("invocation-form:{}-differs", what), format!("{} range {:?} verify {} path form {} env '{}': {} vs absolute-path plain run {}", cbn, range, verify, form, ename, o.to_string().chars().take(300).collect::<String>(), reference.to_string().chars().take(300).collect::<String>()), replay_case(&world, &spec, json!({"must equal": "the run with absolute paths and the plain environment"}), &r, &wk.dir));
                        return;
                    }
                }
            }
        },
    );
    for p in parts {
        rep.merge(p);
    }
}

/// Free-running pass against the real rayon (sampling; labelled as such in the evidence): blocks with hundreds of
/// transactions and outputs, thread counts 1,2,3,8,16,64, repeated; every observed outcome must be the single
/// outcome the schedule explorer enumerated (= the model).
fn conformance(rep: &mut Report, root: &std::path::Path) {
    let thorough = is_thorough();
    let btc = coin("bitcoin");
    let mut cb = ChainBuilder::with_genesis(btc);
    for (n_tx, n_out) in [(300usize, 3usize), (40, 60), (2, 2)] {
        let h = cb.next_height();
        let mut txs = vec![coinbase(h, 1, vec![pay(1, 50 * COIN_VALUE)])];
        for t in 0..n_tx {
            txs.push(Tx { version: 1, segwit: false, inputs: vec![TxIn::spend([0xee; 32], t as u32)], outputs: (0..n_out).map(|k| if k % 5 == 4 { refmodel::ser::TxOut { value: 0, script: refmodel::script::op_return(format!("t{}o{}", t, k).as_bytes()) } } else { pay(((t * 7 + k) % 250) as u8, (t * 100 + k) as u64 + 1) }).collect(), locktime: 0, wide: 0 });
        }
        cb.push_raw(txs);
    }
    {
        // a transaction that repeats one script many times between different ones (payout / dust shape), and one whose outputs
        // are all identical: any memo / cache shared between the workers of one transaction is exercised under real contention
        let h = cb.next_height();
        let rep: Vec<refmodel::ser::TxOut> = (0..1500usize).map(|k| if k % 2 == 0 { pay(77, 1 + k as u64) } else { pay((k % 200) as u8, 1 + k as u64) }).collect();
        let same: Vec<refmodel::ser::TxOut> = (0..300usize).map(|k| pay(78, 5 + k as u64)).collect();
        cb.push_raw(vec![
            coinbase(h, 1, vec![pay(1, 50 * COIN_VALUE)]),
            Tx { version: 1, segwit: false, inputs: vec![TxIn::spend([0xee; 32], 9000)], outputs: rep, locktime: 0, wide: 0 },
            Tx { version: 1, segwit: false, inputs: vec![TxIn::spend([0xee; 32], 9001)], outputs: same, locktime: 0, wide: 0 },
        ]);
    }
    {
        // more transactions than any plausible "go parallel from here" threshold (1024, 4096): the csvdump runs carry --verify
        let h = cb.next_height();
        let mut txs = vec![coinbase(h, 1, vec![pay(1, 50 * COIN_VALUE)])];
        for t in 0..4500usize {
            txs.push(Tx { version: 1, segwit: false, inputs: vec![TxIn::spend([0xed; 32], t as u32)], outputs: vec![pay((t % 250) as u8, 1 + t as u64)], locktime: t as u32, wide: 0 });
        }
        cb.push(txs);
    }
    {
        // many transactions that each have more outputs than any plausible "go parallel from here" threshold: both parallel
        // regions are busy at once on every worker, the outer tasks outnumber the workers, and a worker that waits for its
        // inner region has outer work to pick up meanwhile (a lock or a per-worker scratch area held across the inner region
        // is re-entered then)
        let h = cb.next_height();
        let mut txs = vec![coinbase(h, 1, vec![pay(1, 50 * COIN_VALUE)])];
        for t in 0..24usize {
            txs.push(Tx { version: 1, segwit: false, inputs: vec![TxIn::spend([0xeb; 32], t as u32)], outputs: (0..1500usize).map(|k| pay(((t * 31 + k) % 250) as u8, 1 + (t * 1500 + k) as u64)).collect(), locktime: t as u32, wide: 0 });
        }
        cb.push(txs);
    }
    {
        // scripts far longer than any per-read work-splitting threshold, with lengths that no thread count divides evenly
        let h = cb.next_height();
        let outs: Vec<refmodel::ser::TxOut> = [4099usize, 5001, 6002, 9999, 8192, 33_001].iter().map(|n| refmodel::ser::TxOut { value: 1, script: (0..*n).map(|i| if i == 0 { 0x6a } else { (i % 251) as u8 }).collect() }).collect();
        cb.push_raw(vec![coinbase(h, 1, vec![pay(1, 50 * COIN_VALUE)]), Tx { version: 1, segwit: false, inputs: vec![TxIn::spend([0xec; 32], 1)], outputs: outs, locktime: 0, wide: 0 }]);
    }
    // the directory is obfuscated: whatever de-obfuscation does per read must not depend on the number of workers either
    let mut world = World::simple(btc, &cb.blocks, 0);
    world.xor_key = Some(vec![0x3d, 0x9a, 0x00, 0xc7, 0x51, 0xee, 0x08, 0xb2]);
    let all = cb.mblocks();
    let tip = all.len() as u64 - 1;
    let mut cases = Vec::new();
    for threads in [1u32, 2, 3, 8, 16, 64] {
        for rep_i in 0..if thorough { 8 } else { 3 } {
            for cbn in ["csvdump", "simplestats", "opreturn", "unspentcsvdump", "balances"] {
                cases.push((threads, rep_i, cbn));
            }
        }
    }
    // reference observation per callback: the run with ONE worker thread
    let mut reference: BTreeMap<&str, serde_json::Value> = BTreeMap::new();
    {
        let wk = Worker::new(root, 99);
        if let Err(m) = wk.materialise(&world) {
            return rep.machinery(m);
        }
        for cbn in ["csvdump", "simplestats", "opreturn", "unspentcsvdump", "balances"] {
            let mut spec = RunSpec::new("bitcoin", cbn).verify(cbn == "csvdump");
            spec.threads = 1;
            let r = wk.run(&spec);
            if r.code != Some(0) {
                // an observation like any other: runs with more workers that succeed differ from it (a verdict); runs that fail in
                // the same way do not (then the failure is not a matter of scheduling - C01 / C14 judge it)
                rep.count(&format!("note:single-thread-reference-run-failed:{}", cbn), 1);
            }
            reference.insert(cbn, crate::hx::observe(&r, &wk.dir));
            let bad = match cbn {
                "csvdump" => check_csvdump(&r, btc, &all, 0, tip),
                "unspentcsvdump" => check_unspent(&r, btc, &all, 0, tip),
                "balances" => check_balances(&r, btc, &all, 0, tip),
                "simplestats" => check_stats(&r, btc, &all),
                _ => check_opreturn(&r, btc, &all),
            };
            if let Some((sig, _)) = bad.into_iter().next() {
                rep.count(&format!("note:single-thread-run-differs-from-model:{}", sig), 1);
            }
        }
    }
    let parts = par_fold(
        &cases,
        || Report::new("C13", "e1"),
        |w, _i, (threads, _k, cbn), acc| {
            let wk = Worker::new(root, 100 + w);
            if let Err(m) = wk.materialise(&world) {
                return acc.machinery(m);
            }
            let mut spec = RunSpec::new("bitcoin", cbn).verify(*cbn == "csvdump");
            spec.threads = *threads;
            let r = wk.run(&spec);
            *acc.counters.entry("free_running_real_rayon_runs".into()).or_insert(0) += 1;
            let o = crate::hx::observe(&r, &wk.dir);
            if o != reference[cbn] {
                acc.disagree("real-rayon-run-differs-from-single-thread-run", format!("threads {} {}: {} vs single-thread {}", threads, cbn, o.to_string().chars().take(300).collect::<String>(), reference[cbn].to_string().chars().take(300).collect::<String>()), json!({"kind": "e1-described", "threads": threads, "callback": cbn, "world": "blocks of 300x3, 40x60, 2x2 txs x outputs"}));
            }
        },
    );
    let n: u64 = parts.iter().map(|p| p.counters.get("free_running_real_rayon_runs").copied().unwrap_or(0)).sum();
    for p in parts {
        rep.merge(p);
    }
    rep.sampled_supplement.push(json!({"what": "free-running real-rayon conformance pass (SAMPLING, not part of the exhaustive claim)", "runs": n, "threads": [1, 2, 3, 8, 16, 64], "blocks": "300 txs x 3 outputs, 40 txs x 60 outputs, 2x2, a 1500-output tx repeating one script between different ones, a 300-output tx of identical scripts, 4500 one-output txs, 24 txs x 1500 outputs, scripts of 4099..33001 bytes", "oracle": "every run equals the single-thread run of the same world and callback"}));
}


/// "... depends only on the data directory and the options": not on what stood at the same PATH before, nor on how earlier
/// runs over it ended. Four directories take turns at one path - A (4 blocks), B (another chain, 3 blocks), and two whose
/// block index cannot be loaded (F: a record whose value is too short, written after several re-openings of the database, so
/// its files carry higher numbers than those of A and B; G: a record that ends inside a VarInt) - in ALL sequences of 1..3
/// runs; the process environment's scratch locations (TMPDIR, HOME, XDG cache / runtime / state directories, current
/// directory) persist across the runs of a sequence. Every run must end like the run over the same directory on a fresh
/// path with fresh scratch locations: same exit status, same files.
fn directory_histories(rep: &mut Report, root: &std::path::Path) {
    use refmodel::world::IndexOp;
    let btc = coin("bitcoin");
    let a = World::simple(btc, &dependent_chain(btc, 0, 4).blocks, 0);
    let other = {
        let mut cb = ChainBuilder::with_genesis(btc);
        for k in 0..2u64 {
            let h = cb.next_height();
            cb.push_raw(vec![coinbase(h, 77 + k as u32, vec![pay(90 + k as u8, 50 * COIN_VALUE)])]);
        }
        cb
    };
    let b = World::simple(btc, &other.blocks, 0);
    let longer = dependent_chain(btc, 0, 6);
    let mut f = World::new(btc);
    for _ in 0..4 {
        f.index_ops.push(IndexOp::Put(b"F\x07txindex".to_vec(), vec![1]));
        f.index_ops.push(IndexOp::Reopen);
    }
    for (h, blk) in longer.blocks.iter().enumerate() {
        f.add_block(0, h as u64, blk);
    }
    let mut g = f.clone();
    let mut key = vec![b'b'];
    key.extend_from_slice(&[0xab; 32]);
    f.index_ops.push(IndexOp::Put(key.clone(), vec![0x01, 0x02, 0x03]));
    g.index_ops.push(IndexOp::Put(key, vec![0x81, 0x82, 0x83, 0x84]));
    let worlds: Vec<(&str, World)> = vec![("A", a), ("B", b), ("F", f), ("G", g)];
    let cbs = ["csvdump", "unspentcsvdump"];
    let scratch_env = |dir: &std::path::Path| -> Vec<(String, String)> {
        let mut v = Vec::new();
        for (k, sub) in [("TMPDIR", "tmp"), ("HOME", "home"), ("XDG_CACHE_HOME", "home/.cache"), ("XDG_RUNTIME_DIR", "run"), ("XDG_STATE_HOME", "home/.local/state"), ("XDG_DATA_HOME", "home/.local/share"), ("XDG_CONFIG_HOME", "home/.config")] {
            let p = dir.join(sub);
            let _ = std::fs::create_dir_all(&p);
            v.push((k.to_string(), p.display().to_string()));
        }
        v
    };
    let essential = |r: &RunResult| -> serde_json::Value { json!({"exit": r.code, "signal": r.signal, "files": r.files.iter().map(|(k, v)| (k.clone(), hex(&sha256(&canon(k, v))))).collect::<BTreeMap<String, String>>()}) };
    // references: every directory on a fresh path with fresh scratch locations
    let mut reference: BTreeMap<(usize, &str), serde_json::Value> = BTreeMap::new();
    for (wi, (_, w)) in worlds.iter().enumerate() {
        for cb in cbs {
            let wk = Worker::new(root, 700 + wi * 2 + if cb == "csvdump" { 0 } else { 1 });
            if let Err(m) = wk.materialise(w) {
                return rep.machinery(m);
            }
            let mut spec = RunSpec::new("bitcoin", cb);
            for (k, v) in scratch_env(&wk.dir) {
                spec.env.push((k, v));
            }
            let r = wk.run(&spec);
            rep.transitions += 1;
            reference.insert((wi, cb), essential(&r));
        }
    }
    if reference[&(0, "csvdump")]["exit"] != json!(0) || reference[&(2, "csvdump")]["exit"] == json!(0) {
        rep.count("note:directory-histories:reference-runs-unexpected", 1);
    }
    let mut seqs: Vec<Vec<usize>> = Vec::new();
    let mut frontier: Vec<Vec<usize>> = vec![vec![]];
    for _ in 0..3 {
        let mut next = Vec::new();
        for s in &frontier {
            for o in 0..worlds.len() {
                let mut x = s.clone();
                x.push(o);
                next.push(x);
            }
        }
        seqs.extend(next.iter().cloned());
        frontier = next;
    }
    let parts = par_fold(
        &seqs,
        || Report::new("C13", "e1"),
        |w, i, seq, acc| {
            let wk = Worker::new(root, 720 + w);
            let env = scratch_env(&wk.dir);
            acc.states += 1;
            acc.nontrivial.insert(h8(format!("dirhist{:?}", seq).as_bytes()));
            acc.count("directory-histories", 1);
            for (k, wi) in seq.iter().enumerate() {
                let cb = cbs[(i + k) % 2];
                if let Err(m) = wk.materialise(&worlds[*wi].1) {
                    return acc.machinery(m);
                }
                let mut spec = RunSpec::new("bitcoin", cb);
                for (k, v) in &env {
                    spec.env.push((k.clone(), v.clone()));
                }
                let r = wk.run(&spec);
                acc.transitions += 1;
                let o = essential(&r);
                if o != reference[&(*wi, cb)] {
                    let names: Vec<&str> = seq.iter().map(|x| worlds[*x].0).collect();
                    acc.disagree("result-depends-on-what-stood-at-the-path-before", format!("directories {:?} in turn at one path, step {} ({} over {}): {} vs the same run on a fresh path {}; stderr: {}", names, k, cb, worlds[*wi].0, o.to_string().chars().take(300).collect::<String>(), reference[&(*wi, cb)].to_string().chars().take(300).collect::<String>(), r.stderr.lines().next().unwrap_or("")), json!({"kind": "e1-described", "directories_in_turn": names, "step": k, "callback": cb}));
                    return;
                }
            }
        },
    );
    for p in parts {
        rep.merge(p);
    }
}
