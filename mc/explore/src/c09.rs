//! C09 — --verify accepts exactly the consistent chains (E1; exhaustive fault enumeration over corruption points).
use crate::c01::TxP;
use crate::hx::{replay_case, Worker};
use crate::oracle::*;
use refmodel::chain::{coinbase, pay, ChainBuilder, COIN_VALUE};
use refmodel::coins::{coin, genesis, Coin, COINS};
use refmodel::ev::{h8, is_thorough, par_fold, Report};
use refmodel::run::{RunResult, RunSpec};
use refmodel::ser::{compact_size, Block};
use refmodel::world::{IndexRec, World};
use serde_json::json;

#[derive(Clone, Debug)]
enum Case {
    /// consistent chain: genesis, B(k txs), B(1); optional --start
    Pass { coin: &'static str, k: usize, start: Option<u64>, auxpow: bool, shape: Option<(usize, usize, usize, usize, bool)>, wit: usize },
    // wit: > 0 = the shaped transaction is in segwit form and its first input's witness stack holds one item of this many bytes
    // shape: the block's last transaction has (inputs, outputs, scriptSig bytes, scriptPubKey bytes, segwit form)
    /// consistent 5-block chain indexed at heights base..base+4 only (sparse index), --verify --start base+1;
    /// `flip`: one bit of the prev-hash field of block base+2 flipped (must fail there)
    HighPass { base: u64, flip: bool },
    /// flip one bit of the stored block at `height`, at byte `off` (relative to the block start) bit `bit`
    Flip { txs_per_block: usize, height: u64, off: usize, bit: u8, region: &'static str, start: Option<u64> },
    /// index record of `height` points at the stored data of another block
    Swap { height: u64, with: &'static str },
    /// block 0 is not the coin's genesis
    WrongGenesis { coin: &'static str },
    /// several blocks of a 5-block chain differ from what the index describes at once. Per height 1..=4:
    /// 0 intact; 1 resealed (nonce changed: self-consistent, but its hash is no longer the indexed one); 2 prev-hash field
    /// rewritten to the hash of the block STORED at the preceding height; 3 both. The index still describes the original chain.
    /// By the statement the run fails at the first processed height whose prev-hash field is not the INDEXED hash of the
    /// preceding height, and passes if there is none (a resealed block alone is consistent).
    Multi { kinds: [u8; 4], start: Option<u64> },
    /// the `nth` CompactSize inside the transactions of the block at `height` (input / output counts, script lengths) is
    /// re-encoded in a wider form (0xfd / 0xfe / 0xff prefix) with the same value: the transaction still decodes to the same
    /// fields, but its bytes - covered by the txid - have changed, so the merkle root no longer matches
    Widen { height: u64, nth: usize, width: u8 },
    /// a consistent chain of 120 blocks, one per blk file, under RLIMIT_NOFILE = 40: must pass like any consistent chain
    ManyFiles,
    /// a consistent chain whose records carry a length field that is not the block's length (0: one short, 1: 81, 2: zero,
    /// 3: 1000 too long - more than is left in the file behind the last block, 4: 0xffffffff, 5: a different one per height);
    /// merkle roots, prev-hashes and the index are intact, so it must pass
    Prefix { coin: &'static str, variant: u8, start: Option<u64> },
    /// as Flip, on a chain of merged-mined blocks (header, AuxPoW section, transactions) of namecoin / dogecoin
    AuxFlip { coin: &'static str, height: u64, region: &'static str, which: u8 },
    /// a pruning node's directory: a consistent chain of 7 blocks whose heights below `pruned` have lost their block data (blk
    /// file deleted; records keep their validity, without HAVE_DATA / HAVE_UNDO and without file positions; `witness_flag`:
    /// the pruned records also carry BLOCK_OPT_WITNESS), read with --verify --start pruned+delta: must pass
    Pruned { coin: &'static str, pruned: u64, delta: u64, witness_flag: bool },
    /// the prev-hash field of the stored block at `height` names ANOTHER block the index knows at height-1 - a stale sibling with
    /// data (kind 0: never connected, 1: once active and reorganised away, 2: failed) or a header-only record (3) - instead of
    /// the indexed block of the preceding height: must fail at `height` (the field is not the indexed hash of height-1)
    PrevToKnownOther { height: u64, kind: u8, start: Option<u64> },
}

/// Offsets (relative to the block start) of every one-byte CompactSize inside the legacy transactions of a serialised block.
fn tx_varint_offsets(raw: &[u8]) -> Vec<usize> {
    let mut v = Vec::new();
    let mut p = 80;
    let n_tx = raw[p] as usize;
    p += 1;
    for _ in 0..n_tx {
        p += 4;
        let n_in = raw[p] as usize;
        v.push(p);
        p += 1;
        for _ in 0..n_in {
            p += 36;
            let l = raw[p] as usize;
            v.push(p);
            p += 1 + l + 4;
        }
        let n_out = raw[p] as usize;
        v.push(p);
        p += 1;
        for _ in 0..n_out {
            p += 8;
            let l = raw[p] as usize;
            v.push(p);
            p += 1 + l;
        }
        p += 4;
    }
    assert_eq!(p, raw.len(), "legacy block layout");
    v
}

fn chain_with(coin: &'static Coin, txs_per_block: usize, n_blocks: usize) -> ChainBuilder {
    let mut cb = ChainBuilder::with_genesis(coin);
    while cb.blocks.len() < n_blocks {
        let h = cb.next_height();
        let mut txs = vec![coinbase(h, 3, vec![pay(9, 50 * COIN_VALUE)])];
        for k in 1..txs_per_block {
            let mut p = TxP::base();
            p.sig_lens = vec![3; 1 + k % 2];
            p.spk_lens = vec![25; 1 + (k / 2) % 2];
            txs.push(p.build((h as usize * 16 + k) as u8));
        }
        cb.push_raw(txs);
    }
    cb
}

/// (offset, region) of every byte covered by the property: prev-hash field, merkle field, tx bytes.
fn covered_bytes(b: &Block) -> Vec<(usize, &'static str)> {
    let mut v: Vec<(usize, &'static str)> = Vec::new();
    for o in 4..36 {
        v.push((o, "prev"));
    }
    for o in 36..68 {
        v.push((o, "merkle"));
    }
    // the transaction count decides which transactions there are: a block with another count has other txids under its root
    for o in 80..80 + compact_size(b.txs.len() as u64).len() {
        v.push((o, "txcount"));
    }
    let mut off = 80 + compact_size(b.txs.len() as u64).len();
    for t in &b.txs {
        assert!(!t.segwit);
        let n = t.ser().len();
        for o in off..off + n {
            v.push((o, "tx"));
        }
        off += n;
    }
    v
}

/// Does the run of the CONSISTENT chain with the same options deliver `height`? (If not, a corrupted block there is not
/// processed at all: that is C02's business, not C09's.) Cached per (txs per block, --start).
fn control_delivers(wk: &Worker, tpb: usize, start: Option<u64>, height: u64) -> bool {
    use std::collections::HashMap;
    use std::sync::Mutex;
    static CACHE: Mutex<Option<HashMap<(usize, Option<u64>), (u64, u64)>>> = Mutex::new(None);
    if let Some(v) = CACHE.lock().unwrap().get_or_insert_with(HashMap::new).get(&(tpb, start)) {
        return height >= v.0 && height <= v.1;
    }
    let btc = coin("bitcoin");
    let cb = chain_with(btc, tpb, 4);
    let mut world = World::new(btc);
    for (i, b) in cb.blocks.iter().enumerate() {
        world.add_block(i as u64, i as u64, b);
    }
    let spec = RunSpec::new("bitcoin", "csvdump").verify(true).range(start, None);
    let range = match wk.world_run(&world, &spec) {
        Ok(r) if r.ok() => (r.declared_start().unwrap_or(0), r.declared_end().unwrap_or(0)),
        _ => (1, 0), // the consistent chain itself is not accepted: nothing is "delivered"
    };
    CACHE.lock().unwrap().get_or_insert_with(HashMap::new).insert((tpb, start), range);
    height >= range.0 && height <= range.1
}

fn judge_fail(r: &RunResult, height: u64) -> Option<(String, String)> {
    if r.stderr.contains("VERIF-HANG") {
        return Some(("run-does-not-terminate".into(), r.stderr.lines().last().unwrap_or("").to_string()));
    }
    if r.stderr.contains("VERIF-TIMEOUT") {
        return Some(("machinery-timeout".into(), "".into()));
    }
    if r.code == Some(0) {
        return Some(("corruption-accepted".into(), format!("exit 0 although the block at height {} is corrupted; files {:?}", height, r.files.keys().collect::<Vec<_>>())));
    }
    if !r.final_files().is_empty() {
        return Some(("final-file-after-failure".into(), format!("exit {:?} but final-named files {:?}", r.code, r.final_files())));
    }
    if let Some(h) = r.error_height() {
        if h != height {
            return Some(("wrong-error-height".into(), format!("error reported at height {} but the corrupted block is {}", h, height)));
        }
    }
    None
}

pub fn run() -> Report {
    let mut rep = Report::new("C09", "e1");
    let thorough = is_thorough();
    let mut cases: Vec<Case> = Vec::new();
    // must pass
    let ks: Vec<usize> = (1..=17).chain([31, 32, 33, 64, 65]).collect();
    for &k in &ks {
        cases.push(Case::Pass { coin: "bitcoin", k, start: None, auxpow: false, shape: None, wit: 0 });
    }
    if thorough {
        for k in [127usize, 128, 129, 255, 256, 257, 1000] {
            cases.push(Case::Pass { coin: "bitcoin", k, start: None, auxpow: false, shape: None, wit: 0 });
        }
    }
    for c in COINS.iter() {
        for k in [1usize, 2, 3, 5] {
            for s in 0..=2u64 {
                if s == 0 && genesis(c).is_none() {
                    continue;
                }
                cases.push(Case::Pass { coin: c.name, k, start: if s == 0 { None } else { Some(s) }, auxpow: false, shape: None, wit: 0 });
            }
        }
    }
    for cn in ["namecoin", "dogecoin"] {
        for k in [1usize, 3, 6] {
            cases.push(Case::Pass { coin: cn, k, start: None, auxpow: true, shape: None, wit: 0 });
        }
    }
    // "for any transaction": counts and lengths of one transaction at and around the CompactSize widths and round numbers
    for segwit in [false, true] {
        for n in [252usize, 253, 1000, 4095, 4096, 4097, 10_000, 65_535, 65_536] {
            cases.push(Case::Pass { coin: "bitcoin", k: 3, start: None, auxpow: false, shape: Some((n, 1, 1, 25, segwit)), wit: 0 });
            cases.push(Case::Pass { coin: "bitcoin", k: 3, start: if n % 2 == 0 { Some(1) } else { None }, auxpow: false, shape: Some((1, n, 1, 25, segwit)), wit: 0 });
        }
        for l in [252usize, 253, 4096, 4097, 10_000, 65_535, 65_536, 1_000_000] {
            cases.push(Case::Pass { coin: "bitcoin", k: 2, start: None, auxpow: false, shape: Some((1, 1, l, 25, segwit)), wit: 0 });
            cases.push(Case::Pass { coin: "bitcoin", k: 2, start: None, auxpow: false, shape: Some((1, 1, 1, l, segwit)), wit: 0 });
        }
    }
    for cn in ["litecoin", "dogecoin"] {
        cases.push(Case::Pass { coin: cn, k: 2, start: None, auxpow: false, shape: Some((4097, 4097, 1, 25, false)), wit: 0 });
    }
    // witness data is not covered by the txid, but it has to be skipped exactly for everything behind it (lock time, the next
    // transaction) to be read where it is: stack items at and around the CompactSize widths and beyond 16 bits
    for l in [252usize, 253, 10_000, 65_535, 65_536, 70_000, 400_000] {
        cases.push(Case::Pass { coin: "bitcoin", k: 2, start: None, auxpow: false, shape: Some((2, 2, 1, 25, true)), wit: l });
    }
    // data-carrier outputs with long UTF-8 texts (a multi-byte character across every byte offset up to 200): wit = usize::MAX
    for (cn, start) in [("bitcoin", None), ("bitcoin", Some(1u64)), ("litecoin", None), ("namecoin", None)] {
        cases.push(Case::Pass { coin: cn, k: 2, start, auxpow: false, shape: Some((1, 1, 1, 25, false)), wit: usize::MAX });
    }
    for base in [127u64, 16_511, 2_113_663, 270_549_119, (1 << 32) - 2, 1 << 40] {
        cases.push(Case::HighPass { base, flip: false });
        cases.push(Case::HighPass { base, flip: true });
    }
    // must fail: single-bit flips
    let btc = coin("bitcoin");
    let tpbs: Vec<usize> = if thorough { vec![1, 2, 3, 4, 5, 8] } else { vec![1, 2, 3] };
    for tpb in tpbs {
        let cb = chain_with(btc, tpb, 4);
        for h in 0..4u64 {
            let cov = covered_bytes(&cb.blocks[h as usize]);
            for (i, (off, region)) in cov.iter().enumerate() {
                for bit in 0..8u8 {
                    let _ = i;
                    {
                        cases.push(Case::Flip { txs_per_block: tpb, height: h, off: *off, bit, region, start: None });
                    }
                }
            }
        }
    }
    // flips of the prev field of the first processed block under --start
    for s in 1..4u64 {
        for off in 4..36usize {
            cases.push(Case::Flip { txs_per_block: 2, height: s, off, bit: (off % 8) as u8, region: "prev@start", start: Some(s) });
        }
    }
    // swaps
    for h in 0..4u64 {
        for with in ["next-height", "prev-height", "other-chain"] {
            cases.push(Case::Swap { height: h, with });
        }
    }
    for c in COINS.iter() {
        cases.push(Case::WrongGenesis { coin: c.name });
    }
    cases.push(Case::ManyFiles);
    for height in 1..=4u64 {
        for kind in 0..4u8 {
            for start in [None, Some(height), Some(1)] {
                if start.map(|s| s <= height).unwrap_or(true) {
                    cases.push(Case::PrevToKnownOther { height, kind, start });
                }
            }
        }
    }
    for cn in ["bitcoin", "litecoin", "dogecoin"] {
        for pruned in 1..=4u64 {
            for delta in 0..=1u64 {
                for witness_flag in [false, true] {
                    if cn == "bitcoin" || (pruned + delta) % 2 == 0 {
                        cases.push(Case::Pruned { coin: cn, pruned, delta, witness_flag });
                    }
                }
            }
        }
    }
    for cn in ["bitcoin", "litecoin", "namecoin", "dogecoin"] {
        for variant in 0..6u8 {
            for start in [None, Some(2u64)] {
                if cn == "bitcoin" || start.is_none() {
                    cases.push(Case::Prefix { coin: cn, variant, start });
                }
            }
        }
    }
    for cn in ["namecoin", "dogecoin"] {
        for h in 1..3u64 {
            for region in ["prev", "merkle", "tx", "txcount"] {
                for which in 0..4u8 {
                    cases.push(Case::AuxFlip { coin: cn, height: h, region, which });
                }
            }
        }
    }
    // every CompactSize of every transaction of blocks 1..3, re-encoded in each wider form
    {
        let cb = chain_with(coin("bitcoin"), 2, 4);
        for h in 1..4u64 {
            let n = tx_varint_offsets(&cb.blocks[h as usize].ser()).len();
            for nth in 0..n {
                for width in [3u8, 5, 9] {
                    cases.push(Case::Widen { height: h, nth, width });
                }
            }
        }
    }
    // all 4^4 combinations of per-block deviations, whole chain; --start 2 and 3 on those that deviate at or after the start
    for code in 0..256u32 {
        let kinds = [(code & 3) as u8, ((code >> 2) & 3) as u8, ((code >> 4) & 3) as u8, ((code >> 6) & 3) as u8];
        cases.push(Case::Multi { kinds, start: None });
        if thorough || code % 3 == 0 {
            cases.push(Case::Multi { kinds, start: Some(2) });
            cases.push(Case::Multi { kinds, start: Some(3) });
        }
    }
    rep.rule = "must pass: genesis,B(k),B(1) for k in 1..17,31,32,33,64,65 (every merkle-tree shape with an odd level up to depth 6) on bitcoin, k in {1,2,3,5} x --start {0,1,2} on all 8 coins, AuxPoW chains, records whose length field is one short / 81 / 0 / 1000 too long / 0xffffffff (4 coins, merged-mined blocks included), one transaction with 252..65 536 inputs / outputs or script lengths up to 1 000 000 (legacy and segwit form), sparse indexes at heights up to 2^40 with --start (pass, and fail with a flipped prev field); must fail at that height: every single-bit flip of prev-hash field, merkle field, transaction count and tx bytes of every block of 4-block chains with 1/2/3 txs per block, prev-field flips of the first processed block under --start, block swaps, wrong block 0 for 8 coins; bit flips in prev / merkle / transaction count / transaction bytes of merged-mined (AuxPoW) blocks of namecoin and dogecoin; all 4^4 combinations of {intact, resealed, prev-field rewritten to the stored predecessor's hash, both} over heights 1..4 (x --start) judged by the statement's rule; every CompactSize inside a transaction re-encoded in a wider form with the same value (the txid covers the bytes); (fail at the first processed height whose prev field is not the indexed hash of the preceding height, else pass); non-trivial = distinct case (pass cases: exit 0 with model-equal output; fail cases: corrupted byte inside the processed range)".into();
    rep.bound = json!({"cases": cases.len(), "flip_chains": "4 blocks x {1,2,3} txs", "flip_density": "every bit", "txs_per_block": if thorough { "1,2,3,4,5,8" } else { "1,2,3" }});
    rep.not_covered = vec!["multi-bit corruptions other than block swaps, re-encodings and the per-block deviation combinations".into(), "witness bytes / marker / flag (not txid-covered; don't-care)".into()];
    let root = refmodel::world::scratch_root();
    let parts = par_fold(
        &cases,
        || Report::new("C09", "e1"),
        |w, _i, c, acc| {
            let wk = Worker::new(&root, w);
            acc.states += 1;
            acc.transitions += 1;
            acc.nontrivial.insert(h8(format!("{:?}", c).as_bytes()));
            match c {
                Case::Pass { coin: cname, k, start, auxpow, shape, wit } => {
                    let cn = coin(cname);
                    let mut cb = ChainBuilder::with_genesis(cn);
                    if *auxpow {
                        cb.version = cn.auxpow_from.unwrap() + 1;
                    }
                    let h = cb.next_height();
                    let mut txs = vec![coinbase(h, 3, vec![pay(9, 50 * COIN_VALUE)])];
                    for j in 1..*k {
                        txs.push(TxP::base().build(j as u8));
                    }
                    if let Some((n_in, n_out, sig, spk, segwit)) = shape {
                        let p = TxP { segwit: *segwit, sig_lens: vec![*sig; *n_in], spk_lens: vec![*spk; *n_out], text_outputs: *wit == usize::MAX, wit: if *wit > 0 && *wit != usize::MAX { let mut w = vec![vec![2, 3]; *n_in]; w[0] = vec![*wit, 1]; w } else if *segwit { vec![vec![2, 3]; *n_in] } else { vec![] }, ..TxP::base() };
                        txs.push(p.build(99));
                        acc.count("must-pass:transaction-shape", 1);
                    }
                    cb.push_raw(txs);
                    cb.push(vec![]);
                    cb.push(vec![]);
                    if *auxpow {
                        for b in cb.blocks.iter_mut().skip(1) {
                            b.auxpow = Some(refmodel::ser::AuxPow { parent_coinbase: coinbase(1, 1, vec![pay(1, 1)]), parent_hash: [7; 32], coinbase_branch: vec![[1; 32]; 2], coinbase_mask: 1, chain_branch: vec![], chain_mask: 0, branch_wide: 0, parent_header: cb_header() });
                        }
                    }
                    let world = World::simple(cn, &cb.blocks, 0);
                    let spec = RunSpec::new(cname, "csvdump").verify(true).range(*start, None);
                    let r = match wk.world_run(&world, &spec) {
                        Ok(r) => r,
                        Err(m) => return acc.machinery(m),
                    };
                    let (s, e) = (r.declared_start().unwrap_or(start.unwrap_or(0)), r.declared_end().unwrap_or(3));
                    acc.count("must-pass", 1);
                    if r.ok() {
                        acc.count("must-pass-passed", 1);
                    }
                    let mut bad = check_csvdump(&r, cn, &in_range(&cb.mblocks(), s, e), s, e);
                    if r.code != Some(0) && !r.panicked() {
                        bad.insert(0, ("consistent-chain-rejected".into(), format!("exit {:?}: {}", r.code, r.stderr.lines().take(4).collect::<Vec<_>>().join(" | "))));
                    }
                    if acc.samples.is_empty() {
                        acc.sample(json!({"must_pass": format!("{:?}", c)}));
                    }
                    if let Some((sig, detail)) = bad.into_iter().next() {
                        let rc = if *k > 20 || shape.is_some() { json!({"kind": "e1-described", "case": format!("{:?}", c)}) } else { replay_case(&world, &spec, json!({"must": "pass"}), &r, &wk.dir) };
                        acc.disagree(&sig, format!("{:?}: {}", c, detail), rc);
                    }
                }
                Case::HighPass { base, flip } => {
                    let btc = coin("bitcoin");
                    let mut cb = ChainBuilder::at(btc, *base);
                    for _ in 0..5 {
                        cb.push(vec![TxP::base().build(7)]);
                    }
                    let mut world = World::new(btc);
                    let mut recs = Vec::new();
                    for (i, b) in cb.blocks.iter().enumerate() {
                        recs.push(world.add_block(i as u64, base + i as u64, b));
                    }
                    if *flip {
                        let f = world.files.get_mut(&2).unwrap();
                        let mut d = f.dense();
                        d[recs[2].data_pos as usize + 10] ^= 0x04;
                        f.chunks = vec![(0, d)];
                    }
                    let spec = RunSpec::new("bitcoin", "csvdump").verify(true).range(Some(base + 1), None);
                    let r = match wk.world_run(&world, &spec) {
                        Ok(r) => r,
                        Err(m) => return acc.machinery(m),
                    };
                    acc.count("sparse-high-height-verify", 1);
                    if *flip {
                        if let Some((sig, detail)) = judge_fail(&r, base + 2) {
                            acc.disagree(&format!("{}:prev@high-height", sig), format!("{:?}: {}", c, detail), replay_case(&world, &spec, json!({"must": "fail", "height": base + 2}), &r, &wk.dir));
                        }
                    } else {
                        let (s0, e0) = (r.declared_start().unwrap_or(base + 1), r.declared_end().unwrap_or(base + 4));
                        let mut bad = check_csvdump(&r, btc, &in_range(&cb.mblocks(), s0, e0), s0, e0);
                        if r.code != Some(0) && !r.panicked() {
                            bad.insert(0, ("consistent-chain-rejected".into(), format!("exit {:?}: {}", r.code, r.stderr.lines().take(3).collect::<Vec<_>>().join(" | "))));
                        }
                        if let Some((sig, detail)) = bad.into_iter().next() {
                            acc.disagree(&format!("{}:high-height", sig), format!("{:?}: {}", c, detail), replay_case(&world, &spec, json!({"must": "pass"}), &r, &wk.dir));
                        }
                    }
                }
                Case::Flip { txs_per_block, height, off, bit, region, start } => {
                    let btc = coin("bitcoin");
                    let cb = chain_with(btc, *txs_per_block, 4);
                    let mut world = World::new(btc);
                    let mut recs: Vec<IndexRec> = Vec::new();
                    for (i, b) in cb.blocks.iter().enumerate() {
                        recs.push(world.add_block(i as u64, i as u64, b)); // one block per file
                    }
                    let pos = recs[*height as usize].data_pos as usize + *off;
                    let f = world.files.get_mut(height).unwrap();
                    let mut dense = f.dense();
                    dense[pos] ^= 1 << bit;
                    f.chunks = vec![(0, dense)];
                    let spec = RunSpec::new("bitcoin", "csvdump").verify(true).range(*start, None);
                    let r = match wk.world_run(&world, &spec) {
                        Ok(r) => r,
                        Err(m) => return acc.machinery(m),
                    };
                    acc.count(&format!("flip:{}", region), 1);
                    if r.panicked() {
                        acc.count("flip-rejected-by-panic-or-abort", 1);
                    } else if r.code != Some(0) {
                        acc.count("flip-rejected-with-error", 1);
                    }
                    if acc.samples.len() < 2 && *region == "tx" {
                        acc.sample(json!({"must_fail": format!("{:?}", c), "stderr": r.stderr.lines().next()}));
                    }
                    let verdict = judge_fail(&r, *height);
                    // exit 0 with a corrupted block is judged only if the same run on the consistent chain delivers that height
                    let verdict = match verdict {
                        Some((sig, d)) if sig == "corruption-accepted" && !control_delivers(&wk, *txs_per_block, *start, *height) => {
                            acc.count("flip-at-height-the-consistent-run-does-not-deliver (left to C02)", 1);
                            let _ = (sig, d);
                            None
                        }
                        v => v,
                    };
                    if let Some((sig, detail)) = verdict {
                        acc.disagree(&format!("{}:{}", sig, region), format!("{:?}: {}", c, detail), replay_case(&world, &spec, json!({"must": "fail", "height": height}), &r, &wk.dir));
                    }
                }
                Case::Swap { height, with } => {
                    let btc = coin("bitcoin");
                    let cb = chain_with(btc, 2, 5);
                    let other = {
                        let mut o = ChainBuilder::at(btc, 50);
                        o.push(vec![]);
                        o.push(vec![]);
                        o
                    };
                    let mut world = World::new(btc);
                    let mut recs: Vec<IndexRec> = Vec::new();
                    for (i, b) in cb.blocks.iter().enumerate() {
                        recs.push(world.add_block(i as u64, i as u64, b));
                    }
                    let foreign = world.add_block(9, 9999, &other.blocks[1]);
                    world.index_ops.pop(); // the foreign block is stored but not indexed
                    let src = match *with {
                        "next-height" => recs[*height as usize + 1].clone(),
                        "prev-height" => {
                            if *height == 0 {
                                recs[2].clone()
                            } else {
                                recs[*height as usize - 1].clone()
                            }
                        }
                        _ => foreign,
                    };
                    let mut rec = recs[*height as usize].clone();
                    rec.file = src.file;
                    rec.data_pos = src.data_pos;
                    world.put_rec(&rec);
                    let spec = RunSpec::new("bitcoin", "csvdump").verify(true);
                    let r = match wk.world_run(&world, &spec) {
                        Ok(r) => r,
                        Err(m) => return acc.machinery(m),
                    };
                    acc.count("swap", 1);
                    if let Some((sig, detail)) = judge_fail(&r, *height) {
                        acc.disagree(&format!("{}:swap", sig), format!("{:?}: {}", c, detail), replay_case(&world, &spec, json!({"must": "fail", "height": height}), &r, &wk.dir));
                    }
                }
                Case::PrevToKnownOther { height, kind, start } => {
                    use refmodel::world::{ACTIVE, FAILED_VALID, HAVE_DATA, VALID_TRANSACTIONS, VALID_TREE};
                    let btc = coin("bitcoin");
                    let cb = chain_with(btc, 2, 5);
                    let mut world = World::new(btc);
                    let h = *height as usize;
                    // the other block at height-1: same parent as the active one, own transactions
                    let parent = if h >= 2 { cb.blocks[h - 2].hash() } else { [0u8; 32] };
                    let other = refmodel::ser::Block::build(1, parent, 1_650_000_000, 0x1d00ffff, 99, vec![coinbase(*height - 1, 0xAB, vec![pay(200, 50 * COIN_VALUE)])]);
                    for (i, b) in cb.blocks.iter().enumerate() {
                        if i == h {
                            // stored block: prev-hash field rewritten, everything else (merkle root, transactions) intact
                            let mut t = b.clone();
                            t.header.prev = other.hash();
                            let mut rec = world.add_block(i as u64, i as u64, &t);
                            // the index still describes the original block of this height
                            rec.hash = b.hash();
                            rec.header = b.header.ser();
                            world.index_ops.pop();
                            world.put_rec(&rec);
                        } else {
                            world.add_block(i as u64, i as u64, b);
                        }
                    }
                    match kind {
                        0 => { world.add_block_status(9, *height - 1, &other, VALID_TRANSACTIONS | HAVE_DATA); }
                        1 => { world.add_block_status(9, *height - 1, &other, ACTIVE); }
                        2 => { world.add_block_status(9, *height - 1, &other, VALID_TRANSACTIONS | HAVE_DATA | FAILED_VALID); }
                        _ => world.put_rec(&IndexRec { hash: other.hash(), client_version: 270000, height: *height - 1, status: VALID_TREE, ntx: 0, file: 0, data_pos: 0, undo_pos: 0, header: other.header.ser() }),
                    }
                    let spec = RunSpec::new("bitcoin", "csvdump").verify(true).range(*start, None);
                    let r = match wk.world_run(&world, &spec) {
                        Ok(r) => r,
                        Err(m) => return acc.machinery(m),
                    };
                    acc.count("prev-field-names-another-known-block", 1);
                    if let Some((sig, detail)) = judge_fail(&r, *height) {
                        acc.disagree(&format!("{}:prev-field-names-another-known-block", sig), format!("{:?}: {}", c, detail), replay_case(&world, &spec, json!({"must": "fail", "height": height}), &r, &wk.dir));
                    }
                }
                Case::Widen { height, nth, width } => {
                    let btc = coin("bitcoin");
                    let cb = chain_with(btc, 2, 4);
                    let mut world = World::new(btc);
                    for (i, b) in cb.blocks.iter().enumerate() {
                        if i as u64 != *height {
                            world.add_block(i as u64, i as u64, b);
                            continue;
                        }
                        let raw = b.ser();
                        let off = tx_varint_offsets(&raw)[*nth];
                        let val = raw[off];
                        let mut wide = raw[..off].to_vec();
                        match width {
                            3 => wide.extend([0xfd, val, 0]),
                            5 => wide.extend([0xfe, val, 0, 0, 0]),
                            _ => wide.extend([0xff, val, 0, 0, 0, 0, 0, 0, 0]),
                        }
                        wide.extend_from_slice(&raw[off + 1..]);
                        let pos = world.place_raw(i as u64, &wide, wide.len() as u32);
                        world.put_rec(&IndexRec { hash: b.hash(), client_version: 270000, height: i as u64, status: refmodel::world::ACTIVE, ntx: b.txs.len() as u64, file: i as u64, data_pos: pos, undo_pos: 9, header: b.header.ser() });
                    }
                    let spec = RunSpec::new("bitcoin", "csvdump").verify(true);
                    let r = match wk.world_run(&world, &spec) {
                        Ok(r) => r,
                        Err(m) => return acc.machinery(m),
                    };
                    acc.count("compactsize-re-encoded", 1);
                    if let Some((sig, detail)) = judge_fail(&r, *height) {
                        acc.disagree(&format!("{}:compactsize-re-encoded", sig), format!("{:?}: {}", c, detail), replay_case(&world, &spec, json!({"must": "fail", "height": height}), &r, &wk.dir));
                    }
                }
                Case::AuxFlip { coin: cname, height, region, which } => {
                    let cn = coin(cname);
                    let mut cb = ChainBuilder::with_genesis(cn);
                    cb.version = cn.auxpow_from.unwrap() + 1;
                    for h in 1..4u64 {
                        let mut txs = vec![coinbase(h, 3, vec![pay(9, 50 * COIN_VALUE)])];
                        txs.push(TxP::base().build(h as u8));
                        txs.push(TxP::base().build(h as u8 + 40));
                        cb.push_raw(txs);
                    }
                    for b in cb.blocks.iter_mut().skip(1) {
                        b.auxpow = Some(refmodel::ser::AuxPow { parent_coinbase: coinbase(1, 1, vec![pay(1, 1)]), parent_hash: [7; 32], coinbase_branch: vec![[1; 32]; 2], coinbase_mask: 1, chain_branch: vec![[2; 32]], chain_mask: 0, branch_wide: 0, parent_header: cb_header() });
                    }
                    let mut world = World::new(cn);
                    let mut recs: Vec<IndexRec> = Vec::new();
                    for (i, b) in cb.blocks.iter().enumerate() {
                        recs.push(world.add_block(i as u64, i as u64, b));
                    }
                    let blk = &cb.blocks[*height as usize];
                    let raw = blk.ser();
                    let txlen: usize = blk.txs.iter().map(|t| t.ser().len()).sum();
                    let (lo, hi) = match *region {
                        "prev" => (4, 36),
                        "merkle" => (36, 68),
                        "txcount" => (raw.len() - txlen - 1, raw.len() - txlen),
                        _ => (raw.len() - txlen, raw.len()),
                    };
                    // first / last byte of the region, lowest / highest bit
                    let (off, bit) = match which { 0 => (lo, 0), 1 => (hi - 1, 7), 2 => (lo + (hi - lo) / 2, 3), _ => (hi - 1, 0) };
                    let pos = recs[*height as usize].data_pos as usize + off;
                    let f = world.files.get_mut(height).unwrap();
                    let mut dense = f.dense();
                    dense[pos] ^= 1 << bit;
                    f.chunks = vec![(0, dense)];
                    let start = if genesis(cn).is_none() { Some(1) } else { None };
                    let spec = RunSpec::new(cname, "csvdump").verify(true).range(start, None);
                    let r = match wk.world_run(&world, &spec) {
                        Ok(r) => r,
                        Err(m) => return acc.machinery(m),
                    };
                    acc.count(&format!("auxpow-flip:{}", region), 1);
                    if let Some((sig, detail)) = judge_fail(&r, *height) {
                        acc.disagree(&format!("{}:auxpow-block:{}", sig, region), format!("{:?}: {}", c, detail), replay_case(&world, &spec, json!({"must": "fail", "height": height}), &r, &wk.dir));
                    }
                }
                Case::Prefix { coin: cname, variant, start } => {
                    let cn = coin(cname);
                    let mut cb = chain_with(cn, 2, 4);
                    if let Some(v) = cn.auxpow_from {
                        // merged-mined blocks where the coin has them
                        for b in cb.blocks.iter_mut().skip(2) {
                            b.header.version = v + 1;
                            b.auxpow = Some(refmodel::ser::AuxPow { parent_coinbase: coinbase(1, 1, vec![pay(1, 1)]), parent_hash: [7; 32], coinbase_branch: vec![[1; 32]; 2], coinbase_mask: 1, chain_branch: vec![[2; 32]], chain_mask: 0, branch_wide: 0, parent_header: cb_header() });
                        }
                        // the header changed: relink
                        for i in 2..cb.blocks.len() {
                            let prev = cb.blocks[i - 1].hash();
                            cb.blocks[i].header.prev = prev;
                        }
                    }
                    let mut world = World::new(cn);
                    let mut ms = Vec::new();
                    for (h, b) in cb.blocks.iter().enumerate() {
                        let len = b.ser().len() as u32;
                        let v = if *variant == 5 { h as u8 % 5 } else { *variant };
                        let prefix = match v {
                            0 => len - 1,
                            1 => 81,
                            2 => 0,
                            3 => len + 1000,
                            _ => 0xffff_ffff,
                        };
                        world.add_block_prefixed(0, h as u64, b, prefix);
                        ms.push(refmodel::model::MBlock { height: h as u64, size: prefix, block: b.clone() });
                    }
                    let spec = RunSpec::new(cname, "csvdump").verify(true).range(*start, None);
                    let r = match wk.world_run(&world, &spec) {
                        Ok(r) => r,
                        Err(m) => return acc.machinery(m),
                    };
                    acc.count("must-pass:length-field-differs-from-block-length", 1);
                    let (s, e) = (r.declared_start().unwrap_or(start.unwrap_or(0)), r.declared_end().unwrap_or(3));
                    let mut bad = check_csvdump(&r, cn, &in_range(&ms, s, e), s, e);
                    if r.code != Some(0) && !r.panicked() {
                        bad.insert(0, ("consistent-chain-rejected:length-field".into(), format!("exit {:?}: {}", r.code, r.stderr.lines().take(4).collect::<Vec<_>>().join(" | "))));
                    }
                    if let Some((sig, detail)) = bad.into_iter().next() {
                        acc.disagree(&sig, format!("{:?}: {}", c, detail), replay_case(&world, &spec, json!({"must": "pass"}), &r, &wk.dir));
                    }
                }
                Case::ManyFiles => {
                    let btc = coin("bitcoin");
                    let cb = chain_with(btc, 2, 120);
                    let mut world = World::new(btc);
                    for (i, b) in cb.blocks.iter().enumerate() {
                        world.add_block(i as u64, i as u64, b);
                    }
                    let mut spec = RunSpec::new("bitcoin", "csvdump").verify(true);
                    spec.rlimit_nofile = 40;
                    let r = match wk.world_run(&world, &spec) {
                        Ok(r) => r,
                        Err(m) => return acc.machinery(m),
                    };
                    acc.count("must-pass", 1);
                    if r.code != Some(0) {
                        acc.disagree("consistent-chain-rejected:many-files", format!("120 consistent blocks in 120 blk files, RLIMIT_NOFILE=40: exit {:?}: {}", r.code, r.stderr.lines().take(3).collect::<Vec<_>>().join(" | ")), json!({"kind": "e1-described", "case": "ManyFiles"}));
                    } else {
                        acc.count("must-pass-passed", 1);
                    }
                }
                Case::Pruned { coin: cname, pruned, delta, witness_flag } => {
                    let cn = coin(cname);
                    let cb = chain_with(cn, 2, 7);
                    let mut world = World::new(cn);
                    for (h, b) in cb.blocks.iter().enumerate() {
                        let h = h as u64;
                        // pruned heights lived in blk00000.dat, which is gone; the others are in blk00001.dat
                        let mut r = world.add_block(if h < *pruned { 0 } else { 1 }, h, b);
                        if h < *pruned {
                            r.status = refmodel::world::VALID_SCRIPTS | if *witness_flag { refmodel::world::OPT_WITNESS } else { 0 };
                            world.put_rec(&r);
                        }
                    }
                    world.files.remove(&0);
                    let start = pruned + delta;
                    let spec = RunSpec::new(cname, "csvdump").verify(true).range(Some(start), None);
                    let r = match wk.world_run(&world, &spec) {
                        Ok(r) => r,
                        Err(m) => return acc.machinery(m),
                    };
                    acc.count("must-pass", 1);
                    acc.count("must-pass:pruned-lower-part", 1);
                    if r.ok() {
                        acc.count("must-pass-passed", 1);
                    }
                    let (s, e) = (r.declared_start().unwrap_or(start), r.declared_end().unwrap_or(6));
                    let mut bad = check_csvdump(&r, cn, &in_range(&cb.mblocks(), s, e), s, e);
                    if r.code != Some(0) {
                        bad.insert(0, ("consistent-chain-rejected:pruned-lower-part".into(), format!("exit {:?}: {}", r.code, r.stderr.lines().take(4).collect::<Vec<_>>().join(" | "))));
                    }
                    if let Some((sig, detail)) = bad.into_iter().next() {
                        acc.disagree(&sig, format!("{:?}: {}", c, detail), replay_case(&world, &spec, json!({"must": "pass"}), &r, &wk.dir));
                    }
                }
                Case::Multi { kinds, start } => {
                    let btc = coin("bitcoin");
                    let cb = chain_with(btc, 2, 5);
                    let mut world = World::new(btc);
                    let mut stored_prev_hash = cb.blocks[0].hash();
                    world.add_block(0, 0, &cb.blocks[0]);
                    // first processed height whose on-disk prev field differs from the indexed hash of the preceding height
                    let mut first_bad: Option<u64> = None;
                    let s0 = start.unwrap_or(0);
                    for h in 1..=4usize {
                        let orig = &cb.blocks[h];
                        let mut b = orig.clone();
                        let k = kinds[h - 1];
                        if k & 2 != 0 {
                            b.header.prev = stored_prev_hash;
                        }
                        if k & 1 != 0 {
                            b.header.nonce = b.header.nonce.wrapping_add(0x1357);
                        }
                        if b.header.prev != cb.blocks[h - 1].hash() && h as u64 >= s0.max(1) && first_bad.is_none() {
                            first_bad = Some(h as u64);
                        }
                        stored_prev_hash = b.hash();
                        // stored bytes = the deviating block; index record = the original block's hash and header
                        let mut rec = world.add_block((h % 2) as u64, h as u64, &b);
                        world.index_ops.pop();
                        rec.hash = orig.hash();
                        rec.header = orig.header.ser();
                        world.put_rec(&rec);
                    }
                    let spec = RunSpec::new("bitcoin", "csvdump").verify(true).range(*start, None);
                    let r = match wk.world_run(&world, &spec) {
                        Ok(r) => r,
                        Err(m) => return acc.machinery(m),
                    };
                    match first_bad {
                        Some(h) => {
                            acc.count("multi:must-fail", 1);
                            if let Some((sig, detail)) = judge_fail(&r, h) {
                                acc.disagree(&format!("{}:multi", sig), format!("{:?}: {}", c, detail), replay_case(&world, &spec, json!({"must": "fail", "height": h}), &r, &wk.dir));
                            }
                        }
                        None => {
                            acc.count("multi:must-pass", 1);
                            if r.code != Some(0) {
                                acc.disagree("consistent-chain-rejected:multi", format!("{:?}: every processed block has the merkle root of its txs and the indexed hash of the preceding height as prev-hash, but exit {:?}: {}", c, r.code, r.stderr.lines().take(3).collect::<Vec<_>>().join(" | ")), replay_case(&world, &spec, json!({"must": "pass"}), &r, &wk.dir));
                            }
                        }
                    }
                }
                Case::WrongGenesis { coin: cname } => {
                    let cn = coin(cname);
                    let mut cb = ChainBuilder::at(cn, 0);
                    cb.push(vec![]);
                    cb.push(vec![]);
                    let world = World::simple(cn, &cb.blocks, 0);
                    let spec = RunSpec::new(cname, "csvdump").verify(true);
                    let r = match wk.world_run(&world, &spec) {
                        Ok(r) => r,
                        Err(m) => return acc.machinery(m),
                    };
                    acc.count("wrong-genesis", 1);
                    if let Some((sig, detail)) = judge_fail(&r, 0) {
                        acc.disagree(&format!("{}:genesis", sig), format!("{:?}: {}", c, detail), replay_case(&world, &spec, json!({"must": "fail", "height": 0}), &r, &wk.dir));
                    }
                    // the same world must be accepted without --verify and from --start 1 with it (control)
                    let r2 = wk.run(&RunSpec::new(cname, "csvdump").verify(true).range(Some(1), None));
                    acc.transitions += 1;
                    if !r2.ok() {
                        acc.disagree("consistent-chain-rejected", format!("{:?} with --start 1: exit {:?} {}", c, r2.code, r2.stderr.lines().next().unwrap_or("")), replay_case(&world, &RunSpec::new(cname, "csvdump").verify(true).range(Some(1), None), json!({"must": "pass"}), &r2, &wk.dir));
                    }
                }
            }
        },
    );
    for p in parts {
        rep.merge(p);
    }
    let _ = std::fs::remove_dir_all(&root);
    rep
}

fn cb_header() -> refmodel::ser::Header {
    refmodel::ser::Header { version: 2, prev: [3; 32], merkle: [4; 32], time: 5, bits: 6, nonce: 7 }
}
