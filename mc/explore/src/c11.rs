//! C11 (E1) — XOR-obfuscated data directories give the same result as the plaintext ones (differential + model).
use crate::c03::{arrangements, build_world, Gap, Layout};
use crate::gen::dependent_chain;
use crate::hx::{observe, replay_case, Worker};
use crate::oracle::*;
use refmodel::chain::ChainBuilder;
use refmodel::coins::coin;
use refmodel::ev::{h8, is_thorough, par_fold, Report};
use refmodel::run::RunSpec;
use refmodel::ser::{Tx, TxIn, TxOut};
use serde_json::json;

fn keys() -> Vec<Vec<u8>> {
    let mut v: Vec<Vec<u8>> = Vec::new();
    for l in [1usize, 2, 3, 7, 8, 9, 64] {
        v.push((0..l).map(|i| (i as u8).wrapping_mul(91).wrapping_add(0xc3)).collect());
    }
    v.push(vec![0u8; 8]);
    // keys with particular byte values: some (not all) bytes zero, 0xff, a single non-zero byte at either end
    v.push(vec![0x5a, 0x31, 0x13, 0x00, 0x88, 0x9e, 0x21, 0xf4]);
    v.push(vec![0, 0, 0, 0, 0, 0, 0, 1]);
    v.push(vec![0x80, 0, 0, 0, 0, 0, 0, 0]);
    v.push(vec![0xff; 8]);
    // keys that look like something else: a length byte in front of 8 / 1 / 2 key bytes, a 65-byte key starting with 0x40,
    // ASCII digits, a key ending in a line feed
    v.push(vec![0x08, 0x11, 0x22, 0x33, 0x44, 0x55, 0x66, 0x77, 0x88]);
    v.push(vec![0x01, 0x5a]);
    v.push(vec![0x02, 0x5a, 0xa5]);
    v.push(std::iter::once(0x40u8).chain((0..64).map(|i| (i as u8).wrapping_mul(7).wrapping_add(3))).collect());
    v.push(b"12345678".to_vec());
    v.push(vec![0xde, 0xad, 0xbe, 0xef, 0x0a]);
    v
}

/// "any length": keys longer than a byte can count (and than two bytes can), with no period shorter than their length
fn long_keys() -> Vec<Vec<u8>> {
    [255usize, 256, 257, 300, 1024, 65_537].iter().map(|l| {
        let mut x: u32 = 0x2545_f491 ^ *l as u32;
        (0..*l).map(|_| { x = x.wrapping_mul(1_664_525).wrapping_add(1_013_904_223); (x >> 24) as u8 }).collect()
    }).collect()
}

pub fn run() -> Report {
    let mut rep = Report::new("C11", "e1");
    let thorough = is_thorough();
    let btc = coin("bitcoin");
    let n = if thorough { 4 } else { 3 };
    // logical chains: the small dependent chain, and one with 40 KiB and 100 KiB blocks (larger than the 32 KiB buffer)
    let big = {
        let mut cb = ChainBuilder::with_genesis(btc);
        for (k, sz) in [40_000usize, 100_000, 300].iter().enumerate() {
            let tx = Tx { version: 1, segwit: false, inputs: vec![TxIn::spend([0xee; 32], k as u32)], outputs: vec![TxOut { value: 5, script: vec![0x51; *sz] }, refmodel::chain::pay(9, 77)], locktime: 0, wide: 0 };
            cb.push(vec![tx]);
        }
        cb
    };
    // the same two logical chains for every coin (how a directory is stored has nothing to do with the coin it belongs to)
    let big_of = |c: &'static refmodel::coins::Coin| {
        let mut cb = ChainBuilder::with_genesis(c);
        for (k, sz) in [40_000usize, 100_000, 300].iter().enumerate() {
            let tx = Tx { version: 1, segwit: false, inputs: vec![TxIn::spend([0xee; 32], k as u32)], outputs: vec![TxOut { value: 5, script: vec![0x51; *sz] }, refmodel::chain::pay(9, 77)], locktime: 0, wide: 0 };
            cb.push(vec![tx]);
        }
        cb
    };
    // the small chain carries what today's blocks carry: coinbases stored in segwit form (witness reserved value) and segwit
    // transactions whose witness items have lengths that are no multiple of any key length - bytes the parser skips rather than
    // keeps, which must advance the key position like any others
    let small_of = |c: &'static refmodel::coins::Coin| {
        let mut cb = dependent_chain(c, 0, 1);
        let mut prev_cb: Option<[u8; 32]> = None;
        while cb.blocks.len() < n {
            let h = cb.next_height();
            let mut cbtx = refmodel::chain::coinbase(h, 7, vec![refmodel::chain::pay((h % 200) as u8 + 3, 50 * refmodel::chain::COIN_VALUE), TxOut { value: 0, script: refmodel::script::op_return(format!("h{}", h).as_bytes()) }]);
            if h % 2 == 1 {
                cbtx.segwit = true;
                cbtx.inputs[0].witness = vec![vec![0u8; 32]];
            }
            let mut txs = vec![cbtx.clone()];
            if let Some(p) = prev_cb {
                txs.push(Tx { version: 2, segwit: false, inputs: vec![TxIn::spend(p, 0)], outputs: vec![refmodel::chain::pay(200, 20), refmodel::chain::pay((h % 50) as u8 + 100, 29)], locktime: h as u32, wide: 0 });
            }
            let mut i1 = TxIn::spend([0xe5; 32], h as u32);
            i1.witness = vec![vec![0xde, 0xad, 0xbe, 0xef, 0x01], vec![0x30; 71], vec![0x02; 33]];
            let mut i2 = TxIn::spend([0xe6; 32], h as u32);
            i2.witness = vec![vec![], vec![0x51; h as usize + 1], vec![0x77; 107]];
            txs.push(Tx { version: 2, segwit: true, inputs: vec![i1, i2], outputs: vec![refmodel::chain::pay(201, 11), TxOut { value: 0, script: refmodel::script::op_return(format!("segwit {}", h).as_bytes()) }], locktime: 0, wide: 0 });
            prev_cb = Some(cbtx.txid());
            cb.push_raw(txs);
        }
        cb
    };
    let per_coin: Vec<(&'static refmodel::coins::Coin, ChainBuilder, ChainBuilder)> = refmodel::coins::COINS.iter().map(|c| (c, small_of(c), big_of(c))).collect();
    #[derive(Clone)]
    struct Case {
        big: bool,
        layout: Layout,
        key: Vec<u8>,
        cbs: Vec<&'static str>,
    }
    let mut cases = Vec::new();
    let all5 = vec!["csvdump", "unspentcsvdump", "balances", "simplestats", "opreturn"];
    for (ai, arr) in arrangements(n).into_iter().enumerate() {
        for (gi, g) in [Gap::None, Gap::FakeMagic].iter().enumerate() {
            let files = (0..3).map(|f| (f as u64, None, arr[f].iter().map(|b| (*b, g.clone(), None)).collect())).collect();
            let layout = Layout { files, index_form: 0, junk_keys: false, foreign_entries: false, label: format!("arr#{}/gap{}", ai, gi) };
            for (ki, key) in keys().into_iter().enumerate() {
                let cbs = if (ai + ki) % 6 == 0 { all5.clone() } else { vec!["csvdump"] };
                cases.push(Case { big: false, layout: layout.clone(), key, cbs });
            }
        }
    }
    for (ai, arr) in arrangements(n).into_iter().enumerate() {
        if ai % 12 != 5 {
            continue;
        }
        let files = (0..3).map(|f| (f as u64, None, arr[f].iter().map(|b| (*b, Gap::FakeMagic, None)).collect())).collect();
        let layout = Layout { files, index_form: 0, junk_keys: false, foreign_entries: false, label: format!("arr#{}/gap1/long key", ai) };
        for (ki, key) in long_keys().into_iter().enumerate() {
            cases.push(Case { big: false, layout: layout.clone(), key, cbs: if (ai + ki) % 4 == 0 { all5.clone() } else { vec!["csvdump"] } });
        }
    }
    // big blocks: forward and backward physical order, with odd gaps so that block starts are not key-aligned
    for order in [vec![0usize, 1, 2, 3], vec![3, 2, 1, 0], vec![2, 0, 3, 1]] {
        let blocks = order.iter().map(|b| (*b, Gap::FakeMagic, None)).collect();
        let layout = Layout { files: vec![(0, None, blocks)], index_form: 0, junk_keys: false, foreign_entries: false, label: format!("big/{:?}", order) };
        for key in keys().into_iter().chain(long_keys()) {
            cases.push(Case { big: true, layout: layout.clone(), key, cbs: all5.clone() });
        }
    }
    // sparse offsets beyond 4 GiB
    let far: Vec<u64> = if thorough { vec![(1 << 32) + 13, 5 << 30] } else { vec![(1 << 32) + 13] };
    for off in far {
        let mut blocks: Vec<(usize, Gap, Option<u64>)> = vec![(n - 1, Gap::None, Some(off))];
        blocks.extend((0..n - 1).map(|b| (b, Gap::Zeros, None)));
        let layout = Layout { files: vec![(2, None, blocks)], index_form: 0, junk_keys: false, foreign_entries: false, label: format!("offset={}", off) };
        for key in keys() {
            cases.push(Case { big: false, layout: layout.clone(), key, cbs: vec!["csvdump", "unspentcsvdump"] });
        }
    }
    rep.rule = format!("all arrangements of {} blocks into <=3 files x gaps (none / 13 odd garbage bytes) x keys of length 1,2,3,7,8,9,64, 8 zero bytes, 8-byte keys with one zero byte / one non-zero byte at either end / all 0xff, XOR applied from file offset 0, every other case with --verify, the coin rotating over all 8 (bitcoin for a third of the cases); blocks of 40 KiB and 100 KiB in forward / backward / mixed order; sparse offsets beyond 4 GiB; csvdump for every case and all five callbacks for every 6th: output must be identical to the plaintext directory's (differential oracle; the plaintext csvdump run is additionally compared with the model once per layout); non-trivial = distinct (layout, key)", n);
    rep.bound = json!({"blocks": n, "cases": cases.len(), "keys": keys().len()});
    rep.not_covered = vec!["empty xor.dat (outside the statement)".into()];
    let root = refmodel::world::scratch_root();
    let parts = par_fold(
        &cases,
        || Report::new("C11", "e1"),
        |w, i, c, acc| {
            let wk = Worker::new(&root, w);
            // every other case with --verify: the checks it adds must see the de-obfuscated bytes too
            let verify = i % 2 == 1;
            let verb = ((i / 2) % 4) as u8;
            // the coin by case: bitcoin for the first of every three, the other seven in turn
            let (cn, csmall, cbig) = if i % 3 == 0 { &per_coin[0] } else { &per_coin[1 + (i / 3) % (per_coin.len() - 1)] };
            acc.count(&format!("coin:{}", cn.name), 1);
            let chain = if c.big { cbig } else { csmall };
            let mut plain_world = build_world(cn, &chain.blocks, 0, &c.layout);
            // every fourth case: other key files within reach - the home directory (= the data directory here) holds a
            // Bitcoin Core default blocks folder with a key of its own, there is a key one level up, in a sub-folder, and
            // under look-alike names; only <data dir>/xor.dat says how THIS directory is stored
            if i % 4 == 1 {
                use refmodel::world::Extra;
                let other = vec![0x6b, 0x65, 0x79, 0x21, 0x00, 0xa5, 0x5a, 0xff];
                plain_world.extra.push(Extra::Dir(".bitcoin/blocks".into()));
                plain_world.extra.push(Extra::File(".bitcoin/blocks/xor.dat".into(), other.clone()));
                plain_world.extra.push(Extra::Dir("blocks".into()));
                plain_world.extra.push(Extra::File("blocks/xor.dat".into(), other.clone()));
                plain_world.extra.push(Extra::File("../xor.dat".into(), other.clone()));
                plain_world.extra.push(Extra::File("xor.dat.old".into(), other.clone()));
                plain_world.extra.push(Extra::File("XOR.DAT".into(), other));
                acc.count("other-key-files-within-reach", 1);
            }
            // every fifth case: some blk files live in another directory and are linked back (older files moved to a second
            // disk); the key file stays where it is and says how every blk file of THIS directory is stored
            if i % 5 == 2 {
                let nos: Vec<u64> = plain_world.files.keys().cloned().collect();
                for (k, n) in nos.iter().enumerate() {
                    let pick = match (i / 5) % 3 {
                        0 => k == 0,
                        1 => k + 1 == nos.len(),
                        _ => true,
                    };
                    if pick {
                        plain_world.extra.push(refmodel::world::Extra::Archived(*n));
                    }
                }
                acc.count("blk-files-linked-from-another-directory", 1);
            }
            let mut xor_world = plain_world.clone();
            xor_world.xor_key = Some(c.key.clone());
            acc.states += 1;
            acc.nontrivial.insert(h8(format!("{}{:?}{}", c.layout.label, c.key, c.big).as_bytes()));
            acc.count(&format!("keylen:{}", c.key.len()), 1);
            if acc.samples.is_empty() {
                acc.sample(json!({"layout": c.layout.label, "key": refmodel::ser::hex(&c.key), "callbacks": c.cbs}));
            }
            // plaintext observations
            if let Err(m) = wk.materialise(&plain_world) {
                return acc.machinery(m);
            }
            let mut plain_obs = Vec::new();
            for cbn in &c.cbs {
                let mut ps = RunSpec::new(cn.name, cbn).verify(verify);
                if !matches!(*cbn, "simplestats" | "opreturn") {
                    ps.verbosity = verb;
                }
                let r = wk.run(&ps);
                acc.transitions += 1;
                if verify && r.code != Some(0) {
                    acc.count("note:plaintext-verify-run-failed", 1);
                }
                plain_obs.push(observe(&r, &wk.dir));
            }
            if let Err(m) = wk.materialise(&xor_world) {
                return acc.machinery(m);
            }
            // every third case: xor.dat is a symbolic link to the key file (absolute target, much longer than the key, or
            // a relative one shorter than it) - how the key file is reached is not part of the data
            if i % 3 != 0 {
                let link = wk.data().join("xor.dat");
                if let Ok(meta) = std::fs::symlink_metadata(&link) {
                    if meta.is_file() {
                        let keyfile = wk.dir.join("k");
                        let _ = std::fs::rename(&link, &keyfile);
                        let target = if i % 3 == 1 { keyfile.clone() } else { std::path::PathBuf::from("../k") };
                        if std::os::unix::fs::symlink(&target, &link).is_err() {
                            return acc.machinery("cannot create xor.dat symlink".into());
                        }
                        acc.count(if i % 3 == 1 { "xor.dat-is-absolute-symlink" } else { "xor.dat-is-relative-symlink" }, 1);
                    }
                }
            }
            for (i, cbn) in c.cbs.iter().enumerate() {
                let mut spec = RunSpec::new(cn.name, cbn).verify(verify);
                if !matches!(*cbn, "simplestats" | "opreturn") {
                    spec.verbosity = verb;
                }
                let r = wk.run(&spec);
                acc.transitions += 1;
                acc.count(if verify { "runs-with-verify" } else { "runs-without-verify" }, 1);
                // the statement is a relation between two runs: the obfuscated directory must give what the plaintext one gives
                // (whether that common result is right is the business of C01/C07/C08/C15/C16)
                let mut bad: Vec<Mismatch> = Vec::new();
                let o = observe(&r, &wk.dir);
                // above the default verbosity the log itself mentions the key and the de-obfuscation: files and exit status only
                let same = if spec.verbosity > 0 { o["files"] == plain_obs[i]["files"] && o["code"] == plain_obs[i]["code"] && o["signal"] == plain_obs[i]["signal"] } else { o == plain_obs[i] };
                if !same {
                    let sig = if r.code != Some(0) { "run-failed" } else { "output-differs-from-plaintext-directory" };
                    bad.push((sig.into(), format!("xor run {} vs plaintext {}", o.to_string().chars().take(400).collect::<String>(), plain_obs[i].to_string().chars().take(400).collect::<String>())));
                }
                if let Some((sig, detail)) = bad.into_iter().next() {
                    let rc = if c.big || xor_world.files.values().any(|f| f.len > 300_000) { json!({"kind": "e1-described", "layout": c.layout.label, "key": refmodel::ser::hex(&c.key), "callback": cbn}) } else { replay_case(&xor_world, &spec, json!({"oracle": "identical to plaintext directory and model"}), &r, &wk.dir) };
                    acc.disagree(&format!("xor:{}", sig), format!("{} key {} {}: {}", c.layout.label, refmodel::ser::hex(&c.key), cbn, detail.chars().take(500).collect::<String>()), rc);
                    break;
                }
            }
        },
    );
    for p in parts {
        rep.merge(p);
    }
    // short / interrupted / failing reads on the obfuscated blk files (every read the run issues, one or two deviations):
    // the de-obfuscation must follow the bytes actually delivered. Blocks of 40 and 100 KiB make every block span several reads.
    for (label, chain, key) in [("xor-small", &per_coin[0].1, vec![0xc3u8, 0x1e, 0x79]), ("xor-big", &big, (0..7u8).map(|i| i.wrapping_mul(91).wrapping_add(0xc3)).collect::<Vec<u8>>())] {
        let blocks = (0..chain.blocks.len()).map(|b| (b, Gap::FakeMagic, None)).collect();
        let layout = Layout { files: vec![(0, None, blocks)], index_form: 0, junk_keys: false, foreign_entries: false, label: label.to_string() };
        let plain_world = build_world(btc, &chain.blocks, 0, &layout);
        let mut xor_world = plain_world.clone();
        xor_world.xor_key = Some(key);
        crate::c10::read_deviations(&mut rep, &root, "C11", &xor_world, &plain_world, label, &["csvdump", "opreturn"]);
    }
    let _ = std::fs::remove_dir_all(&root);
    rep
}
