//! E1 harness: per-worker scratch directories, execution of the real binary on a world, observations and replay.
use refmodel::run::{run_bin, strip_time, subject_bin, RunResult, RunSpec};
use refmodel::world::World;
use serde_json::{json, Value};
use std::fs;
use std::path::{Path, PathBuf};

pub struct Worker {
    pub dir: PathBuf,
    pub bin: PathBuf,
}

impl Worker {
    pub fn new(root: &Path, k: usize) -> Worker {
        let dir = root.join(format!("w{}", k));
        let _ = fs::remove_dir_all(&dir);
        fs::create_dir_all(&dir).unwrap();
        Worker { dir, bin: subject_bin() }
    }
    pub fn data(&self) -> PathBuf {
        self.dir.join("data")
    }
    pub fn dump(&self) -> PathBuf {
        self.dir.join("dump")
    }
    pub fn materialise(&self, w: &World) -> Result<(), String> {
        let _ = fs::remove_dir_all(self.data());
        let _ = fs::remove_dir_all(self.dir.join("chainstate")); // a world may place the node's UTXO database next to its block directory
        w.materialise(&self.data()).map_err(|e| format!("materialise: {}", e))
    }
    pub fn fresh_dump(&self) {
        let _ = fs::remove_dir_all(self.dump());
        fs::create_dir_all(self.dump()).unwrap();
    }
    /// Run one spec on the already materialised world with a fresh dump folder.
    pub fn run(&self, spec: &RunSpec) -> RunResult {
        self.fresh_dump();
        run_bin(&self.bin, &self.data(), &self.dump(), spec)
    }
    /// Run keeping whatever is in the dump folder.
    pub fn run_keep(&self, spec: &RunSpec) -> RunResult {
        fs::create_dir_all(self.dump()).unwrap();
        run_bin(&self.bin, &self.data(), &self.dump(), spec)
    }
    pub fn world_run(&self, w: &World, spec: &RunSpec) -> Result<RunResult, String> {
        self.materialise(w)?;
        Ok(self.run(spec))
    }
    pub fn cleanup(&self) {
        let _ = fs::remove_dir_all(self.data());
        let _ = fs::remove_dir_all(self.dump());
    }
}

impl Drop for Worker {
    fn drop(&mut self) {
        let _ = fs::remove_dir_all(&self.dir);
    }
}

pub use refmodel::run::observe;

pub fn replay_case(w: &World, spec: &RunSpec, expected: Value, r: &RunResult, root: &Path) -> Value {
    // environment values naming the scratch directory (fault plans, logs) are stored relative to <ROOT>
    let mut sd = spec.describe();
    let rs = root.display().to_string();
    if let Some(env) = sd["env"].as_array_mut() {
        for kv in env.iter_mut() {
            if let Some(v) = kv[1].as_str() {
                kv[1] = json!(v.replace(&rs, "<ROOT>"));
            }
        }
    }
    json!({"kind": "e1", "world": w.describe(), "spec": sd, "expected": expected, "observed": observe(r, root)})
}

/// `explore --replay <file>`: re-materialise, re-run twice, require identical observations equal to the recorded one.
pub fn replay(path: &str) -> i32 {
    let doc: Value = serde_json::from_str(&fs::read_to_string(path).expect("read replay")).expect("json");
    let case = &doc["case"];
    if case["kind"] != "e1" {
        eprintln!("replay: case kind {:?} is not an E1 case", case["kind"]);
        return 2;
    }
    let root = refmodel::world::scratch_root();
    let world = World::from_description(&case["world"]);
    let spec = RunSpec::from_description(&case["spec"]);
    let mut obs = Vec::new();
    for k in 0..2 {
        let wk = Worker::new(&root, k);
        let mut spec = spec.clone();
        for kv in spec.env.iter_mut() {
            kv.1 = kv.1.replace("<ROOT>", &wk.dir.display().to_string());
        }
        match wk.world_run(&world, &spec) {
            Ok(r) => obs.push(observe(&r, &wk.dir)),
            Err(e) => {
                eprintln!("MACHINERY-ERROR {}", e);
                return 2;
            }
        }
    }
    let _ = fs::remove_dir_all(&root);
    println!("property: {}  signature: {}", doc["property"], doc["signature"]);
    println!("detail: {}", doc["detail"].as_str().unwrap_or(""));
    println!("argv: rusty-blockparser {}", spec.argv(Path::new("<ROOT>/data"), Path::new("<ROOT>/dump")).join(" "));
    if obs[0] != obs[1] {
        println!("REPLAY-NONDETERMINISTIC: two replays differ");
        return 2;
    }
    let recorded = &case["observed"];
    // scratch directory names differ between the recording worker and the replay worker: both are <ROOT>
    if &obs[0] == recorded {
        println!("REPLAY-CONFIRMED: both replays reproduce the recorded observation");
        println!("expected: {}", serde_json::to_string_pretty(&case["expected"]).unwrap());
        println!("observed: {}", serde_json::to_string_pretty(&obs[0]).unwrap());
        1
    } else {
        println!("REPLAY-DIFFERS: the current tree no longer produces the recorded observation");
        println!("recorded: {}", serde_json::to_string_pretty(recorded).unwrap());
        println!("now: {}", serde_json::to_string_pretty(&obs[0]).unwrap());
        0
    }
}
