//! C04 — only the active chain is delivered (E1; model checking over block-index histories).
use crate::gen::dependent_chain;
use crate::hx::{replay_case, Worker};
use crate::oracle::*;
use refmodel::chain::{coinbase, pay, COIN_VALUE};
use refmodel::coins::coin;
use refmodel::ev::{h8, is_thorough, par_fold, Report};
use refmodel::run::RunSpec;
use refmodel::ser::Block;
use refmodel::world::*;
use serde_json::json;

#[derive(Clone, Copy, Debug, PartialEq, Eq, Hash, PartialOrd, Ord)]
enum Kind {
    HeaderOnly,     // VALID_TREE, no file fields
    StaleData,      // never connected: VALID_TRANSACTIONS | HAVE_DATA
    FailedData,     // FAILED_VALID | HAVE_DATA, validity TRANSACTIONS
    FailedChild,    // FAILED_CHILD, header only
    ReorgedBranch,  // two once-active blocks (VALID_SCRIPTS, data+undo) forking below the tip, ending below it
    InvalidatedBranch, // once fully validated, then marked invalid (invalidateblock): FAILED_VALID + FAILED_CHILD descendants, reaching ABOVE the tip
    UnconnectedAbove,  // downloaded but never connected blocks (VALID_TRANSACTIONS|HAVE_DATA) building on the tip, above it
    KeyTwin,           // never-connected record whose key agrees with the active block's hash in its first / last bytes (5 variants by height and `later`)
}

#[derive(Clone, Copy, Debug, PartialEq, Eq, Hash, PartialOrd, Ord)]
struct Extra {
    kind: Kind,
    height: u64,
    /// competitor key sorts after the active block's key at the same height (LevelDB order)
    later: bool,
}

#[derive(Clone, Debug)]
struct Case {
    /// --end (None = whole chain): a range end at a height where a competitor exists
    end: Option<u64>,
    /// seed of the deterministic getrandom stream => iteration order of the subject's HashMaps (ties)
    hash_seed: u8,
    /// competitor blocks with data are stored in the active chain's blk file, right after their parent
    /// (| parent | stale | active | child |) instead of in a file of their own
    same_file: bool,
    extras: Vec<Extra>,
    /// 0: all records once, log only; 1: data records first written header-only, compacted into a table, then upgraded; 2: table only
    form: u8,
    cb: &'static str,
    /// 0: all blk files present. Otherwise the active blocks of heights >= 3 live in blk00002.dat, which is not usable:
    /// 1 removed, 2 a dangling symbolic link, 3 a directory of that name. The run may fail (C10's business) but must not
    /// fall back to a competitor whose file happens to be there.
    tip_file: u8,
    /// another process holds the index's LOCK file (a running node): the run may refuse to start, but whatever it delivers
    /// must be the active chain of the index as it is on disk (table files AND write-ahead log)
    lock_held: bool,
    /// heights below this one are pruned: their records keep their validity (genesis: VALID_TRANSACTIONS, as Core leaves it)
    /// but carry neither HAVE_DATA nor a position; the run starts at this height (0 = nothing pruned)
    pruned_below: u64,
}

const TIP: u64 = 4;

fn competitor(active: &[Block], height: u64, tag: u32, later: bool, parent: Option<[u8; 32]>) -> Block {
    let prev = parent.unwrap_or_else(|| if height == 0 { [0u8; 32] } else if (height as usize) <= active.len() { active[height as usize - 1].hash() } else { [0x77; 32] });
    let txs = vec![coinbase(height, 0xC000 + tag, vec![pay(222, 50 * COIN_VALUE)]), crate::c01::TxP::base().build(200 + tag as u8)];
    let mut nonce = 0u32;
    loop {
        let b = Block::build(1, prev, 1_700_000_000 + tag, 0x1d00ffff, nonce, txs.clone());
        let ok = match active.get(height as usize) {
            Some(a) => (b.hash() > a.hash()) == later,
            None => true,
        };
        if ok {
            return b;
        }
        nonce += 1;
    }
}

pub fn run() -> Report {
    let mut rep = Report::new("C04", "e1");
    let thorough = is_thorough();
    let btc = coin("bitcoin");
    let chain = dependent_chain(btc, 0, TIP as usize + 1);
    let all = chain.mblocks();
    // singles
    let mut singles: Vec<Extra> = Vec::new();
    for h in [2u64, 4, 5, 7] {
        singles.push(Extra { kind: Kind::HeaderOnly, height: h, later: true });
    }
    for h in [2u64, 4] {
        singles.push(Extra { kind: Kind::HeaderOnly, height: h, later: false });
    }
    for h in [1u64, 3, 4] {
        for later in [false, true] {
            singles.push(Extra { kind: Kind::StaleData, height: h, later });
        }
    }
    for h in [2u64, 4] {
        for later in [false, true] {
            singles.push(Extra { kind: Kind::FailedData, height: h, later });
        }
    }
    for h in [3u64, 5] {
        singles.push(Extra { kind: Kind::FailedChild, height: h, later: true });
    }
    for later in [false, true] {
        singles.push(Extra { kind: Kind::ReorgedBranch, height: 2, later });
        singles.push(Extra { kind: Kind::InvalidatedBranch, height: 4, later });
    }
    singles.push(Extra { kind: Kind::InvalidatedBranch, height: 3, later: true });
    singles.push(Extra { kind: Kind::UnconnectedAbove, height: 5, later: true });
    for h in [1u64, 2, 3, 4] {
        for later in [false, true] {
            singles.push(Extra { kind: Kind::KeyTwin, height: h, later });
        }
    }
    let mut sets: Vec<Vec<Extra>> = vec![vec![]];
    for s in &singles {
        sets.push(vec![*s]);
    }
    for (i, a) in singles.iter().enumerate() {
        for (j, b) in singles.iter().enumerate().skip(i + 1) {
            sets.push(vec![*a, *b]);
            if thorough {
                for c in singles.iter().skip(j + 1) {
                    sets.push(vec![*a, *b, *c]);
                }
            }
        }
    }
    let forms: Vec<u8> = vec![0, 1, 2];
    let cbs: Vec<&'static str> = vec!["csvdump", "unspentcsvdump"];
    let mut cases = Vec::new();
    for s in &sets {
        for &form in &forms {
            for cb in &cbs {
                cases.push(Case { end: None, hash_seed: 1, same_file: false, extras: s.clone(), form, cb, tip_file: 0, lock_held: false, pruned_below: 0 });
                if form == 0 {
                    cases.push(Case { end: None, hash_seed: 1, same_file: true, extras: s.clone(), form, cb, tip_file: 0, lock_held: false, pruned_below: 0 });
                }
            }
        }
        // range ends at / just above / below a competitor's height, under three HashMap iteration orders
        if s.len() == 1 || thorough {
            let hs: Vec<u64> = s.iter().map(|x| x.height).filter(|h| *h >= 1 && *h < TIP).collect();
            for h in hs {
                for end in [h, h + 1] {
                    if end >= 1 && end <= TIP {
                        for hash_seed in [1u8, 2, 6, 9, 17, 18, 19, 28, 47, 48] {
                            cases.push(Case { end: Some(end), hash_seed, same_file: false, extras: s.clone(), form: 0, cb: "csvdump", tip_file: 0, lock_held: false, pruned_below: 0 });
                        }
                    }
                }
            }
        }
    }
    for x in &singles {
        for tip_file in 1..=3u8 {
            for cb in &cbs {
                cases.push(Case { end: None, hash_seed: 1, same_file: false, extras: vec![*x], form: 0, cb, tip_file, lock_held: false, pruned_below: 0 });
            }
        }
    }
    for x in &singles {
        for form in [0u8, 1, 3] {
            cases.push(Case { end: None, hash_seed: 1, same_file: false, extras: vec![*x], form, cb: "csvdump", tip_file: 0, lock_held: true, pruned_below: 0 });
        }
        for cb in &cbs {
            cases.push(Case { end: None, hash_seed: 1, same_file: false, extras: vec![*x], form: 3, cb, tip_file: 0, lock_held: false, pruned_below: 0 });
        }
    }
    // a pruning node: heights 0..2 pruned, the run starts at 3; every single extra record under three hash seeds
    for x in &singles {
        for hash_seed in [1u8, 2, 6] {
            cases.push(Case { end: None, hash_seed, same_file: false, extras: vec![*x], form: 0, cb: "csvdump", tip_file: 0, lock_held: false, pruned_below: 3 });
        }
    }
    rep.rule = "active chain of 5 blocks plus every set of <= 2 (thorough: <= 3) extra index records drawn from {header-only (VALID_TREE) at/below/beyond the tip, never-connected stale sibling with data, failed block with data, FAILED_CHILD header, once-active reorged-out 2-block branch, invalidated (FAILED_VALID/FAILED_CHILD, formerly fully validated) 3-block branch reaching above the tip, never-connected blocks with data above the tip, never-connected records whose key shares the first 8 / last 8 / all but one byte with the active block's hash or begins with 8 zero bytes}, each competitor at an occupied height in both LevelDB key orders (nonce ground); competitor data stored in a file of its own or inside the active chain's file right after its parent; index histories {log only, header-only-then-upgraded across a compaction, table only, pre-reorganisation chain in the table files with today's chain in the write-ahead log}; the index's LOCK file held by another process; --end at and just above each competitor's height under 10 HashMap iteration orders (seeds of the deterministic getrandom stream); csvdump and unspentcsvdump; non-trivial = distinct case with >= 1 extra record".into();
    rep.bound = json!({"active_chain": 5, "extras_per_index": if thorough { "<=3" } else { "<=2" }, "singles": singles.len(), "sets": sets.len(), "cases": cases.len()});
    rep.not_covered = vec!["two fully validated competing tips of equal height (not decidable from the index alone)".into(), "adversarial header bytes in header-only records".into()];
    let root = refmodel::world::scratch_root();
    let parts = par_fold(
        &cases,
        || Report::new("C04", "e1"),
        |w, _i, c, acc| {
            let wk = Worker::new(&root, w);
            let mut world = World::new(btc);
            // active chain in file 0 (when `same_file`, the active blocks are placed after the competitors of their height, below)
            let mut recs: Vec<(IndexRec, bool)> = Vec::new(); // (record, is data-bearing)
            if !c.same_file {
                for (h, b) in chain.blocks.iter().enumerate() {
                    let raw = b.ser();
                    let file = if c.tip_file != 0 && h >= 3 { 2 } else { 0 };
                    let pos = world.place_raw(file, &raw, raw.len() as u32);
                    recs.push((IndexRec { hash: b.hash(), client_version: 270000, height: h as u64, status: if h == 0 { VALID_SCRIPTS | HAVE_DATA } else { ACTIVE | if h % 2 == 1 { refmodel::world::OPT_WITNESS } else { 0x100 } }, ntx: b.txs.len() as u64, file, data_pos: pos, undo_pos: 8 + h as u64, header: b.header.ser() }, true));
                }
            }
            let comp_file: u64 = if c.same_file { 0 } else { 1 };
            // competitor blocks are collected first and written height by height
            let mut pending: Vec<(u64, Block, u64)> = Vec::new(); // (height, block, status)
            let mut twins: Vec<(IndexRec, u8)> = Vec::new();
            let mut foreign_txids: Vec<String> = Vec::new();
            for (k, x) in c.extras.iter().enumerate() {
                let tag = (k as u32 + 1) * 16 + x.height as u32;
                let mut add = |_world: &mut World, b: &Block, height: u64, status: u64| {
                    for t in &b.txs {
                        foreign_txids.push(refmodel::ser::hash_hex(&t.txid()));
                    }
                    pending.push((height, b.clone(), status));
                };
                match x.kind {
                    Kind::HeaderOnly => add(&mut world, &competitor(&chain.blocks, x.height, tag, x.later, None), x.height, VALID_TREE),
                    Kind::StaleData => add(&mut world, &competitor(&chain.blocks, x.height, tag, x.later, None), x.height, VALID_TRANSACTIONS | HAVE_DATA),
                    Kind::FailedData => add(&mut world, &competitor(&chain.blocks, x.height, tag, x.later, None), x.height, VALID_TRANSACTIONS | HAVE_DATA | FAILED_VALID),
                    Kind::FailedChild => add(&mut world, &competitor(&chain.blocks, x.height, tag, x.later, Some([0x66; 32])), x.height, VALID_TREE | FAILED_CHILD),
                    Kind::InvalidatedBranch => {
                        // fork below the tip, three blocks: ends above the active tip
                        let b1 = competitor(&chain.blocks, x.height, tag, x.later, None);
                        let b2 = competitor(&chain.blocks, x.height + 1, tag + 1, x.later, Some(b1.hash()));
                        let b3 = competitor(&chain.blocks, x.height + 2, tag + 2, x.later, Some(b2.hash()));
                        add(&mut world, &b1, x.height, ACTIVE | FAILED_VALID);
                        // (the top block was invalidated itself AND descends from an invalidated block - invalidateblock on a
                        // block and later on its parent: both flags)
                        add(&mut world, &b2, x.height + 1, ACTIVE | FAILED_CHILD);
                        add(&mut world, &b3, x.height + 2, ACTIVE | FAILED_CHILD | if x.later { FAILED_VALID } else { 0 });
                    }
                    Kind::UnconnectedAbove => {
                        let b1 = competitor(&chain.blocks, x.height, tag, x.later, Some(chain.blocks[TIP as usize].hash()));
                        let b2 = competitor(&chain.blocks, x.height + 1, tag + 1, x.later, Some(b1.hash()));
                        add(&mut world, &b1, x.height, VALID_TRANSACTIONS | HAVE_DATA);
                        add(&mut world, &b2, x.height + 1, VALID_TRANSACTIONS | HAVE_DATA);
                    }
                    Kind::KeyTwin => {
                        let b = &chain.blocks[x.height as usize];
                        twins.push((IndexRec { hash: b.hash(), client_version: 270000, height: x.height, status: ACTIVE, ntx: 1, file: 0, data_pos: 0, undo_pos: 0, header: b.header.ser() }, (x.height * 2 + x.later as u64) as u8));
                    }
                    Kind::ReorgedBranch => {
                        let b1 = competitor(&chain.blocks, x.height, tag, x.later, None);
                        let b2 = competitor(&chain.blocks, x.height + 1, tag + 1, x.later, Some(b1.hash()));
                        add(&mut world, &b1, x.height, ACTIVE);
                        add(&mut world, &b2, x.height + 1, ACTIVE);
                    }
                }
            }
            // write the blocks: competitors of height h go before the active block of height h when they share its file
            let max_h = pending.iter().map(|p| p.0).max().unwrap_or(0).max(TIP);
            for h in 0..=max_h {
                for (ph, b, status) in pending.iter().filter(|p| p.0 == h) {
                    let (file, pos) = if status & HAVE_DATA != 0 {
                        let raw = b.ser();
                        (comp_file, world.place_raw(comp_file, &raw, raw.len() as u32))
                    } else {
                        (0, 0)
                    };
                    recs.push((IndexRec { hash: b.hash(), client_version: 270000, height: *ph, status: *status, ntx: if status & HAVE_DATA != 0 { b.txs.len() as u64 } else { 0 }, file, data_pos: pos, undo_pos: 77, header: b.header.ser() }, status & HAVE_DATA != 0));
                }
                if c.same_file && (h as usize) < chain.blocks.len() {
                    let b = &chain.blocks[h as usize];
                    let raw = b.ser();
                    let pos = world.place_raw(0, &raw, raw.len() as u32);
                    recs.push((IndexRec { hash: b.hash(), client_version: 270000, height: h, status: if h == 0 { VALID_SCRIPTS | HAVE_DATA } else { ACTIVE | if h % 2 == 1 { refmodel::world::OPT_WITNESS } else { 0x100 } }, ntx: b.txs.len() as u64, file: 0, data_pos: pos, undo_pos: 8 + h, header: b.header.ser() }, true));
                }
            }
            match c.form {
                0 => {
                    for (r, _) in &recs {
                        world.put_rec(r);
                    }
                }
                1 => {
                    for (r, data) in &recs {
                        if *data {
                            let mut h = r.clone();
                            h.status = VALID_TREE;
                            h.ntx = 0;
                            world.put_rec(&h);
                        } else {
                            world.put_rec(r);
                        }
                    }
                    world.index_ops.push(IndexOp::Compact);
                    for (r, data) in recs.iter().rev() {
                        if *data {
                            world.put_rec(r);
                        }
                    }
                }
                3 => {
                    // the index as a node leaves it after a reorganisation: the table files hold the chain as it was when they were
                    // written (active blocks below the fork plus the competitors), the write-ahead log holds the rest of today's chain
                    let fork = c.extras.iter().map(|x| x.height).min().unwrap_or(2);
                    let n_active = chain.blocks.len();
                    for (i, (r, _)) in recs.iter().enumerate() {
                        if i >= n_active || r.height < fork {
                            world.put_rec(r);
                        }
                    }
                    world.index_ops.push(IndexOp::Compact);
                    for (i, (r, _)) in recs.iter().enumerate() {
                        if i < n_active && r.height >= fork {
                            world.put_rec(r);
                        }
                    }
                }
                _ => {
                    for (r, _) in &recs {
                        world.put_rec(r);
                    }
                    world.index_ops.push(IndexOp::Compact);
                }
            }
            for (r, variant) in &twins {
                world.add_key_twin(r, *variant);
            }
            // every third case: an older copy of the directory nested into itself - `blocks/index` describes the chain as it was
            // before the tip arrived, with the competitors of this case still counted as connected; the blk files of the copy
            // are byte-identical prefixes of the real ones (append-only), so every position it names is valid out here too
            if _i % 3 == 1 {
                let tip_hash = chain.blocks[TIP as usize].hash();
                let mut old = World::new(btc);
                for (r, data) in &recs {
                    if *data && r.hash != tip_hash {
                        let mut o = r.clone();
                        o.status = ACTIVE;
                        old.put_rec(&o);
                    }
                }
                for (n, f) in &world.files {
                    old.files.insert(*n, f.clone());
                }
                world.extra.push(refmodel::world::Extra::Nested("blocks".into(), Box::new(old)));
                acc.count("older-copy-of-the-directory-nested-as-blocks/", 1);
            }
            // every fourth case: the node's UTXO database next to the block directory (`../chainstate`), as an older flush left
            // it (the block index is flushed first; a crash before the chainstate flush leaves its best-block record behind):
            // it names a competitor of this case that carries no failure flag - a once-active block that was reorganised out
            // afterwards - or, without one, an older block of the active chain; half of them with value obfuscation
            if _i % 4 == 2 {
                let named = pending.iter().filter(|p| p.2 & (FAILED_VALID | FAILED_CHILD) == 0).map(|p| p.1.hash()).last().unwrap_or_else(|| chain.blocks[TIP as usize - 1].hash());
                let key: Vec<u8> = if _i % 8 == 2 { vec![0x5a, 0x01, 0xfe, 0x33, 0x80, 0x7f, 0x10, 0xc4] } else { vec![0u8; 8] };
                let mut kv: Vec<(Vec<u8>, Vec<u8>)> = Vec::new();
                let mut okey = vec![0x0eu8, 0x00];
                okey.extend_from_slice(b"obfuscate_key");
                let mut oval = vec![0x08u8];
                oval.extend_from_slice(&key);
                kv.push((okey, oval));
                kv.push((b"B".to_vec(), named.iter().zip(key.iter().cycle()).map(|(b, k)| b ^ k).collect()));
                world.extra.push(refmodel::world::Extra::LevelDb("../chainstate".into(), kv));
                acc.count("chainstate-of-an-older-flush-next-to-the-block-directory", 1);
            }
            if c.pruned_below > 0 {
                for (r, _) in recs.iter().take(chain.blocks.len()) {
                    if r.height < c.pruned_below {
                        let mut p = r.clone();
                        p.status = if r.height == 0 { VALID_TRANSACTIONS } else { VALID_SCRIPTS };
                        world.put_rec(&p);
                    }
                }
                acc.count("pruned-lower-part", 1);
            }
            let mut spec = RunSpec::new("bitcoin", c.cb).range(if c.pruned_below > 0 { Some(c.pruned_below) } else { None }, c.end);
            spec.verbosity = (_i % 4) as u8;
            if c.hash_seed != 1 {
                spec.env.push(("VERIF_DETRAND".into(), c.hash_seed.to_string()));
            }
            // the reader's calendar clock is no input: one case in five runs with a clock that is behind the chain's timestamps
            // (a board without a battery, a restored snapshot, an offline analysis machine) - before every block but genesis,
            // a little less than two hours before the tip (the node rule for blocks from the future splits the chain there), or at the epoch
            match _i % 10 {
                3 => spec.env.push(("VERIF_REALTIME".into(), "1300000000".into())),
                8 => spec.env.push(("VERIF_REALTIME".into(), if _i % 20 == 8 { "0".into() } else { "1599995000".to_string() })),
                _ => {}
            }
            if let Err(m) = wk.materialise(&world) {
                return acc.machinery(m);
            }
            if c.tip_file != 0 {
                let f = wk.data().join("blocks").join("blk00002.dat");
                let f = if f.exists() { f } else { wk.data().join("blk00002.dat") };
                if !f.exists() {
                    return acc.machinery(format!("blk00002.dat not found under {}", wk.data().display()));
                }
                let _ = std::fs::remove_file(&f);
                match c.tip_file {
                    2 => {
                        let _ = std::os::unix::fs::symlink("../archive/blk00002.dat", &f);
                    }
                    3 => {
                        let _ = std::fs::create_dir(&f);
                    }
                    _ => {}
                }
                acc.count("blk-file-of-the-active-tip-unusable", 1);
            }
            let lock_fd = if c.lock_held {
                use std::os::unix::io::AsRawFd;
                let f = std::fs::OpenOptions::new().create(true).write(true).open(wk.data().join("index").join("LOCK"));
                match f {
                    Ok(f) => {
                        if unsafe { libc::flock(f.as_raw_fd(), libc::LOCK_EX | libc::LOCK_NB) } != 0 {
                            return acc.machinery("cannot lock the index LOCK file".into());
                        }
                        acc.count("index-lock-held-by-another-process", 1);
                        Some(f)
                    }
                    Err(e) => return acc.machinery(format!("open LOCK: {}", e)),
                }
            } else {
                None
            };
            let r = wk.run(&spec);
            drop(lock_fd);
            acc.states += 1;
            acc.transitions += 1;
            if !c.extras.is_empty() {
                acc.nontrivial.insert(h8(format!("{:?}", c).as_bytes()));
            }
            for x in &c.extras {
                acc.count(&format!("{:?}", x.kind), 1);
            }
            acc.outcomes.insert(h8(&r.files.values().flat_map(|v| refmodel::hash::sha256(v).to_vec()).collect::<Vec<u8>>()));
            if acc.samples.is_empty() && c.extras.len() == 2 {
                acc.sample(json!({"extras": format!("{:?}", c.extras), "index_history": c.form, "callback": c.cb}));
            }
            let (s, e) = (r.declared_start().unwrap_or(0), r.declared_end().unwrap_or(TIP));
            let mut bad: Vec<Mismatch> = Vec::new();
            let want_end = c.end.unwrap_or(TIP).min(TIP);
            if r.ok() && e != want_end {
                bad.push(("wrong-tip".into(), format!("processed up to height {} but the range ends at {}", e, want_end)));
            }
            let range = in_range(&all, s, e);
            if (c.tip_file != 0 || c.lock_held) && !r.ok() {
                // the run failed because a block of the active chain cannot be read: how it fails is C10's business;
                // what must not happen is judged below (a competitor's transactions in anything it wrote)
                bad.clear();
            } else {
                bad.extend(if c.cb == "csvdump" { check_csvdump(&r, btc, &range, s, e) } else { check_unspent(&r, btc, &range, s, e) });
            }
            // foreign transactions in any output
            for (name, content) in &r.files {
                let text = String::from_utf8_lossy(content);
                if let Some(t) = foreign_txids.iter().find(|t| text.contains(t.as_str())) {
                    bad.insert(0, ("competitor-transaction-in-output".into(), format!("{} contains txid {} of a block outside the active chain", name, t)));
                    break;
                }
            }
            // prev-hash linkage of delivered rows
            if c.cb == "csvdump" {
                if let Some(t) = r.files.iter().find(|(k, _)| k.starts_with("blocks-")).map(|(_, v)| String::from_utf8_lossy(v).into_owned()) {
                    let rows: Vec<Vec<&str>> = t.lines().map(|l| l.split(';').collect()).collect();
                    for w2 in rows.windows(2) {
                        if w2[0].len() > 4 && w2[1].len() > 4 && w2[1][4] != w2[0][0] {
                            bad.insert(0, ("delivered-sequence-not-linked".into(), format!("row of height {} has hashPrev {} but the previous delivered block is {}", w2[1][1], w2[1][4], w2[0][0])));
                            break;
                        }
                    }
                }
            }
            if let Some((sig, detail)) = bad.into_iter().next() {
                // failure signature: which kind of record displaced the active one
                let culprit = c.extras.iter().filter(|x| matches!(x.kind, Kind::StaleData | Kind::FailedData | Kind::ReorgedBranch | Kind::InvalidatedBranch | Kind::UnconnectedAbove | Kind::KeyTwin)).map(|x| format!("{:?}@occupied-height:{}", x.kind, if x.later { "key-sorts-later" } else { "key-sorts-earlier" })).collect::<Vec<_>>().join("+");
                let sig = if culprit.is_empty() { sig } else { format!("{}[{}]", sig.split('-').next().unwrap_or(""), culprit) };
                acc.disagree(&sig, format!("{:?}: {}", c, detail), replay_case(&world, &spec, expected_brief("output == model of the active chain", s, e), &r, &wk.dir));
            }
        },
    );
    for p in parts {
        rep.merge(p);
    }
    long_index_case(&mut rep, &root, if thorough { 1_000_000 } else { 150_000 }, "csvdump");
    high_heights(&mut rep, &root);
    moving_index(&mut rep, &root);
    let _ = std::fs::remove_dir_all(&root);
    rep
}

/// Scale: an index as long as a real one (150 000 / 1 000 000 linked records) with a fully validated stale branch of 12 blocks
/// forking off genesis. Heights 0..=12 are read (`--end 12`): the active chain there is the one the tip's prev_hash walk reaches,
/// however far below the tip it lies.
pub fn long_index_case(rep: &mut Report, root: &std::path::Path, total: usize, cb: &str) {
    let total = std::env::var("VERIF_LONG_INDEX").ok().and_then(|v| v.parse().ok()).unwrap_or(total);
    let btc = coin("bitcoin");
    let real = dependent_chain(btc, 0, 14);
    let mut stale: Vec<Block> = Vec::new();
    for h in 1..=12u64 {
        let parent = if h == 1 { None } else { Some(stale[h as usize - 2].hash()) };
        stale.push(competitor(&real.blocks, h, 40 + h as u32, h % 2 == 0, parent));
    }
    let world = crate::gen::headers_only_world(btc, &real, total, &stale);
    let wk = Worker::new(root, 960);
    let mut spec = RunSpec::new("bitcoin", cb).range(None, Some(12));
    spec.env.push(("VERIF_RUN_TIMEOUT".into(), "900".into()));
    let desc = json!({"kind": "e1-described", "layout": format!("{} linked index records (14 with block data, the rest headers only), stale validated branch at heights 1..12, --end 12", total)});
    match wk.world_run(&world, &spec) {
        Err(m) => rep.machinery(m),
        Ok(r) => {
            rep.states += 1;
            rep.transitions += 1;
            rep.count(&format!("long-index-{}", total), 1);
            rep.nontrivial.insert(h8(format!("long-index-{}", total).as_bytes()));
            let all = real.mblocks();
            let bad = if cb == "csvdump" { check_csvdump(&r, btc, &in_range(&all, 0, 12), 0, 12) } else { check_unspent(&r, btc, &in_range(&all, 0, 12), 0, 12) };
            if let Some((sig, detail)) = bad.into_iter().next() {
                rep.disagree(&format!("long-index:{}", sig), detail.chars().take(500).collect(), desc);
            }
        }
    }
    wk.cleanup();
}

/// The same competitors around a tip whose height is large (a pruned node of an old chain, a coin with short block
/// intervals): the active chain is 4 blocks at heights B..B+3 for bases B at and around powers of two, and above, beside or
/// on top of it sit one kind of record that must not be delivered.
fn high_heights(rep: &mut Report, root: &std::path::Path) {
    let btc = coin("bitcoin");
    let bases: Vec<u64> = if is_thorough() {
        vec![65_535, 65_536, 1 << 20, (1 << 20) + (1 << 19) + 5, (1 << 21) - 4, 3 << 20, 5_600_000, (1 << 24) + 1, (1 << 31) - 2, 1 << 31, (1 << 32) + 3, 1 << 40]
    } else {
        vec![65_536, 1 << 20, (1 << 20) + (1 << 19) + 5, 5_600_000, 1 << 31, (1 << 32) + 3]
    };
    // ... and across the powers of ten (a height compared or ordered as TEXT changes its rank where it gains a digit)
    let bases: Vec<u64> = bases.into_iter().chain([99_998u64, 999_998, 9_999_998, 99_999_998, 9_999_999_998]).collect();
    let wk = Worker::new(root, 970);
    for (bi, &base) in bases.iter().enumerate() {
        let chain = dependent_chain(btc, base, 4);
        let all = chain.mblocks();
        let tip = base + 3;
        for kind in 0..5usize {
            for cb in ["csvdump", "unspentcsvdump"] {
                let mut world = World::simple(btc, &chain.blocks, base);
                let mut foreign: Vec<String> = Vec::new();
                let mk = |h: u64, tag: u32, parent: [u8; 32]| Block::build(1, parent, 1_700_000_000 + tag, 0x1d00ffff, tag, vec![coinbase(h, 0xC400 + tag, vec![pay(223, 50 * COIN_VALUE)]), crate::c01::TxP::base().build(180 + tag as u8)]);
                let label = match kind {
                    0 => {
                        // never-connected blocks with data on top of the tip (received just before shutdown)
                        let b1 = mk(tip + 1, 1, chain.blocks[3].hash());
                        let b2 = mk(tip + 2, 2, b1.hash());
                        for (k, b) in [&b1, &b2].into_iter().enumerate() {
                            foreign.extend(b.txs.iter().map(|t| refmodel::ser::hash_hex(&t.txid())));
                            world.add_block_status(1, tip + 1 + k as u64, b, VALID_TRANSACTIONS | HAVE_DATA);
                        }
                        "never-connected-above-the-tip"
                    }
                    1 => {
                        // headers far ahead of the tip (initial sync)
                        let mut parent = chain.blocks[3].hash();
                        for k in 1..=6u64 {
                            let b = mk(tip + k, 10 + k as u32, parent);
                            world.put_rec(&IndexRec { hash: b.hash(), client_version: 270000, height: tip + k, status: VALID_TREE, ntx: 0, file: 0, data_pos: 0, undo_pos: 0, header: b.header.ser() });
                            parent = b.hash();
                        }
                        "headers-ahead-of-the-tip"
                    }
                    2 => {
                        // never-connected sibling of the tip and of the block below it
                        for (k, h) in [tip - 1, tip].into_iter().enumerate() {
                            let b = mk(h, 20 + k as u32, chain.blocks[(h - base) as usize - 1].hash());
                            foreign.extend(b.txs.iter().map(|t| refmodel::ser::hash_hex(&t.txid())));
                            world.add_block_status(1, h, &b, VALID_TRANSACTIONS | HAVE_DATA);
                        }
                        "never-connected-siblings"
                    }
                    3 => {
                        // invalidated branch reaching above the tip
                        let mut parent = chain.blocks[2].hash();
                        for k in 0..3u64 {
                            let b = mk(tip + k, 30 + k as u32, parent);
                            foreign.extend(b.txs.iter().map(|t| refmodel::ser::hash_hex(&t.txid())));
                            world.add_block_status(1, tip + k, &b, ACTIVE | if k == 0 { FAILED_VALID } else if k == 2 && bi % 2 == 1 { FAILED_VALID | FAILED_CHILD } else { FAILED_CHILD });
                            parent = b.hash();
                        }
                        "invalidated-branch-above-the-tip"
                    }
                    _ => {
                        // a failed block with data on top of the tip
                        let b = mk(tip + 1, 40, chain.blocks[3].hash());
                        foreign.extend(b.txs.iter().map(|t| refmodel::ser::hash_hex(&t.txid())));
                        world.add_block_status(1, tip + 1, &b, VALID_TRANSACTIONS | HAVE_DATA | FAILED_VALID);
                        "failed-block-above-the-tip"
                    }
                };
                let mut spec = RunSpec::new("bitcoin", cb).range(Some(base), None);
                spec.env.push(("VERIF_DETRAND".into(), ["1", "2", "6"][(bi + kind) % 3].to_string()));
                let r = match wk.world_run(&world, &spec) {
                    Ok(r) => r,
                    Err(m) => {
                        rep.machinery(m);
                        continue;
                    }
                };
                rep.states += 1;
                rep.transitions += 1;
                rep.count(&format!("high-tip:{}", label), 1);
                rep.nontrivial.insert(h8(format!("high-{}-{}-{}", base, kind, cb).as_bytes()));
                let (s, e) = (r.declared_start().unwrap_or(base), r.declared_end().unwrap_or(tip));
                let mut bad: Vec<Mismatch> = Vec::new();
                if r.ok() && e != tip {
                    bad.push(("wrong-tip".into(), format!("processed up to height {} but the active chain ends at {}", e, tip)));
                }
                let range = in_range(&all, s, e);
                bad.extend(if cb == "csvdump" { check_csvdump(&r, btc, &range, s, e) } else { check_unspent(&r, btc, &range, s, e) });
                for (name, content) in &r.files {
                    let text = String::from_utf8_lossy(content);
                    if let Some(t) = foreign.iter().find(|t| text.contains(t.as_str())) {
                        bad.insert(0, ("competitor-transaction-in-output".into(), format!("{} contains txid {} of a block outside the active chain", name, t)));
                        break;
                    }
                }
                if let Some((sig, detail)) = bad.into_iter().next() {
                    rep.disagree(&format!("high-tip[{}]:{}", label, sig), format!("active chain at heights {}..{} ({}), {}: {}", base, tip, label, cb, detail.chars().take(400).collect::<String>()), replay_case(&world, &spec, expected_brief("output == model of the active chain", s, e), &r, &wk.dir));
                }
            }
        }
    }
    wk.cleanup();
}


/// The node keeps running: while the parser is in the middle of its blocks another process replaces the block index and adds
/// blk files (the chain grows; the tip is reorganised away by a longer branch; a deeper reorganisation). The change is applied
/// by the shim immediately before EVERY read of a blk file in turn. Whatever snapshot(s) of the index an implementation uses,
/// the delivered sequence must be a chain - each delivered block's prev-hash is the hash of the block delivered before it,
/// heights ascending by one - and every delivered block must belong to the active chain of the index as it was at the start
/// or as it is at the end; a block that is in neither (never active) must not appear. Runs that fail are not judged.
fn moving_index(rep: &mut Report, root: &std::path::Path) {
    let btc = coin("bitcoin");
    let chain = dependent_chain(btc, 0, 4);
    let mut a = World::new(btc);
    for (i, b) in chain.blocks.iter().enumerate() {
        a.add_block(i as u64, i as u64, b);
    }
    let mk = |h: u64, tag: u32, parent: [u8; 32]| Block::build(1, parent, 1_600_100_000 + tag, 0x1d00ffff, tag, vec![coinbase(h, 0xD000 + tag, vec![pay(224, 50 * COIN_VALUE)]), crate::c01::TxP::base().build(190 + tag as u8)]);
    let mut variants: Vec<(&str, World, Vec<[u8; 32]>)> = Vec::new();
    for v in 0..3usize {
        let mut w = a.clone();
        let (fork, n_new, label) = [(4usize, 2usize, "chain-grows"), (3, 2, "tip-reorganised-by-a-longer-branch"), (2, 4, "deeper-reorganisation")][v];
        let mut parent = chain.blocks[fork - 1].hash();
        let mut active_b: Vec<[u8; 32]> = chain.blocks[..fork].iter().map(|b| b.hash()).collect();
        for k in 0..n_new {
            let h = (fork + k) as u64;
            let b = mk(h, (v * 10 + k) as u32, parent);
            w.add_block_status(4 + k as u64, h, &b, ACTIVE);
            parent = b.hash();
            active_b.push(b.hash());
        }
        variants.push((label, w, active_b));
    }
    let active_a: Vec<[u8; 32]> = chain.blocks.iter().map(|b| b.hash()).collect();
    // number the blk reads of the undisturbed run
    let wk0 = Worker::new(root, 980);
    if let Err(m) = wk0.materialise(&a) {
        return rep.machinery(m);
    }
    let mut s0 = RunSpec::new("bitcoin", "csvdump");
    s0.env.push(("FAULTFS_RPREFIX".into(), format!("{}/blk", wk0.data().display())));
    s0.env.push(("FAULTFS_LOG".into(), wk0.dir.join("shim.log").display().to_string()));
    let r0 = wk0.run(&s0);
    let n_reads = std::fs::read_to_string(wk0.dir.join("shim.log")).unwrap_or_default().lines().filter(|l| l.starts_with("R ") && l.contains(" read ")).count();
    if !r0.ok() || n_reads == 0 {
        // the undisturbed run over index A is wrong on this tree: the other families judge such runs (same chain, same oracle);
        // without a fault-free read sequence this family cannot be built
        rep.count("note:moving-index:undisturbed-run-failed-or-read-nothing", 1);
    rep.exhaustive = false;
        rep.not_covered.push(format!("index replaced while running: the undisturbed run fails or reads no block on this tree (exit {:?}, {} reads); family not run", r0.code, n_reads));
        return;
    }
    drop(wk0);
    let mut cases = Vec::new();
    for v in 0..variants.len() {
        for k in 0..n_reads {
            for cb in ["csvdump"] {
                cases.push((v, k, cb));
            }
        }
    }
    let parts = par_fold(
        &cases,
        || Report::new("C04", "e1"),
        |w, _i, (v, k, cb), acc| {
            let wk = Worker::new(root, 981 + w);
            let (label, wb, active_b) = &variants[*v];
            if let Err(m) = wk.materialise(&a) {
                return acc.machinery(m);
            }
            let later = wk.dir.join("data-later");
            let _ = std::fs::remove_dir_all(&later);
            if let Err(e) = wb.materialise(&later) {
                return acc.machinery(format!("materialise: {}", e));
            }
            let mut spec = RunSpec::new("bitcoin", cb);
            spec.env.push(("FAULTFS_RPREFIX".into(), format!("{}/blk", wk.data().display())));
            spec.env.push(("FAULTFS_RHOOK".into(), format!("{}:rm -rf '{}/index' && cp -r '{}/.' '{}/'", k, wk.data().display(), later.display(), wk.data().display())));
            let r = wk.run(&spec);
            acc.states += 1;
            acc.transitions += 1;
            acc.nontrivial.insert(h8(format!("moving{}{}{}", v, k, cb).as_bytes()));
            acc.count(&format!("index-replaced-while-running:{}", label), 1);
            if !wk.data().join("blk00004.dat").exists() {
                return acc.machinery(format!("moving index: the hook before read #{} did not run", k));
            }
            if r.code != Some(0) {
                acc.count("index-replaced-while-running:run-failed(not judged)", 1);
                return;
            }
            let text = match r.files.iter().find(|(n, _)| n.starts_with("blocks-")) {
                Some((_, c)) => String::from_utf8_lossy(c).into_owned(),
                None => return,
            };
            let rows: Vec<Vec<&str>> = text.lines().map(|l| l.split(';').collect()).filter(|c: &Vec<&str>| c.len() >= 5).collect();
            let known: std::collections::BTreeSet<String> = active_a.iter().chain(active_b.iter()).map(|h| refmodel::ser::hash_hex(h)).collect();
            let mut bad: Option<(String, String)> = None;
            for (i, row) in rows.iter().enumerate() {
                if !known.contains(row[0]) {
                    bad = Some(("delivered-block-in-neither-active-chain".into(), format!("row {}: block {} at height {}", i, row[0], row[1])));
                    break;
                }
                if i > 0 && (row[4] != rows[i - 1][0] || row[1].parse::<u64>().ok() != rows[i - 1][1].parse::<u64>().ok().map(|h| h + 1)) {
                    bad = Some(("delivered-sequence-is-not-a-chain".into(), format!("row {}: block {} (height {}) has prev-hash {}, the block delivered before it is {} (height {})", i, row[0], row[1], row[4], rows[i - 1][0], rows[i - 1][1])));
                    break;
                }
            }
            if let Some((sig, d)) = bad {
                acc.disagree(&format!("moving-index[{}]:{}", label, sig), format!("index replaced immediately before blk read #{}: {}", k, d), json!({"kind": "e1-described", "variant": label, "hook_before_blk_read": k, "callback": cb}));
            }
        },
    );
    for p in parts {
        rep.merge(p);
    }
}
