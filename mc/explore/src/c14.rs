//! C14 (E1) — adversarial bytes in scriptPubKey / scriptSig / witness items of an otherwise valid chain:
//! every callback completes with exit 0 and everything not derived from the field is unchanged.
use crate::hx::{replay_case, Worker};
use crate::oracle::*;
use refmodel::chain::{coinbase, pay, ChainBuilder, COIN_VALUE};
use refmodel::coins::{Coin, COINS};
use refmodel::ev::{h8, par_fold, Report};
use refmodel::families;
use refmodel::model::{self, MBlock};
use refmodel::run::{RunResult, RunSpec};
use refmodel::script;
use refmodel::ser::{hash_hex, Tx, TxIn, TxOut};
use refmodel::world::World;
use serde_json::json;
use std::collections::BTreeSet;

/// ~300 strings: one representative per oracle class and per truncation class, plus the extremes.
pub fn adversarial_list() -> Vec<Vec<u8>> {
    let mut v: Vec<Vec<u8>> = Vec::new();
    let ex = families::extremes();
    for s in &ex.scripts {
        if s.len() == 100_000 && !matches!(s[0], 0x00 | 0x4c | 0x4d | 0x4e | 0x51 | 0x6a | 0x76 | 0xff) {
            continue;
        }
        v.push(s.clone());
    }
    for (_, t) in families::bitcoin_templates().into_iter().chain(families::fork_templates()) {
        // every truncation class: cut inside each token and at each token boundary
        for cut in [1usize, 2, 3, t.len() / 2, t.len() - 1] {
            if cut < t.len() {
                v.push(t[..cut].to_vec());
            }
        }
        v.push(t);
    }
    for (i, s) in families::witness_lookalikes().scripts.into_iter().enumerate() {
        if i % 1500 == 7 {
            v.push(s);
        }
    }
    for (i, s) in families::multisig_lookalikes(4).scripts.into_iter().enumerate() {
        if i % 2500 == 11 {
            v.push(s);
        }
    }
    for sh in families::fork_push_family(false) {
        for (i, s) in sh.scripts.into_iter().enumerate() {
            if i % 40 == 3 && s.len() < 70_000 {
                v.push(s);
            }
        }
    }
    for op in 0..=255u8 {
        v.push(vec![op]);
    }
    // OP_RETURN payloads of the payload grammar: the special byte values in every push form, and the 76 / 80 / 255-byte text classes
    for (label, s) in refmodel::families::opreturn_payload_scripts() {
        if label.starts_with("special:") || label.starts_with("len76:") || label.starts_with("len80:") || label.starts_with("len255:") {
            v.push(s);
        }
    }
    // the hashes the host chain's own outputs pay to, under the other templates: a row may not be disturbed by another
    // output that carries the same hash / key in a different script kind
    for seed in [41u8, 42, 43, 44, 60, 61, 62] {
        let h = refmodel::script::h20(seed);
        v.push(refmodel::script::p2sh(&h));
        v.push(refmodel::script::p2pkh(&h));
        v.push(refmodel::script::witness(0, &h));
        v.push(refmodel::script::op_return(&h));
        let mut k = vec![0x02u8];
        k.extend_from_slice(&h);
        k.extend_from_slice(&h[..12]);
        v.push(refmodel::script::p2pk(&k));
        v.push(refmodel::script::p2pkh(&refmodel::hash::hash160(&k)));
        v.push(refmodel::script::p2sh(&refmodel::hash::hash160(&k)));
    }
    // more pushes than a byte-sized counter holds, in the shape of a multisig script
    for k in [255usize, 256, 257, 272] {
        let mut s = vec![0x51];
        for i in 0..k {
            s.extend([0x01, (i % 250) as u8 + 1]);
        }
        s.push(if k % 256 == 16 { 0x60 } else { 0x51 });
        s.push(0xae);
        v.push(s);
    }
    // beyond 1 MiB (any chunked reader / hex encoder / buffer): one filler string and one OP_RETURN with a PUSHDATA4 payload
    v.push(vec![0x51; 1_200_000]);
    v.push({
        let mut s = vec![0x6a, 0x4e];
        s.extend_from_slice(&(1_100_000u32).to_le_bytes());
        s.extend(std::iter::repeat(b'm').take(1_100_000));
        s
    });
    let mut seen = BTreeSet::new();
    v.retain(|s| seen.insert(s.clone()));
    v
}

#[derive(Clone, Copy, Debug, PartialEq)]
enum Field {
    ScriptPubKey,
    ScriptSig,
    Witness,
    /// the scriptSig of a coinbase input (one block per string; the coinbase claims more than the subsidy, so that what
    /// counts as a coinbase shows in the fee total)
    CoinbaseSig,
}

fn host_chain(c: &'static Coin, field: Field, strings: &[Vec<u8>]) -> (ChainBuilder, BTreeSet<String>) {
    if field == Field::CoinbaseSig {
        let mut cb = ChainBuilder::with_genesis(c);
        let mut injected = BTreeSet::new();
        for (i, s) in strings.iter().enumerate() {
            let h = cb.next_height();
            let cbtx = Tx { version: 1, segwit: false, inputs: vec![TxIn::coinbase(s.clone())], outputs: vec![pay(63, model::base_reward(h) + 1234 + i as u64), pay(64, 5)], locktime: i as u32, wide: 0 };
            injected.insert(hash_hex(&cbtx.txid()));
            let plain = Tx { version: 1, segwit: false, inputs: vec![TxIn::spend([0xd1; 32], i as u32)], outputs: vec![pay(65, 7)], locktime: 0, wide: 0 };
            cb.push_raw(vec![cbtx, plain]);
        }
        cb.push(vec![]);
        return (cb, injected);
    }
    let mut cb = ChainBuilder::with_genesis(c);
    // ordinary neighbours before and after
    let mk_plain = |h: u64, k: u8| Tx { version: 1, segwit: false, inputs: vec![TxIn::spend([0xe0 + k; 32], 0)], outputs: vec![pay(40 + k, 7 * COIN_VALUE), TxOut { value: 0, script: script::op_return(format!("host{}-{}", h, k).as_bytes()) }], locktime: 0, wide: 0 };
    cb.push(vec![mk_plain(1, 1)]);
    let mut txs = vec![mk_plain(2, 2)];
    let mut injected = BTreeSet::new();
    for (i, s) in strings.iter().enumerate() {
        let mut inp = TxIn::spend([0xd0; 32], i as u32);
        let mut tx = Tx { version: 1, segwit: false, inputs: vec![], outputs: vec![], locktime: i as u32, wide: 0 };
        match field {
            // the injected output (index 1) sits between host outputs of the same transaction, data outputs included: their
            // rows are not derived from it either
            Field::ScriptPubKey => tx.outputs = vec![TxOut { value: 0, script: script::op_return(format!("hostpre{}", i).as_bytes()) }, TxOut { value: 0, script: s.clone() }, pay(60, 1), TxOut { value: 0, script: script::op_return(format!("hostpost{}", i).as_bytes()) }],
            Field::ScriptSig => {
                inp.script_sig = s.clone();
                tx.outputs = vec![pay(61, 2)];
            }
            Field::CoinbaseSig => unreachable!(),
            Field::Witness => {
                tx.segwit = true;
                inp.witness = vec![vec![1, 2, 3], s.clone(), vec![]];
                tx.outputs = vec![pay(62, 3)];
            }
        }
        tx.inputs = vec![inp];
        injected.insert(hash_hex(&tx.txid()));
        txs.push(tx);
    }
    txs.push(mk_plain(2, 3));
    cb.push(txs);
    cb.push(vec![mk_plain(3, 4)]);
    (cb, injected)
}

/// Compare with the model, masking the cells derived from an injected scriptPubKey.
fn judge(r: &RunResult, c: &'static Coin, cbn: &str, field: Field, range: &[MBlock], injected: &BTreeSet<String>, s: u64, e: u64) -> Vec<Mismatch> {
    let mut v = expect_success(r);
    if r.stderr.contains("panicked") {
        v.insert(0, ("run-panicked".into(), r.stderr.lines().take(3).collect::<Vec<_>>().join(" | ")));
    }
    if !v.is_empty() {
        return v;
    }
    if field != Field::ScriptPubKey {
        // nothing is derived from scriptSig / witness bytes except their own hex cell (and the txid for scriptSig): exact comparison
        return match cbn {
            "csvdump" => check_csvdump(r, c, range, s, e),
            "unspentcsvdump" => check_unspent(r, c, range, s, e),
            "balances" => check_balances(r, c, range, s, e),
            // per-type lines (counts, shares, first occurrences) are C05/C06/C15's business
            "simplestats" => check_stats(r, c, range).into_iter().filter(|m| !m.0.contains("transaction-types") && !m.0.contains("share-of") && !m.0.contains("per-type")).collect(),
            _ => check_opreturn(r, c, range),
        };
    }
    let is_inj = |line: &str| injected.iter().any(|t| line.starts_with(t.as_str()) || line.contains(&format!("txid: {}", t)));
    match cbn {
        "csvdump" => {
            let m = model::csvdump(c, range);
            let mask = |text: &str| -> String {
                text.lines()
                    .map(|l| {
                        if is_inj(l) && l.split(';').nth(1) == Some("1") {
                            // blank the address cell (last column)
                            match l.rfind(';') {
                                Some(p) => format!("{};<masked>\n", &l[..p]),
                                None => format!("{}\n", l),
                            }
                        } else {
                            format!("{}\n", l)
                        }
                    })
                    .collect()
            };
            for (k, want) in [("blocks", &m.blocks), ("transactions", &m.transactions), ("tx_in", &m.tx_in), ("tx_out", &m.tx_out)] {
                let name = format!("{}-{}-{}.csv", k, s, e);
                match r.file_str(&name) {
                    None => v.push((format!("csvdump-file-missing"), name)),
                    Some(got) => {
                        let (g, w) = if k == "tx_out" { (mask(&got), mask(want)) } else { (got, want.clone()) };
                        if g != w {
                            v.push((format!("csvdump-{}-differs-outside-injected-field", k), first_diff(&g, &w)));
                        }
                    }
                }
            }
        }
        "unspentcsvdump" | "balances" => {
            let (u, _, _, _) = model::utxo_set(c, range);
            let (name, want): (String, BTreeSet<String>) = if cbn == "balances" {
                // only addresses of host outputs are judged: the injected outputs carry value 0 and an address that is C05/C06's business
                let host: Vec<model::Utxo> = u.iter().filter(|x| !injected.contains(&hash_hex(&x.txid)) || x.index != 1).cloned().collect();
                (format!("balances-{}-{}.csv", s, e), model::balances_rows(&host))
            } else {
                (format!("unspent-{}-{}.csv", s, e), model::unspent_rows(&u).into_iter().filter(|l| !(is_inj(l) && l.split(';').nth(1) == Some("1"))).collect())
            };
            match r.file_str(&name) {
                None => v.push(("file-missing".into(), name)),
                Some(t) => {
                    let host_addrs: BTreeSet<String> = want.iter().map(|l| l.split(';').next().unwrap_or("").to_string()).collect();
                    let got: BTreeSet<String> = t
                        .lines()
                        .skip(1)
                        .filter(|l| if cbn == "balances" { host_addrs.contains(l.split(';').next().unwrap_or("")) || !l.ends_with(";0") } else { !(is_inj(l) && l.split(';').nth(1) == Some("1")) })
                        .map(|x| x.to_string())
                        .collect();
                    if got != want {
                        v.push((format!("{}-rows-differ-outside-injected-field", cbn), format!("unexpected {:?} missing {:?}", got.difference(&want).take(2).collect::<Vec<_>>(), want.difference(&got).take(2).collect::<Vec<_>>())));
                    }
                }
            }
        }
        "simplestats" => {
            // every figure except the per-type lines
            for mmm in check_stats(r, c, range) {
                if !mmm.0.contains("transaction-types") && !mmm.0.contains("share-of") && !mmm.0.contains("per-type") {
                    v.push(mmm);
                }
            }
        }
        _ => {
            let got: Vec<_> = match parse_opreturn(r) {
                // of an injected transaction only the lines of its host data outputs are judged
                Ok(g) => g.into_iter().filter(|l| !injected.contains(&l.1) || l.2.starts_with("hostp")).collect(),
                Err(e) => return vec![("opreturn-unparsable".into(), e)],
            };
            let want: Vec<_> = model::opreturn_lines(c, range).into_iter().map(|l| (l.height, l.txid, l.data.unwrap_or_default())).filter(|l| !injected.contains(&l.1) || l.2.starts_with("hostp")).collect();
            if got != want {
                v.push(("opreturn-lines-differ-outside-injected-field".into(), format!("got {:?} want {:?}", got.iter().take(3).collect::<Vec<_>>(), want.iter().take(3).collect::<Vec<_>>())));
            }
        }
    }
    v
}

pub fn run() -> Report {
    let mut rep = Report::new("C14", "e1");
    let list = adversarial_list();
    let batch = 50;
    let mut cases = Vec::new();
    for c in COINS.iter() {
        for field in [Field::ScriptPubKey, Field::ScriptSig, Field::Witness, Field::CoinbaseSig] {
            for cbn in ["csvdump", "unspentcsvdump", "balances", "simplestats", "opreturn"] {
                // coinbase scriptSigs: the callbacks that look at coinbases at all
                if field == Field::CoinbaseSig && !matches!(cbn, "csvdump" | "simplestats") {
                    continue;
                }
                // scriptSig / witness bytes are never interpreted: the three map/stat callbacks see them on two coins only
                if field != Field::ScriptPubKey && cbn != "csvdump" && !matches!(c.name, "bitcoin" | "dogecoin") {
                    continue;
                }
                for b in 0..(list.len() + batch - 1) / batch {
                    cases.push((c, field, cbn, b));
                }
            }
        }
    }
    rep.rule = format!("host chain (3 blocks with ordinary neighbours) receiving each of {} adversarial strings (class representatives, truncation classes, PUSHDATA4 with huge lengths, 10000 pushes, 100 KB of one opcode, invalid UTF-8 after OP_RETURN, all 256 single opcodes) in scriptPubKey / scriptSig / a witness item / the scriptSig of a coinbase that collects fees (one block each), in batches of {} per world bisected on failure, x 8 coins x 5 callbacks; exit 0, no panic text, output equal to the model with the cells derived from an injected scriptPubKey masked; non-trivial = distinct (coin, field, callback, batch)", list.len(), batch);
    rep.bound = json!({"strings": list.len(), "batch": batch, "cases": cases.len()});
    let root = refmodel::world::scratch_root();
    let parts = par_fold(
        &cases,
        || Report::new("C14", "e1"),
        |w, _i, (c, field, cbn, b), acc| {
            let wk = Worker::new(&root, w);
            let strings: Vec<Vec<u8>> = list.iter().skip(b * batch).take(batch).cloned().collect();
            acc.nontrivial.insert(h8(format!("{}{:?}{}{}", c.name, field, cbn, b).as_bytes()));
            // bisect on failure so that the replay holds one string
            let mut work: Vec<Vec<Vec<u8>>> = vec![strings];
            while let Some(ss) = work.pop() {
                let (chain, injected) = host_chain(c, *field, &ss);
                let mut world = World::simple(c, &chain.blocks, 0);
                // how the directory is stored is no input of C14 either: every other batch lives in an obfuscated directory
                // (a key whose length divides none of the injected lengths), so skipped bytes must advance the key position too
                if (*b + _i) % 2 == 1 {
                    world.xor_key = Some(vec![0x5a, 0x11, 0xc3, 0x07, 0x99, 0xe0, 0x3c, 0x42]);
                }
                // verbosity is an option like any other: batches rotate through default, -v, -vv and -vvv (the file-producing
                // callbacks; simplestats / opreturn print their result next to the log and stay at the default)
                let mut spec = RunSpec::new(c.name, cbn);
                if !matches!(*cbn, "simplestats" | "opreturn") {
                    spec.verbosity = (*b % 4) as u8;
                }
                // the system's answer to allocation requests is part of the environment: 3 GiB of address space are plenty
                // for this chain, and not enough for a reservation sized by a length field that nobody checked
                spec.env.push(("VERIF_RLIMIT_AS".into(), (3u64 << 30).to_string()));
                let r = match wk.world_run(&world, &spec) {
                    Ok(r) => r,
                    Err(m) => return acc.machinery(m),
                };
                acc.states += 1;
                acc.transitions += 1;
                let (s, e) = (r.declared_start().unwrap_or(0), r.declared_end().unwrap_or(3));
                let bad = judge(&r, c, cbn, *field, &in_range(&chain.mblocks(), s, e), &injected, s, e);
                if acc.samples.is_empty() {
                    acc.sample(json!({"coin": c.name, "field": format!("{:?}", field), "callback": cbn, "strings": ss.iter().take(4).map(|x| if x.len() > 40 { format!("{}…[{}]", refmodel::ser::hex(&x[..20]), x.len()) } else { refmodel::ser::hex(x) }).collect::<Vec<_>>()}));
                }
                if let Some((sig, detail)) = bad.into_iter().next() {
                    if ss.len() > 1 {
                        let mid = ss.len() / 2;
                        work.push(ss[mid..].to_vec());
                        work.push(ss[..mid].to_vec());
                    } else {
                        let rc = if ss[0].len() > 5000 { json!({"kind": "e1-described", "coin": c.name, "field": format!("{:?}", field), "string": format!("{} x {}", refmodel::ser::hex(&ss[0][..8]), ss[0].len())}) } else { replay_case(&world, &spec, json!({"field": format!("{:?}", field), "string": refmodel::ser::hex(&ss[0])}), &r, &wk.dir) };
                        acc.disagree(&format!("{:?}:{}", field, sig), format!("{} {} string {}: {}", c.name, cbn, if ss[0].len() > 60 { format!("{}…[{}]", refmodel::ser::hex(&ss[0][..30]), ss[0].len()) } else { refmodel::ser::hex(&ss[0]) }, detail), rc);
                    }
                }
            }
        },
    );
    for p in parts {
        rep.merge(p);
    }
    let _ = std::fs::remove_dir_all(&root);
    rep
}

#[allow(dead_code)]
fn unused(_: Tx) {
    let _ = coinbase(0, 0, vec![]);
}
