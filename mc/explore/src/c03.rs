//! C03 — the block read is the one the index names, for every physical layout (E1).
use crate::gen::dependent_chain;
use crate::hx::{replay_case, Worker};
use crate::oracle::*;
use refmodel::coins::coin;
use refmodel::ev::{h8, is_thorough, par_fold, Report};
use refmodel::run::RunSpec;
use refmodel::ser::Block;
use refmodel::world::{default_blk_name, Extra, IndexOp, IndexRec, World, ACTIVE, HAVE_DATA, VALID_SCRIPTS};
use serde_json::json;

#[derive(Clone, Debug)]
pub enum Gap {
    None,
    Zeros,
    FakeMagic,
    UnindexedBlock,
}

#[derive(Clone, Debug)]
pub struct Layout {
    /// files in creation order: (file number, file name override, blocks as (logical index, gap before, forced data offset))
    pub files: Vec<(u64, Option<String>, Vec<(usize, Gap, Option<u64>)>)>,
    /// 0 = log only, 1 = compacted table, 2 = table with wrong record for block 1 + later overwrite in the log, 3 = reopen between writes
    pub index_form: u8,
    pub junk_keys: bool,
    pub foreign_entries: bool,
    pub label: String,
}

pub fn permutations(n: usize) -> Vec<Vec<usize>> {
    fn rec(cur: &mut Vec<usize>, used: &mut Vec<bool>, n: usize, out: &mut Vec<Vec<usize>>) {
        if cur.len() == n {
            out.push(cur.clone());
            return;
        }
        for i in 0..n {
            if !used[i] {
                used[i] = true;
                cur.push(i);
                rec(cur, used, n, out);
                cur.pop();
                used[i] = false;
            }
        }
    }
    let mut out = vec![];
    rec(&mut vec![], &mut vec![false; n], n, &mut out);
    out
}

/// All ordered arrangements of n blocks into 3 possibly empty files: n! * C(n+2,2).
pub fn arrangements(n: usize) -> Vec<[Vec<usize>; 3]> {
    let mut out = vec![];
    for p in permutations(n) {
        for a in 0..=n {
            for b in a..=n {
                out.push([p[..a].to_vec(), p[a..b].to_vec(), p[b..].to_vec()]);
            }
        }
    }
    out
}

pub fn build_world(coin: &'static refmodel::coins::Coin, chain: &[Block], first_height: u64, l: &Layout) -> World {
    build_world_with_gap(coin, chain, first_height, l, None)
}

/// A block of fixed serialised size (coinbase only, fixed-length scripts).
pub fn uniform_block(height: u64, prev: [u8; 32]) -> Block {
    let cb = refmodel::chain::coinbase(height, 0x55, vec![refmodel::chain::pay((height % 200) as u8, 50 * refmodel::chain::COIN_VALUE)]);
    Block::build(1, prev, 1_600_000_000 + height as u32, 0x1d00ffff, height as u32, vec![cb])
}

pub fn uniform_chain(n: usize) -> refmodel::chain::ChainBuilder {
    let mut cb = refmodel::chain::ChainBuilder::at(refmodel::coins::coin("bitcoin"), 0);
    for h in 0..n as u64 {
        let prev = cb.tip_hash();
        cb.blocks.push(uniform_block(h, prev));
    }
    cb
}

pub fn build_world_with_gap(coin: &'static refmodel::coins::Coin, chain: &[Block], first_height: u64, l: &Layout, gap_block: Option<Block>) -> World {
    let mut w = World::new(coin);
    let mut recs: Vec<Option<IndexRec>> = vec![None; chain.len()];
    let foreign = gap_block.unwrap_or_else(|| dependent_chain(coin, 900, 1).blocks[0].clone());
    for (fno, name, blocks) in &l.files {
        {
            let f = w.file(*fno);
            if let Some(n) = name {
                f.name = n.clone();
            }
        }
        for (bi, gap, force) in blocks {
            match gap {
                Gap::None => {}
                Gap::Zeros => {
                    w.file(*fno).append(&[0u8; 8]);
                }
                Gap::FakeMagic => {
                    let mut g = vec![0x17, 0x2a];
                    g.extend_from_slice(&coin.magic.to_le_bytes());
                    g.extend_from_slice(&[0xff, 0xff, 0xff, 0x7f, 1, 2, 3]);
                    w.file(*fno).append(&g);
                }
                Gap::UnindexedBlock => {
                    let raw = foreign.ser();
                    w.place_raw(*fno, &raw, raw.len() as u32);
                }
            }
            if let Some(off) = force {
                let f = w.file(*fno);
                assert!(*off >= f.len + 8, "forced offset too small");
                f.skip_to(*off - 8);
            }
            let b = &chain[*bi];
            let raw = b.ser();
            let pos = w.place_raw(*fno, &raw, raw.len() as u32);
            let h = first_height + *bi as u64;
            recs[*bi] = Some(IndexRec { hash: b.hash(), client_version: 270000, height: h, status: if h == 0 { VALID_SCRIPTS | HAVE_DATA } else { ACTIVE | if h % 2 == 1 { refmodel::world::OPT_WITNESS } else { 0x100 } }, ntx: b.txs.len() as u64, file: *fno, data_pos: pos, undo_pos: 9, header: b.header.ser() });
        }
    }
    let recs: Vec<IndexRec> = recs.into_iter().map(|r| r.expect("every block placed")).collect();
    if l.junk_keys {
        // never-connected records whose keys agree with active blocks' hashes in their first / last bytes
        for (i, r) in recs.iter().enumerate().skip(1) {
            w.add_key_twin(r, (i + l.label.len()) as u8);
        }
        w.index_ops.push(IndexOp::Put(b"f\x00\x00\x00\x00".to_vec(), vec![1, 2, 3, 4, 5, 6]));
        w.index_ops.push(IndexOp::Put(b"l".to_vec(), vec![0, 0, 0, 0]));
        w.index_ops.push(IndexOp::Put(b"Ftxindex".to_vec(), vec![b'1']));
        w.index_ops.push(IndexOp::Put(b"R".to_vec(), vec![b'1']));
        w.index_ops.push(IndexOp::Put(b"B".to_vec(), vec![0x62; 32]));
        let mut t = vec![b't'];
        t.extend_from_slice(&[0x62; 32]);
        w.index_ops.push(IndexOp::Put(t, vec![0, 8, 9]));
        w.index_ops.push(IndexOp::Put(b"a".to_vec(), vec![b'b'; 40]));
        w.index_ops.push(IndexOp::Put(b"c".to_vec(), vec![b'b'; 40]));
    }
    match l.index_form {
        0 => {
            for r in &recs {
                w.put_rec(r);
            }
        }
        1 => {
            for r in &recs {
                w.put_rec(r);
            }
            w.index_ops.push(IndexOp::Compact);
        }
        2 => {
            // a record first written with stale position data, compacted into a table, then rewritten in the log
            for (i, r) in recs.iter().enumerate() {
                if i == recs.len() / 2 {
                    let mut stale = r.clone();
                    stale.file = 77;
                    stale.data_pos = 12345;
                    w.put_rec(&stale);
                } else {
                    w.put_rec(r);
                }
            }
            w.index_ops.push(IndexOp::Compact);
            w.put_rec(&recs[recs.len() / 2]);
        }
        _ => {
            for (i, r) in recs.iter().enumerate() {
                w.put_rec(r);
                if i == 0 {
                    w.index_ops.push(IndexOp::Reopen);
                }
            }
        }
    }
    if l.foreign_entries {
        w.extra.push(Extra::File("blk.dat".into(), vec![1, 2, 3]));
        w.extra.push(Extra::File("blkindex.dat".into(), vec![1, 2, 3]));
        w.extra.push(Extra::File("rev00000.dat".into(), vec![9; 64]));
        w.extra.push(Extra::File("blk00009.dat.bak".into(), vec![9; 64]));
        w.extra.push(Extra::File("xblk00001.dat".into(), vec![9; 64]));
        w.extra.push(Extra::Dir("blk00007.dat".into()));
        w.extra.push(Extra::File("blk00555.dat".into(), vec![0xfa; 100]));
        // entries that cannot be stat'ed or lead elsewhere: dangling links (blk-named and not), a relative link to a
        // sibling, a link to a directory, a link loop
        w.extra.push(Extra::Symlink("blk00777.dat".into(), "/nonexistent/archive/blk00777.dat".into()));
        w.extra.push(Extra::Symlink("notes.txt".into(), "../gone/notes.txt".into()));
        w.extra.push(Extra::Symlink("blk00778.dat".into(), "blk00555.dat".into()));
        w.extra.push(Extra::Symlink("blk00779.dat".into(), ".".into()));
        w.extra.push(Extra::Symlink("blk00780.dat".into(), "blk00780.dat".into()));
        // a stale copy of the directory nested into itself (`blocks/` with an index and blk files of its own, ending one block
        // earlier and stored differently), and the same under the names a node's data directory would use
        if chain.len() >= 2 {
            let stale = World::simple(coin, &chain[..chain.len() - 1], first_height);
            w.extra.push(Extra::Nested("blocks".into(), Box::new(stale.clone())));
            w.extra.push(Extra::Nested("testnet3/blocks".into(), Box::new(stale)));
        }
        // names that contain a real blk file's name: the prefix or the extension written twice (what a careless copy or
        // rename script leaves behind), for every file number the index names
        for (fno, name, _) in &l.files {
            let base = name.clone().unwrap_or_else(|| format!("blk{:05}.dat", fno));
            w.extra.push(Extra::File(format!("{}.dat", base), vec![0xfa; 100]));
            w.extra.push(Extra::File(format!("blk{}", base), vec![0xfa; 100]));
            w.extra.push(Extra::File(format!("blk{}.dat", base), vec![0xfa; 100]));
        }
    }
    // the network magic in front of the stored blocks is not the selected coin's in one layout out of five (regtest, testnet4,
    // signet, zero bytes): the blocks are found through the index, not by scanning for a magic
    let lh = refmodel::ev::h8(l.label.as_bytes());
    if lh[0] % 5 == 2 {
        w.replace_magic([[0xfa, 0xbf, 0xb5, 0xda], [0x1c, 0x16, 0x3f, 0x28], [0x0a, 0x03, 0xcf, 0x40], [0, 0, 0, 0]][(lh[1] % 4) as usize]);
    }
    w
}

pub fn layouts(n: usize, thorough: bool) -> Vec<Layout> {
    let mut v = Vec::new();
    let gaps = [Gap::None, Gap::Zeros, Gap::FakeMagic, Gap::UnindexedBlock];
    // (a) all arrangements x uniform gap kind x index forms
    let forms: Vec<u8> = vec![0, 1, 2, 3];
    for (ai, arr) in arrangements(n).into_iter().enumerate() {
        for (gi, g) in gaps.iter().enumerate() {
            for &form in &forms {
                let files = (0..3).map(|f| (f as u64, None, arr[f].iter().map(|b| (*b, g.clone(), None)).collect())).collect();
                v.push(Layout { files, index_form: form, junk_keys: ai % 2 == 0, foreign_entries: ai % 3 == 0, label: format!("arr#{}/gap{}/form{}", ai, gi, form) });
            }
        }
    }
    // (b) per-block gap products on the identity and the reversed single-file arrangement
    let per_block: Vec<Vec<usize>> = vec![(0..n).collect(), (0..n).rev().collect()];
    for (pi, order) in per_block.iter().enumerate() {
        let mut idx = vec![0usize; n];
        loop {
            let blocks = order.iter().enumerate().map(|(k, b)| (*b, gaps[idx[k]].clone(), None)).collect();
            v.push(Layout { files: vec![(0, None, blocks)], index_form: 2, junk_keys: true, foreign_entries: false, label: format!("gapproduct#{}/{:?}", pi, idx) });
            let mut k = 0;
            while k < n {
                idx[k] += 1;
                if idx[k] < gaps.len() {
                    break;
                }
                idx[k] = 0;
                k += 1;
            }
            if k == n {
                break;
            }
        }
    }
    // (c) file-number sweep (every VarInt width boundary and the maximum)
    for fno in [0u64, 1, 127, 128, 16_511, 16_512, 2_113_663, 2_113_664, 1 << 32, u64::MAX] {
        let blocks: Vec<(usize, Gap, Option<u64>)> = (1..n).map(|b| (b, Gap::None, None)).collect();
        v.push(Layout { files: vec![(fno, None, vec![(0, Gap::Zeros, None)]), (fno.wrapping_sub(1).max(2).min(u64::MAX - 1), None, blocks)], index_form: 0, junk_keys: false, foreign_entries: false, label: format!("fileno={}", fno) });
    }
    // (c') file-number twins: two files whose numbers agree modulo 2^8 / 2^16 / 2^31 / 2^32 / 2^33 / 2^63 (a file number kept in
    // a narrower integer than the index stores makes them one file), the chain alternating between them so that both hold
    // active blocks at the SAME offsets; and the same with the twin holding only the last block
    for delta in [1u64 << 8, 1 << 16, 1 << 31, 1 << 32, 1 << 33, 1 << 63] {
        for base in [0u64, 5] {
            let even: Vec<(usize, Gap, Option<u64>)> = (0..n).filter(|b| b % 2 == 0).map(|b| (b, Gap::None, None)).collect();
            let odd: Vec<(usize, Gap, Option<u64>)> = (0..n).filter(|b| b % 2 == 1).map(|b| (b, Gap::None, None)).collect();
            v.push(Layout { files: vec![(base, None, even), (base + delta, None, odd)], index_form: (delta.trailing_zeros() % 2) as u8, junk_keys: false, foreign_entries: false, label: format!("fileno twins {} and {}+2^{} alternating", base, base, delta.trailing_zeros()) });
            let head: Vec<(usize, Gap, Option<u64>)> = (0..n - 1).map(|b| (b, Gap::None, None)).collect();
            v.push(Layout { files: vec![(base + delta, None, vec![(n - 1, Gap::None, None)]), (base, None, head)], index_form: 0, junk_keys: false, foreign_entries: false, label: format!("fileno twins {}+2^{} (tip only) and {}", base, delta.trailing_zeros(), base) });
        }
    }
    // (d) data-offset sweep (VarInt width boundaries; sparse multi-GiB offsets in thorough)
    let mut offs: Vec<u64> = vec![8, 127, 128, 16_511, 16_512, 2_113_663, 2_113_664];
    if thorough {
        offs.extend([(1u64 << 32) - 4, 1 << 32, (1 << 32) + 8, 5 << 30]);
    } else {
        offs.push((1 << 32) + 8);
    }
    for off in offs {
        let mut blocks: Vec<(usize, Gap, Option<u64>)> = vec![(n - 1, Gap::None, Some(off))];
        blocks.extend((0..n - 1).map(|b| (b, Gap::FakeMagic, None)));
        v.push(Layout { files: vec![(3, None, blocks)], index_form: 1, junk_keys: true, foreign_entries: true, label: format!("offset={}", off) });
    }
    // (e') file names of different digit widths in one directory (lexicographic order != numeric order)
    for (k, set) in [vec![(2u64, "blk2.dat"), (10, "blk10.dat"), (100, "blk100.dat")], vec![(99_999, "blk99999.dat"), (100_000, "blk100000.dat"), (9, "blk00009.dat")], vec![(7, "blk7.dat"), (70, "blk00070.dat"), (700, "blk700.dat")]].into_iter().enumerate() {
        for rot in 0..3usize {
            let files = (0..3).map(|f| {
                let (no, name) = set[(f + rot) % 3];
                let blocks: Vec<(usize, Gap, Option<u64>)> = (0..n).filter(|b| b % 3 == f).map(|b| (b, Gap::None, None)).collect();
                (no, Some(name.to_string()), blocks)
            }).collect();
            v.push(Layout { files, index_form: 0, junk_keys: false, foreign_entries: false, label: format!("mixedwidth={}/{}", k, rot) });
        }
    }
    // (e) file-name zero padding
    for (k, name) in ["blk0.dat", "blk00000.dat", "blk000000000.dat"].iter().enumerate() {
        let blocks: Vec<(usize, Gap, Option<u64>)> = (0..n).map(|b| (b, Gap::None, None)).collect();
        v.push(Layout { files: vec![(0, Some(name.to_string()), blocks)], index_form: 0, junk_keys: false, foreign_entries: k == 1, label: format!("name={}", name) });
        let blocks: Vec<(usize, Gap, Option<u64>)> = (0..n).map(|b| (b, Gap::None, None)).collect();
        let name12 = ["blk12.dat", "blk00012.dat", "blk000000012.dat"][k];
        v.push(Layout { files: vec![(12, Some(name12.to_string()), blocks)], index_form: 0, junk_keys: false, foreign_entries: false, label: format!("name={}", name12) });
    }
    v
}

pub fn run() -> Report {
    let mut rep = Report::new("C03", "e1");
    let thorough = is_thorough();
    let n = if thorough { 5 } else { 4 };
    let btc = coin("bitcoin");
    let ls = layouts(n, thorough);
    rep.rule = format!("all n!*C(n+2,2) ordered arrangements of n={} blocks into <=3 files x gap kind (none / zeros / garbage with fake magic / unindexed block) x index storage form (log, compacted table, table+log overwrite, reopen), per-block gap products, file-number / data-offset VarInt boundary sweeps (sparse >4GiB offsets), file-name padding (also mixed digit widths in one directory), junk index keys, foreign directory entries; every layout of the same logical chain must give the model's csvdump output (hence identical across layouts); non-trivial = distinct layout", n);
    rep.bound = json!({"blocks": n, "layouts": ls.len(), "uniform_size_chain_layouts": arrangements(n + 1).len() * 2});
    rep.not_covered = vec!["two file names parsing to the same number (ambiguous)".into(), "blk files that are links to files of another name".into(), "hundreds of files (C17 covers 200/1200 files)".into()];
    let chain = dependent_chain(btc, 0, n);
    let all = chain.mblocks();
    let root = refmodel::world::scratch_root();
    // second logical chain: all blocks (and the unindexed gap block) have the SAME serialised size, so that data offsets
    // coincide across files (block h+1 sits in another file exactly where "the byte after block h" would be):
    // any shortcut keyed on offsets without the file number shows up
    let uni = uniform_chain(n + 1);
    let uni_layouts: Vec<Layout> = {
        let mut v = Vec::new();
        for (ai, arr) in arrangements(n + 1).into_iter().enumerate() {
            for (gi, g) in [Gap::None, Gap::UnindexedBlock].iter().enumerate() {
                let files = (0..3).map(|f| (f as u64, None, arr[f].iter().map(|b| (*b, g.clone(), None)).collect())).collect();
                v.push(Layout { files, index_form: (ai % 2) as u8, junk_keys: false, foreign_entries: false, label: format!("uniform#{}/gap{}", ai, gi) });
            }
        }
        v
    };
    let uni_all = uni.mblocks();
    let uparts = par_fold(
        &uni_layouts,
        || Report::new("C03", "e1"),
        |w, _i, l, acc| {
            let wk = Worker::new(&root, w);
            let world = build_world_with_gap(btc, &uni.blocks, 0, l, Some(uniform_block(99, [0x99; 32])));
            let spec = RunSpec::new("bitcoin", "csvdump");
            let r = match wk.world_run(&world, &spec) {
                Ok(r) => r,
                Err(m) => return acc.machinery(m),
            };
            acc.states += 1;
            acc.transitions += 1;
            let (s, e) = (r.declared_start().unwrap_or(0), r.declared_end().unwrap_or(n as u64));
            let bad = check_csvdump(&r, btc, &in_range(&uni_all, s, e), s, e);
            acc.nontrivial.insert(h8(format!("{:?}", l).as_bytes()));
            acc.count("uniform-size-chain", 1);
            if e != n as u64 {
                acc.disagree("range-not-whole-chain", format!("{}: declared range {}..{}", l.label, s, e), replay_case(&world, &spec, json!({}), &r, &wk.dir));
            } else if let Some((sig, detail)) = bad.into_iter().next() {
                acc.disagree(&format!("uniform-size-chain:{}", sig), format!("{}: {}", l.label, detail), replay_case(&world, &spec, expected_brief("csvdump == model of the logical chain", s, e), &r, &wk.dir));
            }
            // the same layout read through a height range: "the block delivered for a height" must not depend on where the run starts
            let (rs, re) = [(1u64, n as u64), (2, 3), (n as u64 - 1, n as u64), (1, 2)][_i % 4];
            let mut spec = RunSpec::new("bitcoin", "csvdump").range(Some(rs), Some(re));
            // ... and through a different directory-listing order (reversed / rotated; both the blk directory and LevelDB's)
            spec.env.push(("VERIF_READDIR".into(), (1 + _i % 4).to_string()));
            let r = wk.run(&spec);
            acc.transitions += 1;
            acc.count("uniform-size-chain-with-range", 1);
            if let Some((sig, detail)) = check_csvdump(&r, btc, &in_range(&uni_all, rs, re), rs, re).into_iter().next() {
                acc.disagree(&format!("uniform-size-chain:range:{}", sig), format!("{} -s {} -e {}: {}", l.label, rs, re, detail), replay_case(&world, &spec, expected_brief("csvdump == model of the logical chain", rs, re), &r, &wk.dir));
            }
        },
    );
    for p in uparts {
        rep.merge(p);
    }
    let parts = par_fold(
        &ls,
        || Report::new("C03", "e1"),
        |w, _i, l, acc| {
            let wk = Worker::new(&root, w);
            let mut world = build_world(btc, &chain.blocks, 0, l);
            // every fifth layout: some of the blk files live in another directory and are linked back (files moved to a second
            // disk) - the first, the last, every other one, or all of them
            if _i % 5 == 3 {
                let nos: Vec<u64> = world.files.iter().filter(|(_, f)| f.name.starts_with("blk") && f.name.ends_with(".dat")).map(|(n, _)| *n).collect();
                for (k, n) in nos.iter().enumerate() {
                    let pick = match (_i / 5) % 4 {
                        0 => k == 0,
                        1 => k + 1 == nos.len(),
                        2 => k % 2 == 1,
                        _ => true,
                    };
                    if pick {
                        world.extra.push(refmodel::world::Extra::Archived(*n));
                    }
                }
                acc.count("layouts-with-blk-files-linked-from-another-directory", 1);
            }
            // (verbosity rotates with the layout: log statements are code whose arguments run only when their level is on)
            let mut spec = RunSpec::new("bitcoin", "csvdump").verify(true);
            spec.verbosity = (_i % 4) as u8;
            let r = match wk.world_run(&world, &spec) {
                Ok(r) => r,
                Err(m) => {
                    acc.machinery(m);
                    return;
                }
            };
            acc.states += 1;
            acc.transitions += 1;
            let (s, e) = (r.declared_start().unwrap_or(0), r.declared_end().unwrap_or(n as u64 - 1));
            let mut bad = check_csvdump(&r, btc, &in_range(&all, s, e), s, e);
            // every third layout once more with the directory entries served in another order (file-system dependent)
            if bad.is_empty() && _i % 3 == 0 {
                let mut spec2 = spec.clone();
                spec2.env.push(("VERIF_READDIR".into(), (1 + (_i / 3) % 5).to_string()));
                let r2 = wk.run(&spec2);
                acc.transitions += 1;
                acc.count("layouts-rerun-with-permuted-directory-listing", 1);
                if r2.files != r.files || r2.code != r.code {
                    bad.push(("output-depends-on-directory-listing-order".into(), format!("VERIF_READDIR={}: exit {:?} files {:?} vs exit {:?} files {:?}", 1 + (_i / 3) % 5, r2.code, r2.files.keys().collect::<Vec<_>>(), r.code, r.files.keys().collect::<Vec<_>>())));
                }
            }
            acc.nontrivial.insert(h8(format!("{:?}", l).as_bytes()));
            acc.outcomes.insert(h8(&r.files.values().flat_map(|v| refmodel::hash::sha256(v).to_vec()).collect::<Vec<u8>>()));
            acc.count(l.label.split(['#', '=']).next().unwrap_or("?"), 1);
            if acc.samples.is_empty() {
                acc.sample(json!({"label": l.label, "files": l.files.iter().map(|(n, nm, b)| json!({"no": n.to_string(), "name": nm.clone().unwrap_or_else(|| default_blk_name(*n)), "blocks": format!("{:?}", b)})).collect::<Vec<_>>(), "index_form": l.index_form}));
            }
            if e != n as u64 - 1 || s != 0 {
                acc.disagree("range-not-whole-chain", format!("{}: declared range {}..{}", l.label, s, e), replay_case(&world, &spec, json!({}), &r, &wk.dir));
            } else if let Some((sig, detail)) = bad.into_iter().next() {
                let rc = if world.files.values().any(|f| f.len > 300_000) { json!({"kind": "e1-described", "layout": format!("{:?}", l)}) } else { replay_case(&world, &spec, expected_brief("csvdump == model of the logical chain", s, e), &r, &wk.dir) };
                acc.disagree(&sig, format!("{}: {}", l.label, detail), rc);
            }
        },
    );
    for p in parts {
        rep.merge(p);
    }
    // scale: more than 65535 blocks of the active chain in ONE blk file (what a real blk00000.dat looks like), the rest in a second one
    {
        let nblk: usize = 70_000;
        let big = uniform_chain(nblk);
        let mut world = refmodel::world::World::new(btc);
        for (h, b) in big.blocks.iter().enumerate() {
            world.add_block(if h < 68_000 { 0 } else { 1 }, h as u64, b);
        }
        let wk = Worker::new(&root, 950);
        let mut spec = RunSpec::new("bitcoin", "csvdump");
        spec.env.push(("VERIF_RUN_TIMEOUT".into(), "600".into()));
        match wk.world_run(&world, &spec) {
            Err(m) => rep.machinery(m),
            Ok(r) => {
                rep.states += 1;
                rep.transitions += 1;
                rep.count("blocks-in-one-file-70000", 1);
                rep.nontrivial.insert(h8(b"70000-blocks"));
                let (s0, e0) = (r.declared_start().unwrap_or(0), r.declared_end().unwrap_or(nblk as u64 - 1));
                let bad = check_csvdump(&r, btc, &in_range(&big.mblocks(), s0, e0), s0, e0);
                if e0 != nblk as u64 - 1 {
                    rep.disagree("many-blocks-per-file:range-not-whole-chain", format!("declared {}..{} of 0..{}", s0, e0, nblk - 1), json!({"kind": "e1-described", "layout": "68000 blocks in blk00000.dat, 2000 in blk00001.dat"}));
                } else if let Some((sig, detail)) = bad.into_iter().next() {
                    rep.disagree(&format!("many-blocks-per-file:{}", sig), detail.chars().take(400).collect(), json!({"kind": "e1-described", "layout": "68000 blocks in blk00000.dat, 2000 in blk00001.dat"}));
                }
            }
        }
    }
    // the same kind of chain with ONE block per file (300 files) under a descriptor limit far below the number of files:
    // a layout is only "the same chain stored differently" if the run does not need one descriptor per file
    {
        let nblk: usize = 300;
        let chain = uniform_chain(nblk);
        let mut world = refmodel::world::World::new(btc);
        for (h, b) in chain.blocks.iter().enumerate() {
            world.add_block(h as u64, h as u64, b);
        }
        let wk = Worker::new(&root, 951);
        let mut spec = RunSpec::new("bitcoin", "csvdump");
        spec.rlimit_nofile = 40;
        match wk.world_run(&world, &spec) {
            Err(m) => rep.machinery(m),
            Ok(r) => {
                rep.states += 1;
                rep.transitions += 1;
                rep.count("one-block-per-file-300-under-nofile-40", 1);
                rep.nontrivial.insert(h8(b"300-files-nofile-40"));
                let bad = check_csvdump(&r, btc, &in_range(&chain.mblocks(), 0, nblk as u64 - 1), 0, nblk as u64 - 1);
                if let Some((sig, detail)) = bad.into_iter().next() {
                    rep.disagree(&format!("one-block-per-file:{}", sig), format!("300 one-block files, RLIMIT_NOFILE=40: {}", detail.chars().take(400).collect::<String>()), json!({"kind": "e1-described", "layout": "300 blocks, one per blk file, RLIMIT_NOFILE=40"}));
                }
            }
        }
    }
    if rep.outcomes.len() > 1 && rep.disagreements.is_empty() {
        rep.machinery("outputs differ between layouts although each equals the model".into());
    }
    let _ = std::fs::remove_dir_all(&root);
    rep
}
