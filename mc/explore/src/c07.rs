//! C07 / C08 — unspentcsvdump and balances against the UTXO model (E1; model checking over spend histories).
//! All histories of the grammar are enumerated (no state merging) and each is executed on the real binary.
use crate::hx::{replay_case, Worker};
use crate::oracle::*;
use refmodel::chain::{coinbase, ChainBuilder, COIN_VALUE};
use refmodel::coins::{coin, Coin};
use refmodel::ev::{h8, is_thorough, par_fold, wall_cap, Report};
use refmodel::hash::hash160;
use refmodel::model;
use refmodel::run::RunSpec;
use refmodel::script;
use refmodel::ser::{Tx, TxIn, TxOut};
use refmodel::world::World;
use serde_json::json;
use std::collections::BTreeMap;

#[derive(Clone, Copy, Debug, PartialEq, Eq, Hash, PartialOrd, Ord)]
pub enum OutKind {
    A,  // P2PKH to address A
    B,  // P2PKH to address B
    N,  // OP_RETURN (address-less)
    M,  // bare 1-of-1 multisig (address-less)
    Z,  // zero-value output to A
    K,  // P2PK of the key whose HASH160 is A's hash (same address as A through another script type)
}

#[derive(Clone, Copy, Debug, PartialEq, Eq, Hash, PartialOrd, Ord)]
pub enum TxRef {
    Genesis,
    Cb(u8),  // coinbase of block 1 / 2
    Tx(u8),  // k-th non-coinbase transaction of the history (chain order)
    Unknown, // txid that does not occur in the range
    Null,    // the null outpoint 00..00:ffffffff (what a coinbase input carries) used by a non-coinbase transaction
}

#[derive(Clone, Debug, PartialEq, Eq, Hash)]
pub struct HTx {
    pub block: u8,
    pub inputs: Vec<(TxRef, u8)>,
    pub outs: Vec<OutKind>,
}

#[derive(Clone, Debug, PartialEq, Eq, Hash)]
pub struct History {
    /// coinbase of block 1 and 2: 0 pays A, 1 pays B, 2 = byte-identical copy of block 1's coinbase (block 2 only)
    pub cb: [u8; 2],
    pub txs: Vec<HTx>,
}

fn key_a() -> Vec<u8> {
    script::key33(5)
}
fn hash_a() -> [u8; 20] {
    hash160(&key_a())
}

fn out_script(k: OutKind) -> (u64, Vec<u8>) {
    match k {
        OutKind::A => (3 * COIN_VALUE, script::p2pkh(&hash_a())),
        OutKind::B => (5 * COIN_VALUE, script::p2pkh(&script::h20(66))),
        OutKind::N => (0, script::op_return(b"null")),
        OutKind::M => (7 * COIN_VALUE, script::multisig(1, &[&script::key33(9)], 1)),
        OutKind::Z => (0, script::p2pkh(&hash_a())),
        OutKind::K => (11 * COIN_VALUE, script::p2pk(&key_a())),
    }
}

fn n_outputs(h: &History, r: TxRef) -> u8 {
    match r {
        TxRef::Genesis | TxRef::Cb(_) => 1,
        TxRef::Tx(k) => h.txs[k as usize].outs.len() as u8,
        TxRef::Unknown | TxRef::Null => 1,
    }
}

/// Build the 3-block chain of a history. None if the references form a hash cycle (not realisable).
pub fn build(coin: &'static Coin, h: &History) -> Option<ChainBuilder> {
    let mut cb = ChainBuilder::with_genesis(coin);
    let gen_txid = cb.blocks[0].txs[0].txid();
    let cb_out = |k: u8| {
        let (v, s) = out_script(if k == 0 { OutKind::A } else { OutKind::B });
        vec![TxOut { value: v * 10, script: s }]
    };
    let cb1 = coinbase(1, 1, cb_out(h.cb[0]));
    let cb2 = if h.cb[1] == 2 { cb1.clone() } else { coinbase(2, 2, cb_out(h.cb[1])) };
    // resolve txids in dependency order
    let n = h.txs.len();
    let mut txids: Vec<Option<[u8; 32]>> = vec![None; n];
    let mut built: Vec<Option<Tx>> = vec![None; n];
    for _round in 0..=n {
        for k in 0..n {
            if built[k].is_some() {
                continue;
            }
            let mut inputs = Vec::new();
            let mut ready = true;
            for (r, idx) in &h.txs[k].inputs {
                let txid = match r {
                    TxRef::Genesis => Some(gen_txid),
                    TxRef::Cb(1) => Some(cb1.txid()),
                    TxRef::Cb(_) => Some(cb2.txid()),
                    TxRef::Tx(j) => txids[*j as usize],
                    TxRef::Unknown => Some([0xee; 32]),
                    TxRef::Null => Some([0u8; 32]),
                };
                match txid {
                    Some(t) => inputs.push(TxIn::spend(t, if *r == TxRef::Null { 0xffff_ffff } else { *idx as u32 })),
                    None => ready = false,
                }
            }
            if ready {
                let outputs = h.txs[k].outs.iter().map(|o| {
                    let (v, s) = out_script(*o);
                    TxOut { value: v + k as u64, script: s }
                }).collect();
                let tx = Tx { version: 2, segwit: false, inputs, outputs, locktime: k as u32, wide: 0 };
                txids[k] = Some(tx.txid());
                built[k] = Some(tx);
            }
        }
    }
    if built.iter().any(|b| b.is_none()) {
        return None;
    }
    for blk in 1..=2u8 {
        let mut txs = vec![if blk == 1 { cb1.clone() } else { cb2.clone() }];
        for (k, t) in h.txs.iter().enumerate() {
            if t.block == blk {
                txs.push(built[k].clone().unwrap());
            }
        }
        cb.push_raw(txs);
    }
    Some(cb)
}

/// Input choices for transaction k of a history with `n` non-coinbase txs whose output lists are known.
fn input_candidates(h: &History, k: usize) -> Vec<(TxRef, u8)> {
    let mut v = vec![(TxRef::Genesis, 0), (TxRef::Unknown, 0), (TxRef::Null, 0)];
    for c in 1..=2u8 {
        v.push((TxRef::Cb(c), 0));
    }
    v.push((TxRef::Cb(1), 1)); // index past the outputs of a known transaction
    for j in 0..h.txs.len() {
        if j != k {
            for i in 0..n_outputs(h, TxRef::Tx(j as u8)) {
                v.push((TxRef::Tx(j as u8), i));
            }
        }
    }
    v
}

pub struct Grammar {
    pub max_txs: usize,
    pub out_patterns: Vec<Vec<OutKind>>,
    pub max_inputs: usize,
    pub cb_kinds: Vec<[u8; 2]>,
}

/// Enumerate every history of the grammar (simplest first).
pub fn enumerate(g: &Grammar, n_txs: usize) -> Vec<History> {
    let mut out = Vec::new();
    // placements: non-decreasing block assignment
    let mut placements: Vec<Vec<u8>> = vec![vec![]];
    for _ in 0..n_txs {
        let mut next = Vec::new();
        for p in &placements {
            for b in 1..=2u8 {
                if p.last().map(|l| *l <= b).unwrap_or(true) {
                    let mut q = p.clone();
                    q.push(b);
                    next.push(q);
                }
            }
        }
        placements = next;
    }
    for cbk in &g.cb_kinds {
        for pl in &placements {
            // choose output patterns for all txs, then inputs
            let mut outs_choice: Vec<Vec<Vec<OutKind>>> = vec![vec![]];
            for _ in 0..n_txs {
                let mut next = Vec::new();
                for c in &outs_choice {
                    for p in &g.out_patterns {
                        let mut q = c.clone();
                        q.push(p.clone());
                        next.push(q);
                    }
                }
                outs_choice = next;
            }
            for oc in &outs_choice {
                let skeleton = History { cb: *cbk, txs: (0..n_txs).map(|k| HTx { block: pl[k], inputs: vec![], outs: oc[k].clone() }).collect() };
                // inputs: product over txs of (1..=max_inputs)-multisets (ordered pairs with i<=j to avoid mirror duplicates)
                let mut partial: Vec<History> = vec![skeleton];
                for k in 0..n_txs {
                    let cands = input_candidates(&partial[0], k);
                    let mut next = Vec::new();
                    for h in &partial {
                        for (i, a) in cands.iter().enumerate() {
                            let mut h1 = h.clone();
                            h1.txs[k].inputs = vec![*a];
                            next.push(h1);
                            if g.max_inputs >= 2 {
                                for b in cands.iter().skip(i) {
                                    let mut h2 = h.clone();
                                    h2.txs[k].inputs = vec![*a, *b];
                                    next.push(h2);
                                }
                            }
                        }
                    }
                    partial = next;
                }
                out.extend(partial);
            }
        }
    }
    out
}

pub fn grammar_histories(thorough: bool, with_k: bool) -> (Vec<History>, serde_json::Value) {
    use OutKind::*;
    let mut all = Vec::new();
    let full_patterns: Vec<Vec<OutKind>> = {
        let kinds: Vec<OutKind> = if with_k { vec![A, B, N, M, Z, K] } else { vec![A, B, N, M, Z] };
        let mut v: Vec<Vec<OutKind>> = kinds.iter().map(|k| vec![*k]).collect();
        for a in &kinds {
            for b in &kinds {
                // C08 quick: two-output patterns over {A, K, N} only (same address through two script types, address-less)
                if with_k && !thorough && !(matches!(a, A | K | N) && matches!(b, A | K | N)) {
                    continue;
                }
                v.push(vec![*a, *b]);
            }
        }
        v
    };
    let cbs_all = vec![[0, 0], [0, 1], [1, 0], [0, 2], [1, 2]];
    // 0 and 1 non-coinbase transactions: unrestricted
    let g1 = Grammar { max_txs: 1, out_patterns: full_patterns.clone(), max_inputs: 2, cb_kinds: cbs_all.clone() };
    all.extend(enumerate(&g1, 0));
    all.extend(enumerate(&g1, 1));
    // 2 transactions: one input each, reduced output patterns (quick); unrestricted inputs, reduced patterns (thorough)
    let reduced: Vec<Vec<OutKind>> = if with_k { vec![vec![A], vec![N, A], vec![K]] } else { vec![vec![A], vec![N, A], vec![A, B]] };
    let g2 = Grammar { max_txs: 2, out_patterns: if thorough { vec![vec![A], vec![B], vec![N, A], vec![A, B], vec![Z], vec![M]] } else { reduced.clone() }, max_inputs: if thorough { 2 } else { 1 }, cb_kinds: if thorough { cbs_all.clone() } else { vec![[0, 0], [0, 2], [0, 1]] } };
    all.extend(enumerate(&g2, 2));
    let mut bound = json!({"blocks": 3, "txs<=1": "all output patterns (1..2 outputs), 1..2 inputs, 5 coinbase configurations", "txs=2": if thorough { "6 output patterns, 1..2 inputs, 5 coinbase configurations" } else { "output patterns {[A],[N,A],[A,B]} (C08: {[A],[N,A],[K]}), 1 input, coinbase configurations {AA, A+duplicate, AB}" }});
    if thorough {
        let g3 = Grammar { max_txs: 3, out_patterns: vec![vec![A], vec![N, A]], max_inputs: 1, cb_kinds: vec![[0, 0], [0, 2]] };
        all.extend(enumerate(&g3, 3));
        bound["txs=3"] = json!("output patterns {[A],[N,A]}, 1 input, coinbase configurations {AA, A+duplicate}");
    }
    (all, bound)
}

/// The special worlds. `only`: build just the world with that index (the others are listed with an empty chain).
fn index_width_cases(coin: &'static Coin, only: Option<usize>) -> Vec<(String, ChainBuilder)> {
    // a transaction with many outputs spent at indices around the u8/u16 widths
    let mut v = Vec::new();
    let want = |v: &Vec<(String, ChainBuilder)>| only.map_or(true, |o| o == v.len());
    let skip = |v: &mut Vec<(String, ChainBuilder)>| v.push((String::new(), ChainBuilder::with_genesis(coin)));
    for (n_out, spend) in [(300usize, vec![0u32, 255, 256, 299]), (65_537, vec![255, 256, 65_535, 65_536])] {
        if !want(&v) {
            skip(&mut v);
            continue;
        }
        let mut cb = ChainBuilder::with_genesis(coin);
        let outs: Vec<TxOut> = (0..n_out).map(|i| TxOut { value: 1000 + i as u64, script: script::p2pkh(&script::h20((i % 251) as u8)) }).collect();
        let big = Tx { version: 1, segwit: false, inputs: vec![TxIn::spend([0xee; 32], 0)], outputs: outs, locktime: 0, wide: 0 };
        let txid = big.txid();
        cb.push(vec![big]);
        let spender = Tx { version: 1, segwit: false, inputs: spend.iter().map(|i| TxIn::spend(txid, *i)).collect(), outputs: vec![TxOut { value: 1, script: script::p2pkh(&script::h20(7)) }], locktime: 0, wide: 0 };
        cb.push(vec![spender]);
        v.push((format!("{}-outputs spent at {:?}", n_out, spend), cb));
    }
    // large values and long accumulation: per-address sums beyond 2^32, 2^53 and close to 2^64; 3000 outputs to one address
    if !want(&v) {
        skip(&mut v);
    } else {
        let mut cb = ChainBuilder::with_genesis(coin);
        let a = script::p2pkh(&script::h20(77));
        let b = script::p2pkh(&script::h20(78));
        let outs = vec![
            TxOut { value: (1u64 << 62) + 1, script: a.clone() },
            TxOut { value: (1u64 << 62) + 3, script: a.clone() },
            TxOut { value: (1u64 << 63) - 9, script: a.clone() },
            TxOut { value: (1u64 << 53) + 1, script: b.clone() },
            TxOut { value: 1, script: b.clone() },
            TxOut { value: u32::MAX as u64, script: b.clone() },
            TxOut { value: 2, script: b.clone() },
            // single amounts in the upper half of the 8-byte field (an amount kept in a signed integer turns negative)
            TxOut { value: 1u64 << 63, script: script::p2pkh(&script::h20(80)) },
            TxOut { value: (1u64 << 63) + 1, script: script::p2pkh(&script::h20(81)) },
            TxOut { value: u64::MAX, script: script::p2pkh(&script::h20(82)) },
        ];
        cb.push(vec![Tx { version: 1, segwit: false, inputs: vec![TxIn::spend([0xee; 32], 0)], outputs: outs, locktime: 0, wide: 0 }]);
        let many: Vec<TxOut> = (0..3000usize).map(|i| TxOut { value: 3_000_000_000 + i as u64, script: script::p2pkh(&script::h20(79)) }).collect();
        cb.push(vec![Tx { version: 1, segwit: false, inputs: vec![TxIn::spend([0xee; 32], 1)], outputs: many, locktime: 0, wide: 0 }]);
        v.push(("large values (sums beyond 2^32 / 2^53 / near 2^64) and 3000 outputs to one address".to_string(), cb));
    }
    // every address-carrying script kind, each paid twice (one of the two spent again) plus the address-less kinds:
    // P2PK with the generator point (a valid key), with arbitrary 33/65-byte keys (almost surely not curve points), P2PKH, P2SH,
    // P2WPKH, P2WSH, P2TR, future witness versions, bare multisig, OP_RETURN, empty and non-standard scripts
    if !want(&v) {
        skip(&mut v);
    } else {
        let mut cb = ChainBuilder::with_genesis(coin);
        let g33 = refmodel::ser::unhex("0279be667ef9dcbbac55a06295ce870b07029bfcdb2dce28d959f2815b16f81798");
        let g65 = refmodel::ser::unhex("0479be667ef9dcbbac55a06295ce870b07029bfcdb2dce28d959f2815b16f81798483ada7726a3c4655da4fbfc0e1108a8fd17b448a68554199c47d08ffb10d4b8");
        let mut kinds: Vec<Vec<u8>> = vec![script::p2pk(&g33), script::p2pk(&g65), script::p2pkh(&hash160(&g33)), script::p2pkh(&hash160(&g65))];
        for s in [1u8, 2, 3, 4, 5, 6, 7, 8] {
            kinds.push(script::p2pk(&script::key33(s)));
            kinds.push(script::p2pk(&script::key65(s)));
        }
        kinds.push(script::p2pkh(&script::h20(1)));
        kinds.push(script::p2sh(&script::h20(1)));
        kinds.push(script::witness(0, &script::h20(1)));
        kinds.push(script::witness(0, &[7u8; 32]));
        kinds.push(script::witness(1, &[8u8; 32]));
        kinds.push(script::witness(2, &[9u8; 32]));
        kinds.push(script::witness(16, &[9u8; 2]));
        kinds.push(script::multisig(1, &[&script::key33(9), &script::key33(10)], 2));
        kinds.push(script::op_return(b"x"));
        kinds.push(vec![]);
        kinds.push(vec![0x51]);
        kinds.push(vec![0x76, 0xa9, 0x14]);
        let mut outs = Vec::new();
        for (i, k) in kinds.iter().enumerate() {
            outs.push(TxOut { value: 100 + i as u64, script: k.clone() });
            outs.push(TxOut { value: 10_000 + i as u64, script: k.clone() });
        }
        let n = outs.len() as u32;
        let payer = Tx { version: 1, segwit: false, inputs: vec![TxIn::spend([0xee; 32], 0)], outputs: outs, locktime: 0, wide: 0 };
        let txid = payer.txid();
        cb.push(vec![payer]);
        let spender = Tx { version: 1, segwit: false, inputs: (0..n).step_by(2).map(|i| TxIn::spend(txid, i)).collect(), outputs: vec![TxOut { value: 1, script: script::p2pk(&g33) }], locktime: 0, wide: 0 };
        cb.push(vec![spender]);
        v.push((format!("{} script kinds (valid / invalid-point P2PK, P2PKH, P2SH, witness v0/v1/v2/v16, multisig, OP_RETURN, empty, non-standard), each paid twice and spent once", kinds.len()), cb));
    }
    // transactions whose ids agree in their first 4 bytes / their last 4 bytes (birthday search over the lock time), and ids
    // beginning / ending with zero bytes: one of each pair is spent, its twin must stay
    if !want(&v) {
        skip(&mut v);
    } else {
        let mut cb = ChainBuilder::with_genesis(coin);
        let mk = |tag: u8, lt: u32| Tx { version: 1, segwit: false, inputs: vec![TxIn::spend([0xe0 + tag; 32], 0)], outputs: vec![TxOut { value: 1000 + tag as u64, script: script::p2pkh(&script::h20(50 + tag)) }, TxOut { value: 2000 + tag as u64, script: script::p2pkh(&script::h20(60 + tag)) }], locktime: lt, wide: 0 };
        let twins = |tag: u8, range: std::ops::Range<usize>| -> (Tx, Tx) {
            let mut seen: std::collections::HashMap<Vec<u8>, u32> = std::collections::HashMap::new();
            for lt in 0..3_000_000u32 {
                let t = mk(tag, lt);
                let key = t.txid()[range.clone()].to_vec();
                if let Some(prev) = seen.insert(key, lt) {
                    return (mk(tag, prev), t);
                }
            }
            (mk(tag, 0), mk(tag, 1))
        };
        let zero = |tag: u8, pos: usize| -> Tx {
            for lt in 0..3_000_000u32 {
                let t = mk(tag, lt);
                if t.txid()[pos] == 0 {
                    return t;
                }
            }
            mk(tag, 0)
        };
        let (a1, a2) = twins(1, 0..4);
        let (b1, b2) = twins(2, 28..32);
        let (z1, z2) = (zero(3, 0), zero(4, 31));
        let spend = |t: &Tx, k: u8| Tx { version: 1, segwit: false, inputs: vec![TxIn::spend(t.txid(), 0)], outputs: vec![TxOut { value: 5, script: script::p2pkh(&script::h20(70 + k)) }], locktime: 0, wide: 0 };
        let spenders = vec![spend(&a1, 1), spend(&b2, 2), spend(&z1, 3), spend(&z2, 4)];
        cb.push(vec![a1, a2, b1, b2, z1, z2]);
        cb.push(spenders);
        v.push(("txid twins (equal first / last 4 bytes) and txids with a zero first / last byte, one of each spent".to_string(), cb));
    }
    // the same kinds of twins, BOTH spent, one block apart, in either order, and a third pair of which one member is spent,
    // re-checked by a later spend of an unrelated output: whatever is keyed by a part of the id (a slot, a fingerprint, a
    // presence bit that is cleared on a spend) answers for the twin as well
    if !want(&v) {
        skip(&mut v);
    } else {
        let mut cb = ChainBuilder::with_genesis(coin);
        let mk = |tag: u8, lt: u32| Tx { version: 1, segwit: false, inputs: vec![TxIn::spend([0xd0 + tag; 32], 0)], outputs: vec![TxOut { value: 1000 + tag as u64, script: script::p2pkh(&script::h20(50 + tag)) }, TxOut { value: 2000 + tag as u64, script: script::p2pkh(&script::h20(60 + tag)) }], locktime: lt, wide: 0 };
        let twins = |tag: u8, range: std::ops::Range<usize>| -> (Tx, Tx) {
            let mut seen: std::collections::HashMap<Vec<u8>, u32> = std::collections::HashMap::new();
            for lt in 0..3_000_000u32 {
                let t = mk(tag, lt);
                let key = t.txid()[range.clone()].to_vec();
                if let Some(prev) = seen.insert(key, lt) {
                    return (mk(tag, prev), t);
                }
            }
            (mk(tag, 0), mk(tag, 1))
        };
        let (a1, a2) = twins(1, 0..4);
        let (b1, b2) = twins(2, 28..32);
        let (c1, c2) = twins(3, 0..4);
        let (d1, d2) = twins(4, 28..32);
        let spend = |t: &Tx, idx: u32, k: u8| Tx { version: 1, segwit: false, inputs: vec![TxIn::spend(t.txid(), idx)], outputs: vec![TxOut { value: 5, script: script::p2pkh(&script::h20(70 + k)) }], locktime: k as u32, wide: 0 };
        let first = vec![spend(&a1, 0, 1), spend(&b2, 0, 2), spend(&c1, 1, 3), spend(&d2, 1, 4)];
        let second = vec![spend(&a2, 0, 5), spend(&b1, 0, 6), spend(&c2, 0, 7)];
        let third = vec![spend(&c2, 1, 8), spend(&d1, 0, 9)];
        cb.push(vec![a1, a2, b1, b2, c1, c2, d1, d2]);
        cb.push(first);
        cb.push(second);
        cb.push(third);
        v.push(("txid twins (equal first / last 4 bytes), both members spent in consecutive blocks in either order, at equal and at different output indices".to_string(), cb));
    }
    // addresses whose totals are equal although reached differently (50 = 20 + 30 = 10 + 15 + 25), equal to a txid-less
    // constant (1), and equal after a spend: rows are per address, never per amount
    if !want(&v) {
        skip(&mut v);
    } else {
        let mut cb = ChainBuilder::with_genesis(coin);
        let a = |k: u8| script::p2pkh(&script::h20(120 + k));
        let outs = vec![
            TxOut { value: 50, script: a(1) },
            TxOut { value: 20, script: a(2) },
            TxOut { value: 30, script: a(2) },
            TxOut { value: 10, script: a(3) },
            TxOut { value: 15, script: a(3) },
            TxOut { value: 25, script: a(3) },
            TxOut { value: 50, script: a(4) },
            TxOut { value: 1, script: a(5) },
            TxOut { value: 1, script: a(6) },
            TxOut { value: 70, script: a(7) },
            TxOut { value: 50, script: a(7) },
            TxOut { value: 0, script: a(8) },
            TxOut { value: 0, script: a(9) },
        ];
        let payer = Tx { version: 1, segwit: false, inputs: vec![TxIn::spend([0xee; 32], 0)], outputs: outs, locktime: 0, wide: 0 };
        let txid = payer.txid();
        cb.push(vec![payer]);
        // a(7) drops from 120 to 50 as well
        cb.push(vec![Tx { version: 1, segwit: false, inputs: vec![TxIn::spend(txid, 9)], outputs: vec![TxOut { value: 50, script: a(10) }], locktime: 0, wide: 0 }]);
        v.push(("nine addresses with pairwise equal totals (50 five times, 1 twice, 0 twice)".to_string(), cb));
    }
    // transactions whose counts / lengths are stored in wider CompactSize forms than necessary: their ids are the hashes of
    // the bytes as stored, and that is what later inputs refer to
    if !want(&v) {
        skip(&mut v);
    } else {
        let mut cb = ChainBuilder::with_genesis(coin);
        let mut funders = Vec::new();
        for (k, wide) in [1u8, 2, 3, 1 | (1 << 2), 2 | (2 << 2), 3 | (4 << 2), 1 | (8 << 2), 0].into_iter().enumerate() {
            funders.push(Tx { version: 1, segwit: k % 2 == 1, inputs: vec![TxIn::spend([0xc0 + k as u8; 32], 0)], outputs: vec![TxOut { value: 100 + k as u64, script: script::p2pkh(&script::h20(140 + k as u8)) }, TxOut { value: 200 + k as u64, script: script::p2pkh(&script::h20(150 + k as u8)) }], locktime: 0, wide });
        }
        let spender = Tx { version: 1, segwit: false, inputs: funders.iter().map(|f| TxIn::spend(f.txid(), 0)).collect(), outputs: vec![TxOut { value: 7, script: script::p2pkh(&script::h20(160)) }], locktime: 0, wide: 2 };
        cb.push(funders);
        cb.push(vec![spender]);
        v.push(("eight funding transactions in wide CompactSize forms (3 widths, single fields), their first outputs spent by id".to_string(), cb));
    }
    // "for any history of transactions": where the coinbase stands in a block - or whether there is one - is not part of the
    // statement. A block without any coinbase whose first transaction spends an output of the range; a block whose coinbase
    // comes second, behind a transaction that spends; a block with two coinbase-shaped transactions; a block whose only
    // transaction pays to no address, followed in the same block by transactions that spend and pay (block 4)
    if !want(&v) {
        skip(&mut v);
    } else {
        use refmodel::chain::coinbase;
        let mut cb = ChainBuilder::with_genesis(coin);
        let a = |k: u8| script::p2pkh(&script::h20(170 + k));
        let c1 = coinbase(1, 21, vec![TxOut { value: 50, script: a(1) }, TxOut { value: 60, script: a(2) }, TxOut { value: 70, script: a(3) }]);
        let id1 = c1.txid();
        cb.push_raw(vec![c1]);
        let s2 = Tx { version: 1, segwit: false, inputs: vec![TxIn::spend(id1, 0)], outputs: vec![TxOut { value: 49, script: a(4) }], locktime: 0, wide: 0 };
        let id2 = s2.txid();
        cb.push_raw(vec![s2]); // no coinbase at all
        let s3 = Tx { version: 1, segwit: false, inputs: vec![TxIn::spend(id2, 0), TxIn::spend(id1, 1)], outputs: vec![TxOut { value: 100, script: a(5) }], locktime: 0, wide: 0 };
        let id3 = s3.txid();
        cb.push_raw(vec![s3, coinbase(3, 22, vec![TxOut { value: 50, script: a(6) }]), coinbase(3, 23, vec![TxOut { value: 5000, script: a(7) }])]); // coinbase second and third
        let data_only = Tx { version: 1, segwit: false, inputs: vec![TxIn::spend([0xab; 32], 0)], outputs: vec![TxOut { value: 0, script: script::op_return(b"nothing to see") }], locktime: 0, wide: 0 };
        let s4 = Tx { version: 1, segwit: false, inputs: vec![TxIn::spend(id3, 0)], outputs: vec![TxOut { value: 30, script: a(8) }, TxOut { value: 0, script: script::op_return(b"x") }], locktime: 0, wide: 0 };
        let s5 = Tx { version: 1, segwit: false, inputs: vec![TxIn::spend(id1, 2)], outputs: vec![TxOut { value: 69, script: a(1) }], locktime: 0, wide: 0 };
        cb.push_raw(vec![coinbase(4, 24, vec![TxOut { value: 0, script: script::op_return(b"coinbase without address") }]), data_only, s4, s5]);
        v.push(("blocks without a leading coinbase (none / second / two of them) and transactions without any address in front of spending ones".to_string(), cb));
    }
    // ranges that end with NOTHING to list: every address-bearing output of the range is spent inside it / no output of the range
    // carries an address at all. The dump is then the header line alone (the chains begin at height 7, the genesis output is
    // not part of them).
    for variant in 0..2u8 {
        if !want(&v) {
            skip(&mut v);
            continue;
        }
        use refmodel::chain::coinbase;
        let mut cb = ChainBuilder::at(coin, 7);
        let data = |t: &[u8]| TxOut { value: 0, script: script::op_return(t) };
        if variant == 0 {
            let c1 = coinbase(7, 31, vec![TxOut { value: 50, script: script::p2pkh(&script::h20(190)) }, TxOut { value: 0, script: script::p2pkh(&script::h20(191)) }]);
            let id = c1.txid();
            cb.push_raw(vec![c1]);
            cb.push_raw(vec![coinbase(8, 32, vec![data(b"no address")]), Tx { version: 1, segwit: false, inputs: vec![TxIn::spend(id, 0), TxIn::spend(id, 1)], outputs: vec![data(b"burnt")], locktime: 0, wide: 0 }]);
        } else {
            cb.push_raw(vec![coinbase(7, 33, vec![data(b"a"), TxOut { value: 5, script: vec![0x51] }])]);
            cb.push_raw(vec![coinbase(8, 34, vec![TxOut { value: 7, script: script::multisig(1, &[&script::key33(9)], 1) }])]);
        }
        v.push((format!("nothing left to list ({}): header line only", if variant == 0 { "everything spent again" } else { "no output with an address" }), cb));
    }
    // the inputs of one transaction are independent of each other: an input that finds nothing to remove (it names an output
    // without address, an output created below the range, an unknown transaction, the null outpoint) says nothing about the
    // inputs behind it - also when they name the SAME earlier transaction
    if !want(&v) {
        skip(&mut v);
    } else {
        use refmodel::chain::coinbase;
        let mut cb = ChainBuilder::with_genesis(coin);
        let a = |k: u8| script::p2pkh(&script::h20(200 + k));
        let f = coinbase(1, 41, vec![
            TxOut { value: 11, script: script::multisig(1, &[&script::key33(9)], 1) },
            TxOut { value: 15, script: a(1) },
            TxOut { value: 0, script: script::op_return(b"data") },
            TxOut { value: 40, script: a(2) },
            TxOut { value: 7, script: vec![0x51] },
            TxOut { value: 9, script: a(3) },
        ]);
        let fid = f.txid();
        cb.push_raw(vec![f]);
        let t1 = Tx { version: 1, segwit: false, inputs: vec![TxIn::spend(fid, 0), TxIn::spend(fid, 1)], outputs: vec![TxOut { value: 20, script: a(4) }], locktime: 0, wide: 0 };
        let t2 = Tx { version: 1, segwit: false, inputs: vec![TxIn::spend([0x5a; 32], 3), TxIn::spend(fid, 3), TxIn::spend(fid, 2)], outputs: vec![TxOut { value: 30, script: a(5) }], locktime: 0, wide: 0 };
        let mut null_first = TxIn::spend([0u8; 32], 0xffff_ffff);
        null_first.script_sig = vec![0x51];
        let t3 = Tx { version: 1, segwit: false, inputs: vec![null_first, TxIn::spend(fid, 4), TxIn::spend(fid, 5)], outputs: vec![TxOut { value: 8, script: a(6) }], locktime: 0, wide: 0 };
        cb.push(vec![t1, t2, t3]);
        v.push(("spends whose first input finds nothing to remove (no address / unknown / null outpoint), later inputs naming the same transaction".to_string(), cb));
    }
    // a long range: 2200 blocks, an address-bearing output created at EVERY height (and still unspent at the end), every seventh
    // block spending the coinbase of three blocks before - whatever an implementation does "every N blocks" (ageing, flushing,
    // compacting its table) happens several times, and every height is somebody's boundary
    if !want(&v) {
        skip(&mut v);
    } else {
        use refmodel::chain::coinbase;
        let mut cb = ChainBuilder::with_genesis(coin);
        let mut ids: Vec<[u8; 32]> = vec![[0u8; 32]];
        for h in 1..2200u64 {
            let mut a = [0x77u8; 20];
            a[..8].copy_from_slice(&h.to_le_bytes());
            let c = coinbase(h, 51, vec![TxOut { value: 1000 + h, script: script::p2pkh(&a) }, TxOut { value: 5, script: script::p2pkh(&script::h20((h % 200) as u8)) }]);
            ids.push(c.txid());
            let mut txs = vec![c];
            if h % 7 == 0 && h > 3 {
                txs.push(Tx { version: 1, segwit: false, inputs: vec![TxIn::spend(ids[(h - 3) as usize], 1)], outputs: vec![TxOut { value: 4, script: script::p2pkh(&script::h20(201)) }], locktime: 0, wide: 0 });
            }
            cb.push_raw(txs);
        }
        v.push(("2200 blocks, an unspent address-bearing output created at every height".to_string(), cb));
    }
    // a big UTXO set: 250 000 unspent outputs over 40 addresses (5 transactions of 50 000 outputs), 10 000 of them spent again
    if !want(&v) {
        skip(&mut v);
    } else {
        let mut cb = ChainBuilder::with_genesis(coin);
        let mut txids = Vec::new();
        let mut txs = Vec::new();
        for t in 0..5usize {
            let outs: Vec<TxOut> = (0..50_000usize).map(|i| TxOut { value: 1 + (i % 1000) as u64, script: script::p2pkh(&script::h20(((i + t) % 40) as u8 + 100)) }).collect();
            let tx = Tx { version: 1, segwit: false, inputs: vec![TxIn::spend([0xee; 32], t as u32)], outputs: outs, locktime: t as u32, wide: 0 };
            txids.push(tx.txid());
            txs.push(tx);
        }
        cb.push(txs);
        let spender = Tx { version: 1, segwit: false, inputs: (0..10_000u32).map(|i| TxIn::spend(txids[(i % 5) as usize], i * 4)).collect(), outputs: vec![TxOut { value: 9, script: script::p2pkh(&script::h20(100)) }], locktime: 0, wide: 0 };
        cb.push(vec![spender]);
        v.push(("250000 unspent outputs over 40 addresses, 10000 spent".to_string(), cb));
    }
    v
}

pub fn run(prop: &str) -> Report {
    let mut rep = Report::new(prop, "e1");
    let thorough = is_thorough();
    let c08 = prop == "C08";
    let (hist, bound) = grammar_histories(thorough, c08);
    rep.bound = bound;
    rep.rule = "every spend history of the grammar: 3 blocks (real genesis + 2), coinbases paying A/B or byte-identical duplicates, <=N non-coinbase txs placed in any block, each input chosen from {any output created earlier incl. same block, an output created later (spend-before-create), unknown txid, the null outpoint, out-of-range index, an outpoint referenced before (double reference)}, outputs from {A, B, OP_RETURN, bare multisig, zero-value A (, P2PK of A's key)}; histories whose references form a hash cycle are unrealisable and skipped; plus output-index width sweeps, --start ranges, 3 coins, three-block chains around 20 heights with a meaning in a chain's history, and the directories spelled 9 ways on the command line; non-trivial = distinct realisable history".into();
    let root = refmodel::world::scratch_root();
    // work items: (history index, coin, --start) and the index-width sweeps
    #[derive(Clone)]
    enum Item {
        H(usize, &'static str, Option<u64>),
        W(&'static str, usize),
        /// three blocks around a height that has a meaning in some chain's history (nothing in C07/C08 depends on it)
        Hist(&'static str, u64),
    }
    let mut items: Vec<Item> = (0..hist.len()).map(|i| Item::H(i, "bitcoin", None)).collect();
    let stride = if thorough { 7 } else { 40 };
    for cname in ["bitcoin", "litecoin", "dogecoin"] {
        for (i, h) in hist.iter().enumerate() {
            if h.txs.len() == 1 && i % stride == 0 {
                if cname != "bitcoin" {
                    items.push(Item::H(i, cname, None));
                }
                items.push(Item::H(i, cname, Some(2)));
                if i % (3 * stride) == 0 {
                    items.push(Item::H(i, cname, Some(1)));
                }
            }
        }
        // the special worlds (output-index widths, large values, every script kind, big UTXO set): all of them on bitcoin,
        // all but the last (250 000 outputs) on the other coins
        let n_special = index_width_cases(coin(cname), Some(usize::MAX)).len();
        for k in 0..n_special {
            if k + 1 < n_special || cname == "bitcoin" {
                items.push(Item::W(cname, k));
            }
        }
    }
    // heights as ground values: BIP30's repeated coinbases and their originals, BIP34/66/65, CSV, segwit, taproot, halvings,
    // AuxPoW starts, other chains' fork heights; a pruned node's chain of three blocks H-1..H+1 read with --start H-1
    for cname in ["bitcoin", "litecoin", "dogecoin"] {
        for h in [91_722u64, 91_812, 91_842, 91_880, 210_000, 227_931, 363_725, 388_381, 419_328, 420_000, 478_558, 481_824, 630_000, 709_632, 840_000, 19_200, 145_000, 371_337, 1_680_000, 21_111] {
            if cname == "bitcoin" || thorough || h < 100_000 {
                items.push(Item::Hist(cname, h));
            }
        }
    }
    let cap = wall_cap();
    let t0 = std::time::Instant::now();
    let capped = std::sync::atomic::AtomicUsize::new(usize::MAX);
    let parts = par_fold(
        &items,
        || Report::new(prop, "e1"),
        |w, i, it, acc| {
            if cap > 0 && t0.elapsed().as_secs() > cap {
                capped.fetch_min(i, std::sync::atomic::Ordering::SeqCst);
                return;
            }
            let wk = Worker::new(&root, w);
            match it {
                Item::H(hi, cname, start) => judge_history(prop, c08, &wk, coin(cname), &hist[*hi], *start, acc),
                Item::W(cname, k) => {
                    let cn = coin(cname);
                    let (label, cb) = index_width_cases(cn, Some(*k)).remove(*k);
                    // (a special world may begin above height 0: it is then read with --start at its first height)
                    let world = World::simple(cn, &cb.blocks, cb.first_height);
                    let all = cb.mblocks();
                    run_and_judge(prop, c08, &wk, cn, &world, &all, if cb.first_height > 0 { Some(cb.first_height) } else { None }, &label, acc, false);
                    acc.count("index-width-sweep", 1);
                }
                Item::Hist(cname, h) => {
                    let cn = coin(cname);
                    // every coinbase pays two addresses; the next block spends the first output, the second stays unspent
                    let mut cb = ChainBuilder::at(cn, *h - 1);
                    let mut prev: Option<[u8; 32]> = None;
                    for _ in 0..3 {
                        let hh = cb.next_height();
                        let cbtx = refmodel::chain::coinbase(hh, 11, vec![refmodel::chain::pay((hh % 100) as u8 + 3, 30 * refmodel::chain::COIN_VALUE), refmodel::chain::pay((hh % 100) as u8 + 120, 20 * refmodel::chain::COIN_VALUE)]);
                        let mut txs = vec![cbtx.clone()];
                        if let Some(p) = prev {
                            txs.push(Tx { version: 2, segwit: false, inputs: vec![TxIn::spend(p, 0)], outputs: vec![refmodel::chain::pay(200, 29 * refmodel::chain::COIN_VALUE)], locktime: 0, wide: 0 });
                        }
                        prev = Some(cbtx.txid());
                        cb.push_raw(txs);
                    }
                    let world = World::simple(cn, &cb.blocks, *h - 1);
                    let all = cb.mblocks();
                    run_and_judge(prop, c08, &wk, cn, &world, &all, Some(*h - 1), &format!("three blocks around height {}", h), acc, true);
                    acc.count("chain-around-a-historic-height", 1);
                }
            }
        },
    );
    for p in parts {
        rep.merge(p);
    }
    let c = capped.load(std::sync::atomic::Ordering::SeqCst);
    if c != usize::MAX {
        rep.caps_hit.push(format!("wall cap {} s: work items up to #{} of {} fully covered (enumeration order, simplest first)", cap, c, items.len()));
    }
    concurrent_siblings(&mut rep, &root, prop, &hist);
    // a signal at every point of the block loop: whatever is left under a final name after an exit 0 is judged by its name
    crate::c02::interrupted_runs(&mut rep, &root, prop, if c08 { &["balances"] } else { &["unspentcsvdump"] });
    if thorough || std::env::var("VERIF_HUGE_UTXO").is_ok() {
        huge_utxo_world(&mut rep, &root, c08);
    }
    let _ = std::fs::remove_dir_all(&root);
    rep
}

/// The three file-producing callbacks run at the same time on one dump folder (three processes), held at a barrier until all
/// of them have written everything and none has renamed anything: each result must be what the callback writes when it runs
/// alone. (Two runs of the SAME callback in one folder clash by design and are not part of this.)
fn concurrent_siblings(rep: &mut Report, root: &std::path::Path, prop: &str, hist: &[History]) {
    let btc = coin("bitcoin");
    let picks: Vec<&History> = hist.iter().filter(|h| h.txs.len() == 2).step_by(97).take(6).collect();
    for (k, h) in picks.into_iter().enumerate() {
        let cb = match build(btc, h) {
            Some(c) => c,
            None => continue,
        };
        let wk = Worker::new(root, 700 + k);
        let world = World::simple(btc, &cb.blocks, 0);
        if let Err(m) = wk.materialise(&world) {
            return rep.machinery(m);
        }
        wk.fresh_dump();
        let barrier = wk.dir.join("barrier");
        let _ = std::fs::remove_dir_all(&barrier);
        std::fs::create_dir_all(&barrier).unwrap();
        let results: Vec<(String, refmodel::run::RunResult)> = std::thread::scope(|s| {
            let hs: Vec<_> = ["csvdump", "unspentcsvdump", "balances"]
                .into_iter()
                .map(|cbn| {
                    let (wk, barrier) = (&wk, &barrier);
                    s.spawn(move || {
                        let mut spec = RunSpec::new("bitcoin", cbn);
                        spec.env.push(("FAULTFS_DIR".into(), wk.dump().display().to_string()));
                        spec.env.push(("VERIF_BARRIER".into(), format!("{}:3", barrier.display())));
                        // each process reads its own copy of the data directory (LevelDB takes an exclusive lock while the
                        // index is loaded); the dump folder is the shared one
                        let data = wk.dir.join(format!("data-{}", cbn));
                        let _ = std::fs::remove_dir_all(&data);
                        refmodel::world::copy_dir(&wk.data(), &data).unwrap();
                        (cbn.to_string(), refmodel::run::run_bin(&wk.bin, &data, &wk.dump(), &spec))
                    })
                })
                .collect();
            hs.into_iter().map(|h| h.join().unwrap()).collect()
        });
        let files = refmodel::run::read_dir_files(&wk.dump());
        let all = cb.mblocks();
        let tip = all.len() as u64 - 1;
        rep.states += 1;
        rep.transitions += 3;
        rep.count("concurrent-sibling-callbacks-in-one-dump-folder", 1);
        rep.nontrivial.insert(h8(format!("siblings{:?}", h).as_bytes()));
        for (cbn, mut r) in results {
            r.files = files.iter().filter(|(n, _)| match cbn.as_str() { "csvdump" => !n.starts_with("unspent") && !n.starts_with("balances"), "unspentcsvdump" => n.starts_with("unspent"), _ => n.starts_with("balances") }).map(|(n, c)| (n.clone(), c.clone())).collect();
            let bad = match (prop, cbn.as_str()) {
                ("C07", "unspentcsvdump") => check_unspent(&r, btc, &all, 0, tip),
                ("C08", "balances") => check_balances(&r, btc, &all, 0, tip),
                _ => expect_success(&r),
            };
            if let Some((sig, detail)) = bad.into_iter().next() {
                rep.disagree(&format!("concurrent-siblings:{}:{}", cbn, sig), format!("{:?}: {} while csvdump, unspentcsvdump and balances shared the dump folder: {}", h, cbn, detail.chars().take(400).collect::<String>()), json!({"kind": "e1-described", "history": format!("{:?}", h), "callbacks": ["csvdump", "unspentcsvdump", "balances"]}));
                break;
            }
        }
    }
}

fn judge_history(prop: &str, c08: bool, wk: &Worker, cn: &'static Coin, h: &History, start: Option<u64>, acc: &mut Report) {
    let cb = match build(cn, h) {
        Some(c) => c,
        None => {
            acc.count("unrealisable-hash-cycle", 1);
            return;
        }
    };
    // every other history spread over two blk files (height order leaves a file and returns to the adjacent block)
    let world = World::laid_out(cn, &cb.blocks, 0, h.txs.len() + h.txs.iter().map(|t| t.inputs.len() + t.outs.len() + t.block as usize).sum::<usize>());
    let all = cb.mblocks();
    // classify for coverage accounting
    for t in &h.txs {
        for (r, _) in &t.inputs {
            match r {
                TxRef::Unknown => acc.count("input:unknown-outpoint", 1),
                TxRef::Null => acc.count("input:null-outpoint-in-non-coinbase-tx", 1),
                TxRef::Tx(_) => acc.count("input:non-coinbase-output", 1),
                _ => acc.count("input:coinbase-output", 1),
            }
        }
    }
    if h.cb[1] == 2 {
        acc.count("duplicate-coinbase-txid", 1);
    }
    run_and_judge(prop, c08, wk, cn, &world, &all, start, &format!("{:?}", h), acc, true);
}

#[allow(clippy::too_many_arguments)]
fn run_and_judge(prop: &str, c08: bool, wk: &Worker, cn: &'static Coin, world: &World, all: &[model::MBlock], start: Option<u64>, label: &str, acc: &mut Report, embed: bool) {
    if let Err(m) = wk.materialise(world) {
        acc.machinery(m);
        return;
    }
    let mut spec_u = RunSpec::new(cn.name, "unspentcsvdump").range(start, None);
    spec_u.env.push(("VERIF_RUN_TIMEOUT".into(), "120".into()));
    // verbosity by case (none of the big worlds: a trace line per block and output would only cost time)
    let verbosity = if embed { h8(label.as_bytes())[1] % 4 } else { 0 };
    spec_u.verbosity = verbosity;
    // how the two directories are spelled on the command line, by case (absolute, relative, trailing slash, through links,
    // the current directory named "", "." or "./")
    let path_form = if embed { h8(label.as_bytes())[2] % 10 } else { 0 };
    spec_u.env.push(("VERIF_PATH_FORM".into(), path_form.to_string()));
    acc.count(&format!("path-form:{}", path_form), 1);
    // every fourth case starts from a dump folder holding the (longer) *.csv.tmp leftovers of an aborted earlier dump
    let dirty = h8(label.as_bytes())[0] % 4 == 0;
    let run = |spec: &RunSpec| {
        if dirty {
            wk.fresh_dump();
            let junk: String = (0..400).map(|i| format!("{:064x};{};{};{};1LeftoverOfAnAbortedRun{}\n", i, i, i, 1000 + i, i)).collect();
            for n in ["unspent.csv.tmp", "balances.csv.tmp"] {
                std::fs::write(wk.dump().join(n), &junk).unwrap();
            }
            let mut r = wk.run_keep(spec);
            // the other callback's leftover is not this run's business
            let other = if spec.callback == "balances" { "unspent.csv.tmp" } else { "balances.csv.tmp" };
            r.files.remove(other);
            r
        } else {
            wk.run(spec)
        }
    };
    if dirty {
        acc.count("dump-folder-with-leftover-tmp-files", 1);
    }
    let ru = run(&spec_u);
    acc.states += 1;
    acc.transitions += 1;
    let tip = all.last().map(|b| b.height).unwrap_or(0);
    let (s, e) = (ru.declared_start().unwrap_or(start.unwrap_or(0)), ru.declared_end().unwrap_or(tip));
    let range = in_range(all, s, e);
    acc.nontrivial.insert(h8(format!("{}{:?}{}", label, start, cn.name).as_bytes()));
    let (model_utxo, _, _, _) = model::utxo_set(cn, &range);
    acc.outcomes.insert(h8(format!("{:?}", model::unspent_rows(&model_utxo)).as_bytes()));
    if acc.samples.len() < 2 && label.contains("Tx(") {
        acc.sample(json!({"history": label, "coin": cn.name, "start": start, "expected_unspent_rows": model::unspent_rows(&model_utxo).into_iter().collect::<Vec<_>>()}));
    }
    let rc = |spec: &RunSpec, r: &refmodel::run::RunResult| if embed { replay_case(world, spec, json!({"rows": model::unspent_rows(&model_utxo).into_iter().collect::<Vec<_>>()}), r, &wk.dir) } else { json!({"kind": "e1-described", "case": label}) };
    if !c08 {
        if let Some((sig, detail)) = check_unspent(&ru, cn, &range, s, e).into_iter().next() {
            acc.disagree(&sig, format!("{} start={:?} {}: {}", cn.name, start, label, detail), rc(&spec_u, &ru));
        }
        return;
    }
    // C08: balances against the model and against the aggregation of the observed unspent dump
    let mut spec_b = RunSpec::new(cn.name, "balances").range(start, None);
    spec_b.env.push(("VERIF_RUN_TIMEOUT".into(), "120".into()));
    spec_b.verbosity = verbosity;
    spec_b.env.push(("VERIF_PATH_FORM".into(), path_form.to_string()));
    let rb = run(&spec_b);
    acc.transitions += 1;
    if let Some((sig, detail)) = check_balances(&rb, cn, &range, s, e).into_iter().next() {
        acc.disagree(&sig, format!("{} start={:?} {}: {}", cn.name, start, label, detail), rc(&spec_b, &rb));
        return;
    }
    if ru.ok() && rb.ok() {
        let ut = ru.file_str(&format!("unspent-{}-{}.csv", s, e)).unwrap_or_default();
        let mut agg: BTreeMap<String, u128> = BTreeMap::new();
        for l in ut.lines().skip(1) {
            let f: Vec<&str> = l.split(';').collect();
            if f.len() == 5 {
                *agg.entry(f[4].to_string()).or_insert(0) += f[3].parse::<u128>().unwrap_or(0);
            }
        }
        let want: std::collections::BTreeSet<String> = agg.iter().map(|(a, v)| format!("{};{}", a, v)).collect();
        let bt = rb.file_str(&format!("balances-{}-{}.csv", s, e)).unwrap_or_default();
        let got: std::collections::BTreeSet<String> = bt.lines().skip(1).map(|x| x.to_string()).collect();
        if want != got {
            acc.disagree("balances-differ-from-aggregated-unspent-dump", format!("{} {}: balances {:?} aggregation of unspent dump {:?}", cn.name, label, got, want), rc(&spec_b, &rb));
        }
        if agg.len() < ut.lines().count().saturating_sub(1) {
            acc.count("address-with-several-unspent-outputs", 1);
        }
    }
}

/// Scale (thorough tier; VERIF_HUGE_UTXO=1 forces it in the quick tier): more live address-bearing outputs than any table a
/// callback could reasonably reserve up front (14.7 million; std's hash map reserved for 10 million entries holds 14 680 064),
/// created by one transaction between two byte-identical coinbases (duplicate txid: the later replaces the earlier), a few of
/// them spent again at indices around the CompactSize and power-of-two marks. The dump is judged row by row while it is read
/// (a bitmap over the output indices; no row set of that size is built): every row of the big transaction has the height,
/// value and address of its index, none is listed twice, none of the spent ones is listed, and all other rows are the model's.
fn huge_utxo_world(rep: &mut Report, root: &std::path::Path, c08: bool) {
    let n: usize = std::env::var("VERIF_HUGE_UTXO_N").ok().and_then(|v| v.parse().ok()).unwrap_or(14_700_000);
    let btc = coin("bitcoin");
    let scripts: Vec<Vec<u8>> = (0..40u8).map(|k| script::p2pkh(&script::h20(100 + k))).collect();
    let addrs: Vec<String> = scripts.iter().map(|s| script::expect(btc, s).address.unwrap_or_default()).collect();
    let dup = coinbase(1, 0xd0, vec![refmodel::chain::pay(90, 50 * COIN_VALUE), refmodel::chain::pay(91, 7)]);
    let build = |n_out: usize| -> (ChainBuilder, [u8; 32], Vec<u32>) {
        let mut cb = ChainBuilder::with_genesis(btc);
        cb.push_raw(vec![dup.clone()]);
        let big = Tx { version: 1, segwit: false, inputs: vec![TxIn::spend([0xee; 32], 0)], outputs: (0..n_out).map(|i| TxOut { value: 1 + (i % 1000) as u64, script: scripts[i % 40].clone() }).collect(), locktime: 0, wide: 0 };
        let id = big.txid();
        cb.push(vec![big]);
        cb.push_raw(vec![dup.clone()]);
        let spent: Vec<u32> = [0usize, 1, 252, 253, 65_535, 65_536, n_out / 2, n_out.saturating_sub(2), n_out - 1].into_iter().filter(|i| *i < n_out).map(|i| i as u32).collect::<std::collections::BTreeSet<u32>>().into_iter().collect();
        cb.push(vec![Tx { version: 1, segwit: false, inputs: spent.iter().map(|i| TxIn::spend(id, *i)).collect(), outputs: vec![refmodel::chain::pay(92, 9)], locktime: 0, wide: 0 }]);
        (cb, id, spent)
    };
    let (cb, big_id, spent) = build(n);
    // the rows of everything but the big transaction: the model on the same chain with a one-output stand-in for it
    let (small, small_id, _) = build(1);
    let (u_small, _, _, _) = model::utxo_set(btc, &small.mblocks());
    // (the spending transaction names the big one's id in its inputs, so its own id differs between the two chains)
    let spender_id = cb.blocks[4].txs[1].txid();
    let small_spender = small.blocks[4].txs[1].txid();
    let others: Vec<model::Utxo> = u_small
        .into_iter()
        .filter(|x| x.txid != small_id)
        .map(|mut x| {
            if x.txid == small_spender {
                x.txid = spender_id;
            }
            x
        })
        .collect();
    let want_others = model::unspent_rows(&others);
    let world = World::simple(btc, &cb.blocks, 0);
    drop(cb);
    let wk = Worker::new(root, 980);
    if let Err(m) = wk.materialise(&world) {
        return rep.machinery(m);
    }
    drop(world);
    let desc = json!({"kind": "e1-described", "world": format!("genesis; coinbase X; one transaction with {} outputs over 40 addresses; coinbase X again (byte-identical); a transaction spending {} of the outputs", n, spent.len())});
    let big_hex = refmodel::ser::hash_hex(&big_id);
    let spent_set: std::collections::BTreeSet<u32> = spent.iter().copied().collect();
    for cbn in if c08 { vec!["balances"] } else { vec!["unspentcsvdump"] } {
        let mut spec = RunSpec::new("bitcoin", cbn);
        spec.env.push(("VERIF_RUN_TIMEOUT".into(), "5400".into()));
        let r = wk.run(&spec);
        rep.states += 1;
        rep.transitions += 1;
        rep.count(&format!("huge-utxo-world:{}-outputs", n), 1);
        rep.nontrivial.insert(h8(format!("huge{}{}", n, cbn).as_bytes()));
        let mut bad: Vec<Mismatch> = expect_success(&r);
        if bad.is_empty() && cbn == "unspentcsvdump" {
            match r.files.get("unspent-0-4.csv") {
                None => bad.push(("unspent-file-missing".into(), format!("{:?}", r.files.keys().collect::<Vec<_>>()))),
                Some(bytes) => {
                    let mut seen = vec![0u64; n / 64 + 1];
                    let mut count = 0usize;
                    let mut got_others: std::collections::BTreeSet<String> = Default::default();
                    for (ln, line) in bytes.split(|b| *b == b'\n').enumerate() {
                        if line.is_empty() {
                            continue;
                        }
                        let line = String::from_utf8_lossy(line);
                        if ln == 0 {
                            if line != model::UNSPENT_HEADER {
                                bad.push(("unspent-header".into(), line.to_string()));
                                break;
                            }
                            continue;
                        }
                        let f: Vec<&str> = line.split(';').collect();
                        if f.len() == 5 && f[0] == big_hex {
                            let i: usize = f[1].parse().unwrap_or(usize::MAX);
                            if i >= n {
                                bad.push(("unspent-row-of-nonexistent-output".into(), line.to_string()));
                                break;
                            }
                            if seen[i / 64] >> (i % 64) & 1 == 1 {
                                bad.push(("unspent-row-listed-twice".into(), line.to_string()));
                                break;
                            }
                            seen[i / 64] |= 1 << (i % 64);
                            count += 1;
                            if spent_set.contains(&(i as u32)) {
                                bad.push(("unspent-spent-output-listed".into(), line.to_string()));
                                break;
                            }
                            if f[2] != "2" || f[3].parse::<u64>().ok() != Some(1 + (i % 1000) as u64) || f[4] != addrs[i % 40] {
                                bad.push(("unspent-row-wrong".into(), format!("{} (expected height 2 value {} address {})", line, 1 + i % 1000, addrs[i % 40])));
                                break;
                            }
                        } else if !got_others.insert(line.to_string()) {
                            bad.push(("unspent-row-listed-twice".into(), line.to_string()));
                            break;
                        }
                    }
                    if bad.is_empty() && count != n - spent.len() {
                        bad.push(("unspent-rows-missing".into(), format!("{} rows of the big transaction, expected {}", count, n - spent.len())));
                    }
                    if bad.is_empty() && got_others != want_others {
                        // an outpoint listed under two heights shows here: same txid and index, different height
                        let sig = if got_others.iter().any(|l| got_others.iter().any(|m| m != l && m.split(';').take(2).eq(l.split(';').take(2)))) { "unspent-outpoint-listed-twice" } else { "unspent-rows-differ" };
                        bad.push((sig.into(), format!("unexpected {:?} missing {:?}", got_others.difference(&want_others).take(3).collect::<Vec<_>>(), want_others.difference(&got_others).take(3).collect::<Vec<_>>())));
                    }
                }
            }
        }
        if bad.is_empty() && cbn == "balances" {
            let mut sums: BTreeMap<String, u128> = BTreeMap::new();
            for i in 0..n {
                if !spent_set.contains(&(i as u32)) {
                    *sums.entry(addrs[i % 40].clone()).or_insert(0) += 1 + (i % 1000) as u128;
                }
            }
            for x in &others {
                *sums.entry(x.address.clone()).or_insert(0) += x.value as u128;
            }
            let want: std::collections::BTreeSet<String> = sums.into_iter().map(|(a, v)| format!("{};{}", a, v)).collect();
            match r.file_str("balances-0-4.csv") {
                None => bad.push(("balances-file-missing".into(), format!("{:?}", r.files.keys().collect::<Vec<_>>()))),
                Some(t) => {
                    let got: std::collections::BTreeSet<String> = t.lines().skip(1).map(|x| x.to_string()).collect();
                    if got != want || t.lines().count() != want.len() + 1 {
                        bad.push(("balances-rows-differ".into(), format!("unexpected {:?} missing {:?}", got.difference(&want).take(3).collect::<Vec<_>>(), want.difference(&got).take(3).collect::<Vec<_>>())));
                    }
                }
            }
        }
        if let Some((sig, detail)) = bad.into_iter().next() {
            rep.disagree(&format!("huge-utxo-world:{}", sig), format!("{} outputs, {}: {}", n, cbn, detail.chars().take(500).collect::<String>()), desc.clone());
        }
    }
    wk.cleanup();
}
