//! C02 — exactly heights start..min(end,tip), once, ascending (E1; model checking over the option space).
use crate::gen::dependent_chain;
use crate::hx::{replay_case, Worker};
use crate::oracle::*;
use refmodel::coins::coin;
use refmodel::ev::{h8, is_thorough, par_fold, Report};
use refmodel::run::RunSpec;
use refmodel::world::World;
use serde_json::json;

#[derive(Clone, Debug)]
struct Case {
    /// the dump folder already holds the *.csv.tmp files of an aborted whole-chain dump (longer than the new output)
    dirty: bool,
    base: u64,   // height of first indexed block (0 for dense chains)
    n: usize,    // number of blocks
    start: Option<u64>,
    end: Option<u64>,
    cb: &'static str,
}

const CALLBACKS: [&str; 5] = ["csvdump", "unspentcsvdump", "balances", "simplestats", "opreturn"];

pub fn run() -> Report {
    let mut rep = Report::new("C02", "e1");
    let max_t: u64 = if is_thorough() { 10 } else { 6 };
    let mut cases = Vec::new();
    for t in 0..=max_t {
        let mut opts: Vec<(Option<u64>, Option<u64>)> = vec![(None, None)];
        for s in 0..=t {
            opts.push((Some(s), None));
        }
        for e in 1..=t + 2 {
            opts.push((None, Some(e)));
        }
        for s in 0..=t {
            for e in s + 1..=t + 2 {
                opts.push((Some(s), Some(e)));
            }
        }
        for (s, e) in opts {
            for cb in CALLBACKS {
                cases.push(Case { dirty: false, base: 0, n: t as usize + 1, start: s, end: e, cb });
                if matches!(cb, "csvdump" | "unspentcsvdump" | "balances") && (s.is_some() || e.is_some()) && t >= 2 {
                    cases.push(Case { dirty: true, base: 0, n: t as usize + 1, start: s, end: e, cb });
                }
            }
        }
    }
    // a long chain (more blocks than fit a byte / many buffer flushes of the log): whole and mid ranges, all callbacks
    let long_n: usize = if is_thorough() { 1000 } else { 300 };
    for (s, e) in [(None, None), (Some(100u64), Some(260u64)), (Some(255), Some(257)), (None, Some(256))] {
        for cb in CALLBACKS {
            cases.push(Case { dirty: false, base: 0, n: long_n, start: s, end: e, cb });
        }
    }
    // more blocks than a 16-bit counter holds: 70 000 blocks, whole chain and a range crossing 65 535 / 65 536
    for (s, e) in [(None, None), (Some(65_530u64), Some(65_540u64))] {
        for cb in CALLBACKS {
            cases.push(Case { dirty: false, base: 0, n: 70_000, start: s, end: e, cb });
        }
    }
    // sparse high-height indexes: records only at H-1..H+3
    let highs: Vec<u64> = if is_thorough() {
        vec![127, 128, 16_511, 16_512, 209_999, 2_113_663, 2_113_664, 1_000_000, 1 << 32]
    } else {
        vec![128, 16_512, 209_999, 2_113_664, 1 << 32]
    };
    for h in highs {
        let b = h - 1;
        for (s, e) in [(Some(h), None), (Some(b), Some(h + 1)), (Some(h), Some(h + 2)), (Some(h + 1), Some(h + 9)), (Some(h + 3), None), (Some(h + 2), Some(h + 3))] {
            for cb in CALLBACKS {
                if cb == "simplestats" && h >= 13_440_000 {
                    continue; // reward shift >= 64: C15's business
                }
                cases.push(Case { dirty: false, base: b, n: 5, start: s, end: e, cb });
            }
        }
    }
    rep.rule = "every accepted (tip T, --start, --end) combination x 5 callbacks on dense chains (file-producing callbacks also with the leftovers of an aborted whole-chain dump in the dump folder), a long chain (300 / 1000 blocks) with ranges around height 256, plus range shapes on sparse indexes at VarInt-width / halving / >32-bit heights; non-trivial = distinct (T, options, callback) whose run delivered at least one block".into();
    rep.bound = json!({"max_tip": max_t, "callbacks": 5, "cases": cases.len(), "long_chain_blocks": long_n, "very_long_chain_blocks": 70000, "index_records_headers_only": 1000000});
    let root = refmodel::world::scratch_root();
    let btc = coin("bitcoin");
    // an index of today's mainnet length (more than 900 000 linked records; runs beside the sweep, it is mostly single-threaded)
    let long_index = {
        let root = root.clone();
        std::thread::spawn(move || {
            let mut r = Report::new("C02", "e1");
            crate::c04::long_index_case(&mut r, &root, 1_000_000, "csvdump");
            r
        })
    };
    let parts = par_fold(
        &cases,
        || Report::new("C02", "e1"),
        |w, i, c, acc| {
            let wk = Worker::new(&root, w);
            let chain = if c.n >= 10_000 { crate::c03::uniform_chain(c.n) } else { dependent_chain(btc, c.base, c.n) };
            let all = chain.mblocks();
            // every other case spread over two blk files (height order leaves a file and returns to the adjacent block)
            let mut world = World::laid_out(btc, &chain.blocks, c.base, if c.n >= 10_000 { 0 } else { i });
            // a partial directory: only the blk files that hold the blocks of the range were kept (copied from a node, or the
            // older ones pruned away by hand); the index still describes the whole chain. Nothing below --start is ever read.
            if c.n < 10_000 && c.start.map(|s| s > c.base).unwrap_or(false) && i % 5 == 4 {
                let s = c.start.unwrap();
                world = World::new(btc);
                for (k, b) in chain.blocks.iter().enumerate() {
                    let h = c.base + k as u64;
                    world.add_block(if h < s { 50 } else { (k % 2) as u64 }, h, b);
                }
                world.files.remove(&50);
                acc.count("partial-directory:blk-file-of-the-blocks-below-start-missing", 1);
            }
            // what else a node's index holds: flag records ('F' + name: txindex, prunedblockfiles), the reindex marker 'R', per-file
            // records 'f', the last-file record 'l', transaction-index records 't' - keys before, between and behind the block
            // records in key order
            if i % 2 == 1 {
                use refmodel::world::IndexOp;
                world.index_ops.push(IndexOp::Put(b"F\x07txindex".to_vec(), vec![b'1']));
                world.index_ops.push(IndexOp::Put(b"F\x10prunedblockfiles".to_vec(), vec![b'0']));
                world.index_ops.push(IndexOp::Put(b"R".to_vec(), vec![b'1']));
                world.index_ops.push(IndexOp::Put(b"B".to_vec(), vec![0x62; 32]));
                world.index_ops.push(IndexOp::Put(b"a".to_vec(), vec![b'b'; 40]));
                world.index_ops.push(IndexOp::Put(b"f\x00\x00\x00\x00".to_vec(), vec![1, 2, 3, 4, 5, 6]));
                world.index_ops.push(IndexOp::Put(b"l".to_vec(), vec![0, 0, 0, 0]));
                let mut t = vec![b't'];
                t.extend_from_slice(&[0x62; 32]);
                world.index_ops.push(IndexOp::Put(t, vec![0, 8, 9]));
                acc.count("index-with-flag-reindex-file-and-txindex-records", 1);
            }
            let mut stale_seed: Option<&str> = None;
            // a once-active, reorganised-away block (fully validated, with data) at exactly the height --end names: which chain is
            // the active one is decided by the real tip, not by what is left after the range was cut
            if let Some(e) = c.end {
                if c.n < 10_000 && e >= c.base + 1 && e < c.base + c.n as u64 - 1 && i % 3 != 1 {
                    let h = (e - c.base) as usize;
                    let parent = chain.blocks[h - 1].hash();
                    let txs = vec![refmodel::chain::coinbase(e, 0xbad, vec![refmodel::chain::pay(251, 7)])];
                    for nonce in 0..2u32 {
                        let b = refmodel::ser::Block::build(1, parent, 1_650_000_000, 0x1d00ffff, nonce, txs.clone());
                        world.add_block_status(7, e, &b, refmodel::world::ACTIVE);
                    }
                    stale_seed = Some(["1", "2", "6", "9", "17"][i % 5]);
                    acc.count("validated-stale-siblings-at-the-end-height", 1);
                }
            }
            // the tip T is the end of the active chain, also when the index remembers a taller branch that was fully validated
            // and then invalidated (invalidateblock, a late validation failure): its first block carries FAILED_VALID,
            // the descendants FAILED_CHILD only (or both flags), and it ends above T
            let tip0 = c.base + c.n as u64 - 1;
            if c.n >= 2 && c.n < 10_000 && i % 3 != 1 && c.end.map(|e| e >= tip0).unwrap_or(true) {
                use refmodel::world::{ACTIVE, FAILED_CHILD, FAILED_VALID};
                let mut parent = chain.blocks[c.n - 2].hash();
                let child_flags = [FAILED_CHILD, FAILED_CHILD | FAILED_VALID, FAILED_CHILD][i % 3];
                for k in 0..3u64 {
                    let txs = vec![refmodel::chain::coinbase(tip0 + k, 0xdead + k as u32, vec![refmodel::chain::pay(250, 9)])];
                    let b = refmodel::ser::Block::build(1, parent, 1_650_000_500 + k as u32, 0x1d00ffff, 77 + k as u32, txs);
                    world.add_block_status(8, tip0 + k, &b, ACTIVE | if k == 0 { FAILED_VALID } else { child_flags });
                    parent = b.hash();
                }
                if stale_seed.is_none() {
                    stale_seed = Some(["1", "2", "6", "9", "17"][i % 5]);
                }
                acc.count("invalidated-branch-ending-above-the-tip", 1);
            }
            // every third case: a never-connected record whose key agrees with an active block's hash in its first / last bytes
            if c.n >= 3 && c.n < 10_000 && i % 3 == 1 {
                let mid = c.n / 2;
                let b = &chain.blocks[mid];
                let rec = refmodel::world::IndexRec { hash: b.hash(), client_version: 270000, height: c.base + mid as u64, status: refmodel::world::ACTIVE, ntx: b.txs.len() as u64, file: 0, data_pos: 0, undo_pos: 0, header: b.header.ser() };
                world.add_key_twin(&rec, (i / 3) as u8);
                acc.count("index-with-key-twin-record", 1);
            }
            let tip = c.base + c.n as u64 - 1;
            let s = c.start.unwrap_or(0);
            let e = c.end.map(|e| e.min(tip)).unwrap_or(tip);
            let mut spec = RunSpec::new("bitcoin", c.cb).range(c.start, c.end);
            if let Some(seed) = stale_seed {
                spec.env.push(("VERIF_DETRAND".into(), seed.to_string()));
            }
            // time is an environment answer: every fourth case runs on a virtual monotonic clock that advances 4 s per query
            // (the driver's "every 10 seconds" status branch is crossed every few blocks), every fourth on one that stands still
            match i % 4 {
                2 => spec.env.push(("VERIF_CLOCK_STEP".into(), "4000000000".into())),
                3 => spec.env.push(("VERIF_CLOCK_STEP".into(), "0".into())),
                _ => {}
            }
            // ... nor is the calendar date: a clock behind the chain's timestamps (at the epoch, before block 1, inside the chain)
            match i % 9 {
                4 => spec.env.push(("VERIF_REALTIME".into(), "1300000000".into())),
                7 => spec.env.push(("VERIF_REALTIME".into(), if i % 2 == 0 { "0".into() } else { "1599995000".to_string() })),
                _ => {}
            }
            if c.n >= 10_000 {
                spec.env.push(("VERIF_RUN_TIMEOUT".into(), "600".into()));
            }
            // how the heights are spelled is not part of the range: decimal numbers with leading zeros (0250 is two hundred and
            // fifty), with a plus sign, as --start=N (HEAD accepts all of them, they are what wrapper scripts produce)
            match i % 7 {
                1 => spec.env.push(("VERIF_ARGV_FORM".into(), "2".into())),
                3 => spec.env.push(("VERIF_ARGV_FORM".into(), "3".into())),
                5 => spec.env.push(("VERIF_ARGV_FORM".into(), "1".into())),
                _ => {}
            }
            if let Err(m) = wk.materialise(&world) {
                acc.machinery(m);
                return;
            }
            let r = if c.dirty {
                // leftovers of an aborted dump of the whole chain: the model's whole-chain files under their tmp names
                wk.fresh_dump();
                let whole = refmodel::model::csvdump(btc, &all);
                let (u, _, _, _) = refmodel::model::utxo_set(btc, &all);
                let join = |hdr: &str, rows: std::collections::BTreeSet<String>| format!("{}\n{}\n", hdr, rows.into_iter().collect::<Vec<_>>().join("\n"));
                let files: Vec<(&str, String)> = vec![
                    ("blocks.csv.tmp", whole.blocks.clone()),
                    ("transactions.csv.tmp", whole.transactions.clone()),
                    ("tx_in.csv.tmp", whole.tx_in.clone()),
                    ("tx_out.csv.tmp", whole.tx_out.clone()),
                    ("unspent.csv.tmp", join(refmodel::model::UNSPENT_HEADER, refmodel::model::unspent_rows(&u))),
                    ("balances.csv.tmp", join(refmodel::model::BALANCES_HEADER, refmodel::model::balances_rows(&u))),
                ];
                for (n, t) in files {
                    // only the tmp files of this callback: the others would (rightly) remain in the folder
                    let mine = match c.cb {
                        "csvdump" => !n.starts_with("unspent") && !n.starts_with("balances"),
                        "unspentcsvdump" => n.starts_with("unspent"),
                        _ => n.starts_with("balances"),
                    };
                    if mine {
                        std::fs::write(wk.dump().join(n), format!("{}{}", t, t)).unwrap();
                    }
                }
                acc.count("dirty-dump-folder", 1);
                wk.run_keep(&spec)
            } else {
                wk.run(&spec)
            };
            acc.states += 1;
            acc.transitions += 1;
            let range = in_range(&all, s, e);
            let mut bad: Vec<Mismatch> = Vec::new();
            if r.declared_start() != Some(s) {
                bad.push(("declared-start".into(), format!("log declares start {:?}, expected {}", r.declared_start(), s)));
            }
            if r.code == Some(0) && r.declared_end() != Some(e) {
                bad.push(("declared-end".into(), format!("log declares last processed height {:?}, expected {}", r.declared_end(), e)));
            }
            let m = match c.cb {
                "csvdump" => check_csvdump(&r, btc, &range, s, e),
                "unspentcsvdump" => check_unspent(&r, btc, &range, s, e),
                "balances" => check_balances(&r, btc, &range, s, e),
                "simplestats" => {
                    // only the figures that depend on which blocks were delivered (C15 owns the rest)
                    check_stats(&r, btc, &range).into_iter().filter(|m| ["stats-valid-blocks", "stats-total-transactions", "stats-total-tx-outputs", "stats-total-volume", "run-failed", "run-panicked", "stats-report-missing"].contains(&m.0.as_str())).collect()
                }
                _ => check_opreturn(&r, btc, &range),
            };
            bad.extend(m);
            // height column: ascending, each once (csvdump)
            if c.cb == "csvdump" && r.ok() {
                if let Some(t) = r.files.iter().find(|(k, _)| k.starts_with("blocks-")).map(|(_, v)| String::from_utf8_lossy(v).into_owned()) {
                    let hs: Vec<u64> = t.lines().filter_map(|l| l.split(';').nth(1).and_then(|x| x.parse().ok())).collect();
                    let want: Vec<u64> = (s..=e).collect();
                    if hs != want {
                        bad.push(("delivered-heights".into(), format!("height column {:?}, expected {:?}", hs, want)));
                    }
                }
            }
            if !range.is_empty() {
                acc.nontrivial.insert(h8(format!("{:?}", c).as_bytes()));
            }
            acc.outcomes.insert(h8(format!("{:?}{:?}", r.code, r.files.keys().collect::<Vec<_>>()).as_bytes()));
            acc.count(&format!("callback:{}", c.cb), 1);
            if c.end.map(|x| x > tip).unwrap_or(false) {
                acc.count("end-above-tip", 1);
            }
            if c.end == Some(tip) {
                acc.count("end-at-tip", 1);
            }
            if c.base > 0 {
                acc.count("sparse-high-height", 1);
            }
            if acc.samples.len() < 2 {
                acc.sample(json!({"tip": tip, "first_indexed": c.base, "argv": spec.argv(std::path::Path::new("DATA"), std::path::Path::new("DUMP")).join(" "), "expected_range": [s, e]}));
            }
            // one signature per run: the most specific first
            if let Some((sig, detail)) = bad.into_iter().next() {
                let sig = if e == tip && (sig.contains("missing") || sig.contains("differs") || sig.contains("declared-end") || sig.contains("delivered") || sig.contains("rows") || sig.starts_with("stats-") || sig.contains("opreturn-line")) {
                    format!("last-height-of-range:{}", sig)
                } else {
                    sig
                };
                acc.disagree(&sig, format!("{:?}: {}", c, detail), replay_case(&world, &spec, expected_brief(c.cb, s, e), &r, &wk.dir));
            }
        },
    );
    for p in parts {
        rep.merge(p);
    }
    // slice law (differential): csvdump/opreturn of a range equals the slice of the whole-chain output
    slice_law(&mut rep, &root, max_t.min(4));
    start_above_tip(&mut rep, &root);
    interrupted_runs(&mut rep, &root, "C02", &["csvdump", "opreturn", "unspentcsvdump", "balances"]);
    match long_index.join() {
        Ok(r) => rep.merge(r),
        Err(_) => rep.machinery("long-index case panicked".into()),
    }
    let _ = std::fs::remove_dir_all(&root);
    rep
}

fn slice_law(rep: &mut Report, root: &std::path::Path, t: u64) {
    let btc = coin("bitcoin");
    let wk = Worker::new(root, 99);
    let chain = dependent_chain(btc, 0, t as usize + 1);
    let world = World::simple(btc, &chain.blocks, 0);
    if let Err(m) = wk.materialise(&world) {
        rep.machinery(m);
        return;
    }
    let whole_csv = wk.run(&RunSpec::new("bitcoin", "csvdump"));
    let whole_op = wk.run(&RunSpec::new("bitcoin", "opreturn"));
    let whole_blocks = whole_csv.files.iter().find(|(k, _)| k.starts_with("blocks-")).map(|(_, v)| String::from_utf8_lossy(v).into_owned()).unwrap_or_default();
    let whole_lines = parse_opreturn(&whole_op).unwrap_or_default();
    for s in 0..=t {
        for e in s + 1..=t + 1 {
            let ee = e.min(t);
            let spec = RunSpec::new("bitcoin", "csvdump").range(Some(s), Some(e));
            let r = wk.run(&spec);
            rep.transitions += 1;
            let got = r.files.iter().find(|(k, _)| k.starts_with("blocks-")).map(|(_, v)| String::from_utf8_lossy(v).into_owned()).unwrap_or_default();
            let want: String = whole_blocks.lines().filter(|l| l.split(';').nth(1).and_then(|x| x.parse::<u64>().ok()).map(|h| h >= s && h <= ee).unwrap_or(false)).map(|l| format!("{}\n", l)).collect();
            // the whole-chain run may itself miss its last height; the law is judged on the heights it did list
            let whole_max = whole_blocks.lines().filter_map(|l| l.split(';').nth(1).and_then(|x| x.parse::<u64>().ok())).max().unwrap_or(0);
            if ee <= whole_max && got != want {
                rep.disagree("slice-law-csvdump", format!("-s {} -e {}: {}", s, e, first_diff(&got, &want)), replay_case(&world, &spec, json!({"slice_of_whole": want}), &r, &wk.dir));
            }
            let spec = RunSpec::new("bitcoin", "opreturn").range(Some(s), Some(e));
            let r = wk.run(&spec);
            rep.transitions += 1;
            let got = parse_opreturn(&r).unwrap_or_default();
            let want: Vec<_> = whole_lines.iter().filter(|l| l.0 >= s && l.0 <= ee).cloned().collect();
            let whole_max = whole_lines.iter().map(|l| l.0).max().unwrap_or(0);
            if ee <= whole_max && got != want {
                rep.disagree("slice-law-opreturn", format!("-s {} -e {}: got {:?} want {:?}", s, e, got, want), replay_case(&world, &spec, json!({"slice_of_whole": want}), &r, &wk.dir));
            }
        }
    }
    rep.count("slice-law-pairs", (t + 1) * (t + 2) / 2);
}

/// --start above the tip (an incremental dump asked for "everything after the last block I have" when no new block has
/// arrived): the set of heights s..min(e,T) is empty. Whatever the run does about names, log lines and its exit status (the
/// statement is silent there), no block may be delivered: no row in any file of the dump, no opreturn line.
fn start_above_tip(rep: &mut Report, root: &std::path::Path) {
    let btc = coin("bitcoin");
    for t in [0u64, 3, 5] {
        let chain = dependent_chain(btc, 0, t as usize + 1);
        let world = World::simple(btc, &chain.blocks, 0);
        let wk = Worker::new(root, 930);
        if let Err(m) = wk.materialise(&world) {
            return rep.machinery(m);
        }
        for (s, e) in [(t + 1, None), (t + 3, None), (t + 2, Some(t + 9)), (t + 1, Some(t + 1))] {
            for cb in ["csvdump", "opreturn", "unspentcsvdump"] {
                let spec = RunSpec::new("bitcoin", cb).range(Some(s), e);
                let r = wk.run(&spec);
                rep.states += 1;
                rep.transitions += 1;
                rep.nontrivial.insert(h8(format!("above-tip{}{}{:?}{}", t, s, e, cb).as_bytes()));
                rep.count("start-above-the-tip", 1);
                let rows: usize = r.files.iter().filter(|(n, _)| n.ends_with(".csv")).map(|(n, v)| String::from_utf8_lossy(v).lines().filter(|l| !l.is_empty()).count().saturating_sub(if n.starts_with("unspent") { 1 } else { 0 })).sum();
                let lines = crate::oracle::parse_opreturn(&r).map(|l| l.len()).unwrap_or(0);
                if rows > 0 || (cb == "opreturn" && lines > 0) {
                    rep.disagree("block-delivered-although-start-is-above-the-tip", format!("tip {} --start {} --end {:?} {}: {} rows in final-named files, {} opreturn lines", t, s, e, cb, rows, lines), replay_case(&world, &spec, json!({"must": "deliver no block"}), &r, &wk.dir));
                }
            }
        }
        wk.cleanup();
    }
}

/// Asynchronous events: a signal (SIGINT / SIGTERM / SIGHUP / SIGUSR1) is raised immediately before EVERY read of a blk file, i.e.
/// at every point of the block loop an environment could interrupt. Whatever the program does with it is its own business
/// (HEAD: the default disposition ends the process) - but if the run then ends with exit status 0 and leaves final-named
/// files, they say which range they cover (their names carry s and the last processed height) and must hold exactly the
/// model's output for that range: no block beyond it, every block in it. Shared by C02 (csvdump, opreturn), C07 (unspent)
/// and C08 (balances). Runs that end with a non-zero status or by the signal are not judged here (C10 judges what they leave).
pub fn interrupted_runs(rep: &mut Report, root: &std::path::Path, prop: &str, cbs: &[&'static str]) {
    let btc = coin("bitcoin");
    let chain = dependent_chain(btc, 0, 7);
    let all = chain.mblocks();
    let mut world = World::new(btc);
    for (i, b) in chain.blocks.iter().enumerate() {
        world.add_block(i as u64, i as u64, b); // one block per file: every block has reads of its own
    }
    let wk = Worker::new(root, 940);
    if let Err(m) = wk.materialise(&world) {
        return rep.machinery(m);
    }
    let mut plans: Vec<(&'static str, usize, &'static str)> = Vec::new();
    for cb in cbs {
        let mut s = RunSpec::new("bitcoin", cb);
        s.env.push(("FAULTFS_RPREFIX".into(), format!("{}/blk", wk.data().display())));
        s.env.push(("FAULTFS_LOG".into(), wk.dir.join("shim.log").display().to_string()));
        let _ = std::fs::remove_file(wk.dir.join("shim.log"));
        let r = wk.run(&s);
        let n = std::fs::read_to_string(wk.dir.join("shim.log")).unwrap_or_default().lines().filter(|l| l.starts_with("R ")).count();
        if !r.ok() || n == 0 {
            // An undisturbed run that fails, or ends with exit 0 without having read a single block, is an observation about the
            // subject, not about this harness: judge it like any other run of this world (whole chain, heights 0..6). Only when
            // the oracle has nothing to say although no read was seen is the shim itself in doubt.
            let bad = match *cb {
                "csvdump" => check_csvdump(&r, btc, &all, 0, 6),
                "unspentcsvdump" => check_unspent(&r, btc, &all, 0, 6),
                "balances" => check_balances(&r, btc, &all, 0, 6),
                _ => check_opreturn(&r, btc, &all),
            };
            match bad.into_iter().next() {
                Some((sig, detail)) => rep.disagree(&format!("interrupted-runs:undisturbed-run:{}", sig), format!("{} on the 7-block one-block-per-file world, no signal: {}", cb, detail.chars().take(500).collect::<String>()), replay_case(&world, &s, json!({"oracle": "model of the whole chain, heights 0..6"}), &r, &wk.dir)),
                None => rep.machinery(format!("interrupted runs: numbering run of {} saw {} blk reads (exit {:?}) although its output is right: the shim did not trace", cb, n, r.code)),
            }
            return;
        }
        rep.count(&format!("interrupted-runs:blk-reads:{}", cb), n as u64);
        for k in 0..n {
            for sg in ["SIGINT", "SIGTERM", "SIGHUP", "SIGUSR1"] {
                plans.push((cb, k, sg));
            }
        }
    }
    drop(wk);
    let parts = par_fold(
        &plans,
        || Report::new(prop, "e1"),
        |w, _i, (cb, k, sg), acc| {
            let wk = Worker::new(root, 941 + w);
            if !wk.data().exists() {
                if let Err(m) = wk.materialise(&world) {
                    return acc.machinery(m);
                }
            }
            let mut spec = RunSpec::new("bitcoin", cb);
            spec.env.push(("FAULTFS_RPREFIX".into(), format!("{}/blk", wk.data().display())));
            spec.env.push(("FAULTFS_RPLAN".into(), format!("{}:{}", k, sg)));
            let r = wk.run(&spec);
            acc.states += 1;
            acc.transitions += 1;
            acc.nontrivial.insert(h8(format!("intr{}{}{}", cb, k, sg).as_bytes()));
            acc.count("interrupted-runs", 1);
            if r.code != Some(0) {
                acc.count("interrupted-runs:ended-by-the-signal-or-failed(not judged here)", 1);
                return;
            }
            acc.count("interrupted-runs:exit-0", 1);
            // the range the run says it covered
            let named: Option<(u64, u64)> = r.files.keys().filter(|n| n.ends_with(".csv")).find_map(|n| {
                let stem = n.trim_end_matches(".csv");
                let mut it = stem.rsplitn(3, '-');
                let e = it.next()?.parse().ok()?;
                let s = it.next()?.parse().ok()?;
                Some((s, e))
            });
            let (s, e) = match (named, r.declared_end()) {
                (Some(se), _) => se,
                (None, Some(e)) => (r.declared_start().unwrap_or(0), e),
                _ => (0, 6),
            };
            let range = in_range(&all, s, e.min(6));
            let bad = match *cb {
                "csvdump" => check_csvdump(&r, btc, &range, s, e),
                "unspentcsvdump" => check_unspent(&r, btc, &range, s, e),
                "balances" => check_balances(&r, btc, &range, s, e),
                _ => check_opreturn(&r, btc, &range),
            };
            if let Some((sig, detail)) = bad.into_iter().next() {
                acc.disagree(&format!("interrupted-run:{}", sig), format!("{} {} before blk read #{}: exit 0, output names the range {}..{}: {}", cb, sg, k, s, e, detail.chars().take(500).collect::<String>()), replay_case(&world, &spec, json!({"must": "whatever carries a final name holds exactly the model's output for the range in its name"}), &r, &wk.dir));
            }
        },
    );
    for p in parts {
        rep.merge(p);
    }
}
