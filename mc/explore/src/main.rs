mod c02;
mod gen;
mod hx;
mod oracle;

fn main() {
    let args: Vec<String> = std::env::args().collect();
    if args.len() >= 3 && args[1] == "--replay" {
        std::process::exit(hx::replay(&args[2]));
    }
    if args.len() < 2 {
        eprintln!("usage: explore <PROPERTY> | --replay <file>");
        std::process::exit(2);
    }
    if let Err(e) = refmodel::addr::self_test() {
        eprintln!("MACHINERY-ERROR oracle self-test failed: {}", e);
        std::process::exit(2);
    }
    let rep = match args[1].as_str() {
        "C02" => c02::run(),
        p => {
            eprintln!("explore: no E1 check for {}", p);
            std::process::exit(2);
        }
    };
    std::process::exit(rep.finish());
}
