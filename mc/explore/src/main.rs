mod bind;
mod c01;
mod c02;
mod c03;
mod c04;
mod c07;
mod c09;
mod c10;
mod c11;
mod c12;
mod c13;
mod c14;
mod c15;
mod c17;
mod gen;
mod hx;
mod oracle;
mod probe;

fn main() {
    let args: Vec<String> = std::env::args().collect();
    if args.len() >= 3 && args[1] == "--replay" {
        std::process::exit(hx::replay(&args[2]));
    }
    if args.len() < 2 {
        eprintln!("usage: explore <PROPERTY> | --replay <file>");
        std::process::exit(2);
    }
    if let Err(e) = refmodel::addr::self_test() {
        eprintln!("MACHINERY-ERROR oracle self-test failed: {}", e);
        std::process::exit(2);
    }
    if args[1] == "probe" {
        probe::run(&args[2]);
        return;
    }
    let rep = match args[1].as_str() {
        "C01" => c01::run(),
        "C02" => c02::run(),
        "C03" => c03::run(),
        "C04" => c04::run(),
        "C05" => bind::run_c05_c06("C05"),
        "C06" => bind::run_c05_c06("C06"),
        "C16" => bind::run_c16(),
        "C07" => c07::run("C07"),
        "C08" => c07::run("C08"),
        "C09" => c09::run(),
        "C10" => c10::run(),
        "C11" => c11::run(),
        "C12" => c12::run(),
        "C13" => c13::run(),
        "C14" => c14::run(),
        "C15" => c15::run(),
        "C17" => c17::run(),
        p => {
            eprintln!("explore: no E1 check for {}", p);
            std::process::exit(2);
        }
    };
    // thorough tier of C14 / C15: the same enumeration again on the release-profile binary (no overflow checks)
    let mut rep = rep;
    if let Ok(rel) = std::env::var("RBP_BIN_RELEASE") {
        if !rel.is_empty() && refmodel::ev::is_thorough() && matches!(args[1].as_str(), "C14" | "C15") {
            std::env::set_var("RBP_BIN", &rel);
            let mut r2 = match args[1].as_str() {
                "C14" => c14::run(),
                _ => c15::run(),
            };
            // keep the two profiles apart in signatures and counters
            let d = std::mem::take(&mut r2.disagreements);
            for (k, v) in d {
                r2.disagreements.insert(format!("release-profile:{}", k), v);
            }
            let c = std::mem::take(&mut r2.counters);
            for (k, v) in c {
                r2.counters.insert(format!("release:{}", k), v);
            }
            let nt: Vec<[u8; 8]> = r2.nontrivial.iter().map(|h| { let mut x = *h; x[0] ^= 0xff; x }).collect();
            r2.nontrivial = nt.into_iter().collect();
            rep.merge(r2);
            rep.bound["profiles"] = serde_json::json!(["dev", "release"]);
        }
    }
    std::process::exit(rep.finish());
}
