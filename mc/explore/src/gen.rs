//! Shared chain generators for the E1 grammars.
use refmodel::chain::{coinbase, pay, ChainBuilder, COIN_VALUE};
use refmodel::coins::Coin;
use refmodel::script;
use refmodel::ser::{Tx, TxIn, TxOut};

/// Chain of tip height `t` (t+1 blocks from `first_height`) in which every height contributes to every callback:
/// coinbase paying address h, an OP_RETURN "h<height>", and a tx spending the previous block's coinbase.
pub fn dependent_chain(coin: &'static Coin, first_height: u64, n_blocks: usize) -> ChainBuilder {
    let mut cb = if first_height == 0 { ChainBuilder::with_genesis(coin) } else { ChainBuilder::at(coin, first_height) };
    let mut prev_cb: Option<[u8; 32]> = None;
    if first_height == 0 {
        // genesis coinbase (P2PK) stays unspent
    }
    while cb.blocks.len() < n_blocks {
        let h = cb.next_height();
        let cbtx = coinbase(h, 7, vec![pay((h % 200) as u8 + 3, 50 * COIN_VALUE), TxOut { value: 0, script: script::op_return(format!("h{}", h).as_bytes()) }]);
        let mut txs = vec![cbtx.clone()];
        if let Some(p) = prev_cb {
            txs.push(Tx { version: 2, segwit: false, inputs: vec![TxIn::spend(p, 0)], outputs: vec![pay(200, 20 * COIN_VALUE), pay((h % 50) as u8 + 100, 29 * COIN_VALUE)], locktime: h as u32, wide: 0 });
        }
        prev_cb = Some(cbtx.txid());
        cb.push_raw(txs);
    }
    cb
}

/// A chain index of realistic length (mainnet has passed 900 000 blocks) whose bulk is headers only: the first blocks
/// (`real`, heights 0..) have block data in blk00000.dat; heights real.len()..total are index records of a header chain linked
/// by prev_hash whose data offsets lie beyond the end of blk00000.dat (they are never read as long as the run's range ends
/// inside `real`). `stale` are fully validated blocks of a branch forking off genesis (heights 1..), stored in blk00001.dat.
pub fn headers_only_world(coin: &'static Coin, real: &ChainBuilder, total: usize, stale: &[refmodel::ser::Block]) -> refmodel::world::World {
    use refmodel::ser::Header;
    use refmodel::world::{IndexRec, World, ACTIVE};
    let mut w = World::new(coin);
    // stale branch first: an implementation that resolves heights by insertion or iteration order has every chance to prefer it
    for (i, b) in stale.iter().enumerate() {
        w.add_block_status(1, 1 + i as u64, b, ACTIVE);
    }
    for (h, b) in real.blocks.iter().enumerate() {
        w.add_block(0, h as u64, b);
    }
    let mut prev = real.tip_hash();
    for h in real.blocks.len()..total {
        let hd = Header { version: 0x2000_0000, prev, merkle: refmodel::hash::sha256(&(h as u64).to_le_bytes()), time: 1_300_000_000 + h as u32, bits: 0x1d00ffff, nonce: h as u32 };
        let ser = hd.ser();
        let hash = refmodel::hash::sha256d(&ser);
        w.put_rec(&IndexRec { hash, client_version: 270000, height: h as u64, status: ACTIVE, ntx: 1, file: 0, data_pos: (1u64 << 33) + 300 * h as u64, undo_pos: 8, header: ser });
        prev = hash;
    }
    w
}
