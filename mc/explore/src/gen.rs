//! Shared chain generators for the E1 grammars.
use refmodel::chain::{coinbase, pay, ChainBuilder, COIN_VALUE};
use refmodel::coins::Coin;
use refmodel::script;
use refmodel::ser::{Tx, TxIn, TxOut};

/// Chain of tip height `t` (t+1 blocks from `first_height`) in which every height contributes to every callback:
/// coinbase paying address h, an OP_RETURN "h<height>", and a tx spending the previous block's coinbase.
pub fn dependent_chain(coin: &'static Coin, first_height: u64, n_blocks: usize) -> ChainBuilder {
    let mut cb = if first_height == 0 { ChainBuilder::with_genesis(coin) } else { ChainBuilder::at(coin, first_height) };
    let mut prev_cb: Option<[u8; 32]> = None;
    if first_height == 0 {
        // genesis coinbase (P2PK) stays unspent
    }
    while cb.blocks.len() < n_blocks {
        let h = cb.next_height();
        let cbtx = coinbase(h, 7, vec![pay((h % 200) as u8 + 3, 50 * COIN_VALUE), TxOut { value: 0, script: script::op_return(format!("h{}", h).as_bytes()) }]);
        let mut txs = vec![cbtx.clone()];
        if let Some(p) = prev_cb {
            txs.push(Tx { version: 2, segwit: false, inputs: vec![TxIn::spend(p, 0)], outputs: vec![pay(200, 20 * COIN_VALUE), pay((h % 50) as u8 + 100, 29 * COIN_VALUE)], locktime: h as u32 });
        }
        prev_cb = Some(cbtx.txid());
        cb.push_raw(txs);
    }
    cb
}
