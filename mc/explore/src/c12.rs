//! C12 — AuxPoW sections are skipped exactly (E1).
use crate::c01::TxP;
use crate::hx::{replay_case, Worker};
use crate::oracle::*;
use refmodel::chain::{coinbase, pay, ChainBuilder, COIN_VALUE};
use refmodel::coins::{coin, genesis, COINS};
use refmodel::ev::{h8, is_thorough, par_fold, Report};
use refmodel::run::RunSpec;
use refmodel::script;
use refmodel::ser::{AuxPow, Block, Header, Tx, TxIn, TxOut};
use refmodel::world::World;
use serde_json::json;

#[derive(Clone, Debug)]
struct Section {
    parent_cb: u8, // 0 legacy 1-in/1-out, 1 legacy 2-out with 0xfd-byte script, 2 segwit with witness stack, 3 / 4 huge
    cb_branch: usize,
    chain_branch: usize,
    mask: u32,
    /// version field of the parent block header inside the section: 0 = 0x20000000, 1 = the block's own version, 2 = 1
    parent_version: u8,
    /// CompactSize forms inside the section: bits 0-3 / 4-7 = width of the coinbase / chain branch length (AuxPow::branch_wide),
    /// bits 8-15 = Tx::wide of the parent coinbase
    wide: u16,
}

#[derive(Clone, Debug)]
struct Case {
    coin: &'static str,
    versions: Vec<u32>,
    section: Section,
    label: String,
}

fn hash_n(seed: u8, i: usize) -> [u8; 32] {
    let mut h = [0u8; 32];
    h.copy_from_slice(&script::filler(seed.wrapping_add(i as u8), 32));
    h[31] = (i >> 8) as u8;
    h
}

fn build_section(s: &Section, seed: u8, block_version: u32) -> AuxPow {
    let mut parent_coinbase = match s.parent_cb {
        0 => Tx { version: 1, segwit: false, inputs: vec![TxIn::coinbase(vec![3, 1, 2, 3, 0xfa, 0xbe, b'm', b'm'])], outputs: vec![TxOut { value: 25, script: script::p2pkh(&script::h20(seed)) }], locktime: 0, wide: 0 },
        1 => Tx { version: 2, segwit: false, inputs: vec![TxIn::coinbase(vec![0x51; 100])], outputs: vec![TxOut { value: 25, script: vec![0x51; 0xfd] }, TxOut { value: 0, script: script::op_return(b"aux") }], locktime: 7, wide: 0 },
        3 => Tx { version: 1, segwit: false, inputs: vec![TxIn::coinbase(vec![0x51; 70_000])], outputs: (0..300).map(|k| TxOut { value: k, script: vec![0x51; 40 + (k as usize % 7)] }).collect(), locktime: 1, wide: 0 },
        // alignment sweep: the parent coinbase scriptSig length is carried in `chain_branch` (the branch itself stays empty)
        5 => Tx { version: 1, segwit: false, inputs: vec![TxIn::coinbase(vec![0x51; s.chain_branch])], outputs: vec![TxOut { value: 25, script: script::p2pkh(&script::h20(seed)) }], locktime: 0, wide: 0 },
        4 => Tx { version: 1, segwit: false, inputs: vec![TxIn::coinbase(vec![0x51; 17_000_000])], outputs: (0..70_000).map(|k| TxOut { value: k, script: vec![0x51; 25] }).collect(), locktime: 1, wide: 0 },
        // the parent transaction is whatever the parent chain's miner serialised there - the section is delimited by the
        // transaction format alone: two inputs (the first one null), an ordinary outpoint instead of the null one, the null id
        // with index 0, no outputs at all, extreme version / sequence / lock time, 300 inputs with witness stacks
        6 => Tx { version: 1, segwit: false, inputs: vec![TxIn::coinbase(vec![3, 1, 2, 3]), TxIn::spend([0x77; 32], 1)], outputs: vec![TxOut { value: 25, script: script::p2pkh(&script::h20(seed)) }], locktime: 0, wide: 0 },
        7 => Tx { version: 1, segwit: false, inputs: vec![TxIn::spend([0x78; 32], 0)], outputs: vec![TxOut { value: 25, script: script::p2pkh(&script::h20(seed)) }], locktime: 0, wide: 0 },
        8 => {
            let mut i = TxIn::coinbase(vec![3, 1, 2, 3]);
            i.prev_index = 0;
            Tx { version: 1, segwit: false, inputs: vec![i], outputs: vec![TxOut { value: 25, script: script::p2pkh(&script::h20(seed)) }], locktime: 0, wide: 0 }
        }
        9 => Tx { version: 1, segwit: false, inputs: vec![TxIn::coinbase(vec![3, 1, 2, 3])], outputs: vec![], locktime: 0, wide: 0 },
        10 => {
            let mut i = TxIn::coinbase(vec![]);
            i.sequence = 0;
            Tx { version: 0xffff_ffff, segwit: false, inputs: vec![i], outputs: vec![TxOut { value: u64::MAX, script: vec![] }], locktime: 0xffff_ffff, wide: 0 }
        }
        11 => {
            let ins: Vec<TxIn> = (0..300u32).map(|k| { let mut i = TxIn::spend([0x79; 32], k); i.witness = vec![vec![k as u8; (k % 5) as usize]; (k % 4) as usize]; i }).collect();
            Tx { version: 2, segwit: true, inputs: ins, outputs: vec![TxOut { value: 25, script: script::witness(1, &[seed; 32]) }], locktime: 0, wide: 0 }
        }
        // what parent-chain pools write into their coinbase: height push, a pool tag in UTF-8 (multi-byte characters at every
        // offset: the number of ASCII characters in front of them is carried in `chain_branch`), the merged-mining marker, a root
        13 => {
            let mut sig = vec![0x03, 0x5d, 0xf4, 0x1f];
            sig.extend_from_slice(format!("/{}七彩神仙鱼 F2Pool Mined by käse-ñandú €uro 🐟/", "x".repeat(s.chain_branch)).as_bytes());
            sig.extend_from_slice(&[0xfa, 0xbe, b'm', b'm']);
            sig.extend_from_slice(&[0x42; 32]);
            Tx { version: 1, segwit: false, inputs: vec![TxIn::coinbase(sig)], outputs: vec![TxOut { value: 25, script: script::p2pkh(&script::h20(seed)) }], locktime: 0, wide: 0 }
        }
        // witness item length sweep: the length of the parent coinbase's (second) witness item is carried in `chain_branch`
        12 => {
            let mut i = TxIn::coinbase(vec![3, 9, 9, 9]);
            i.witness = vec![vec![0u8; 32], vec![0xc7; s.chain_branch], vec![1, 2, 3]];
            Tx { version: 2, segwit: true, inputs: vec![i], outputs: vec![TxOut { value: 25, script: script::witness(0, &script::h20(seed)) }], locktime: 0, wide: 0 }
        }
        _ => {
            let mut i = TxIn::coinbase(vec![3, 9, 9, 9]);
            i.witness = vec![vec![0u8; 32], vec![], vec![1, 2, 3]];
            Tx { version: 2, segwit: true, inputs: vec![i], outputs: vec![TxOut { value: 25, script: script::witness(0, &script::h20(seed)) }, TxOut { value: 0, script: script::op_return(&[0xaa; 36]) }], locktime: 0, wide: 0 }
        }
    };
    parent_coinbase.wide = (s.wide >> 8) as u8;
    AuxPow {
        parent_coinbase,
        parent_hash: hash_n(seed, 999),
        coinbase_branch: (0..s.cb_branch).map(|i| hash_n(seed, i)).collect(),
        coinbase_mask: s.mask,
        chain_branch: (0..if s.parent_cb == 5 || s.parent_cb == 12 || s.parent_cb == 13 { 0 } else { s.chain_branch }).map(|i| hash_n(seed.wrapping_add(40), i)).collect(),
        chain_mask: s.mask.rotate_left(3),
        branch_wide: (s.wide & 0xff) as u8, parent_header: Header { version: match s.parent_version { 0 => 0x20000000, 1 => block_version, _ => 1 }, prev: hash_n(seed, 500), merkle: hash_n(seed, 501), time: 1_500_000_000, bits: 0x1b00ffff, nonce: 0xdeadbeef },
    }
}

pub fn run() -> Report {
    let mut rep = Report::new("C12", "e1");
    let thorough = is_thorough();
    let mut cases = Vec::new();
    let default_sec = Section { parent_cb: 0, cb_branch: 1, chain_branch: 0, mask: 0, parent_version: 0, wide: 0 };
    for cn in ["namecoin", "dogecoin"] {
        let thr = coin(cn).auxpow_from.unwrap();
        let levels = [thr - 1, thr, thr + 1];
        // every order of below / at / above in a 3-block chain
        for a in levels {
            for b in levels {
                for c in levels {
                    cases.push(Case { coin: cn, versions: vec![a, b, c], section: default_sec.clone(), label: "orders".into() });
                }
            }
        }
        cases.push(Case { coin: cn, versions: vec![1, 0x7fff_ffff, 1, thr], section: default_sec.clone(), label: "extremes".into() });
        // the upper half of the 4-byte field: "at or above the activation version" as the numbers that are stored
        cases.push(Case { coin: cn, versions: vec![1, 0x8000_0000, thr, 0xffff_ffff], section: default_sec.clone(), label: "upper half".into() });
        cases.push(Case { coin: cn, versions: vec![0x8000_0101 | thr, 0x8001_0101, 0x8062_0102, 0xc062_0104], section: default_sec.clone(), label: "upper half, chain-id shapes".into() });
        // the threshold is a comparison of numbers, not a bit pattern: the one-bit neighbourhood of the activation version (each
        // of its 31 low bits flipped: above it with a section, below it without), every power of two and its successor, and
        // versions that real chains carry (BIP9 top bits with the chain id, version bits with the AuxPoW flag bit clear)
        let mut vs: Vec<u32> = (0..31).map(|k| thr ^ (1u32 << k)).collect();
        vs.extend((0..31).flat_map(|k| [1u32 << k, (1u32 << k) + 1]));
        vs.extend([0x2000_0000, 0x2000_0100, 0x2001_0000, 0x2062_0000, 0x0062_0004, 0x0001_0201, 0x0062_0202, 0x3fff_ffff, 0x7fff_fe00, 0x7fff_feff]);
        vs.sort();
        vs.dedup();
        for pair in vs.chunks(2) {
            let mut versions = vec![thr];
            versions.extend_from_slice(pair);
            versions.push(thr - 1);
            cases.push(Case { coin: cn, versions, section: default_sec.clone(), label: "version-neighbourhood".into() });
        }
        // section-shape product
        // thorough: branch lengths up to and across the one-byte CompactSize limit, and every parent transaction shape
        let cbs: Vec<usize> = if thorough { vec![0, 1, 2, 3, 5, 11, 32, 33, 0xfc, 0xfd] } else { vec![0, 1, 2] };
        let chs: Vec<usize> = if thorough { vec![0, 1, 2, 3, 5, 11, 32, 33, 0xfc, 0xfd] } else { vec![0, 1, 2] };
        let parent_kinds: Vec<u8> = if thorough { vec![0, 1, 2, 6, 7, 8, 9, 10, 11] } else { vec![0, 1, 2] };
        for parent_cb in parent_kinds {
            for &cb in &cbs {
                for &ch in &chs {
                    for mask in [0u32, 1, 0xffff_ffff] {
                        for parent_version in 0..3u8 {
                            cases.push(Case { coin: cn, versions: vec![thr - 1, thr, thr + 1], section: Section { parent_cb, cb_branch: cb, chain_branch: ch, mask, parent_version, wide: 0 }, label: "section-product".into() });
                        }
                    }
                }
            }
        }
        // the lengths inside the section stored in longer CompactSize forms than needed (same values): both branch lengths in
        // every combination of the four forms, and the counts / script lengths of the parent coinbase
        for parent_cb in 0..3u8 {
            for (cb, ch) in [(0usize, 0usize), (2, 0), (0, 1), (2, 3)] {
                for w in 0..16u16 {
                    let bw = (w & 3) | ((w >> 2) << 4);
                    cases.push(Case { coin: cn, versions: vec![thr, thr + 1], section: Section { parent_cb, cb_branch: cb, chain_branch: ch, mask: 1, parent_version: 0, wide: bw }, label: "wide-compactsize-forms".into() });
                }
                for tw in [1u16, 2, 3, 1 | 4, 2 | 8, 3 | 16, 1 | 32] {
                    cases.push(Case { coin: cn, versions: vec![thr, thr + 1], section: Section { parent_cb, cb_branch: cb, chain_branch: ch, mask: 1, parent_version: 0, wide: tw << 8 }, label: "wide-compactsize-forms".into() });
                }
            }
        }
        // the record's length field is not the block's length (one short, the length without the section, 0, 24 or 1000 too
        // long, 0xffffffff): the section is delimited by its own structure, not by the envelope; blocks alone in their file
        // (nothing behind them) and with neighbours
        for v in 0..6u8 {
            for parent_cb in 0..3u8 {
                cases.push(Case { coin: cn, versions: vec![thr, thr - 1, thr + 1, thr], section: Section { parent_cb, cb_branch: 2, chain_branch: 1, mask: 1, parent_version: 0, wide: 0 }, label: format!("length-field#{}", v) });
            }
        }
        for parent_cb in 6..=11u8 {
            for (cb, ch) in [(0usize, 0usize), (2, 1)] {
                cases.push(Case { coin: cn, versions: vec![thr, thr + 1, thr - 1, thr], section: Section { parent_cb, cb_branch: cb, chain_branch: ch, mask: 1, parent_version: 0, wide: 0 }, label: "parent-transaction-shapes".into() });
            }
        }
        // pool tags with multi-byte characters starting at every offset 1..=40 of the text
        for shift in 0..40usize {
            cases.push(Case { coin: cn, versions: vec![thr, thr + 1], section: Section { parent_cb: 13, cb_branch: 1, chain_branch: shift, mask: 1, parent_version: 0, wide: 0 }, label: format!("parent-coinbase-pool-tag-utf8-shift-{}", shift) });
        }
        // segwit parent coinbase with a witness item of every length around the CompactSize widths and the powers of two a
        // chunked skip is likely to use
        for l in [0usize, 1, 32, 72, 252, 253, 255, 256, 257, 300, 511, 512, 513, 768, 1000, 1023, 1024, 1025, 4095, 4096, 4097, 8192, 65_535, 65_536, 65_537] {
            cases.push(Case { coin: cn, versions: vec![thr, thr + 1, thr - 1], section: Section { parent_cb: 12, cb_branch: 1, chain_branch: l, mask: 1, parent_version: 0, wide: 0 }, label: format!("parent-coinbase-witness-item-of-{}-bytes", l) });
        }
        // a parent coinbase far larger than any buffer: 70 000-byte scriptSig, 300 outputs
        cases.push(Case { coin: cn, versions: vec![thr, thr - 1, thr + 5], section: Section { parent_cb: 3, cb_branch: 3, chain_branch: 2, mask: 7, parent_version: 0, wide: 0 }, label: "huge-parent-coinbase".into() });
        // a section of more than 20 MB in total (beyond 2^24 bytes and any plausible "no block is that large" budget): a 17 MB
        // parent coinbase scriptSig, 70 000 outputs, branches of 70 000 and 66 000 hashes (counts in the 0xfe CompactSize form)
        cases.push(Case { coin: cn, versions: vec![thr, thr + 1], section: Section { parent_cb: 4, cb_branch: 70_000, chain_branch: 66_000, mask: 9, parent_version: 0, wide: 0 }, label: "section-beyond-20MB".into() });
        // alignment: the 80-byte parent header (and the fields around it) shifted byte by byte across the 32 KiB and 64 KiB marks
        // counted from the block's size field - wherever a reader refills a buffer, a field may straddle the refill
        for mark in [32_768usize, 65_536] {
            for shift in 0..130usize {
                // size(4) + header(80) + parent coinbase (4+1+36+3+len+4 +1+8+1+25 +4) + parent hash(32) + branch(1 + 32 + 4) + branch(1 + 4) -> parent header
                let fixed = 4 + 80 + (4 + 1 + 36 + 3 + 4 + 1 + 8 + 1 + 25 + 4) + 32 + (1 + 32 + 4) + (1 + 4);
                let len = mark + 20 - fixed - shift;
                cases.push(Case { coin: cn, versions: vec![thr, thr + 1], section: Section { parent_cb: 5, cb_branch: 1, chain_branch: len, mask: 3, parent_version: 0, wide: 0 }, label: "alignment-sweep".into() });
            }
        }
        // long-branch sweeps (CompactSize boundary at 0xfd)
        let longs: Vec<usize> = if thorough { vec![5, 11, 32, 33, 0xfc, 0xfd, 0xfe, 1000] } else { vec![11, 33, 0xfd] };
        for &n in &longs {
            cases.push(Case { coin: cn, versions: vec![thr, thr], section: Section { parent_cb: 2, cb_branch: n, chain_branch: 1, mask: 5, parent_version: 1, wide: 0 }, label: "cb-branch-sweep".into() });
            cases.push(Case { coin: cn, versions: vec![thr, thr], section: Section { parent_cb: 1, cb_branch: 1, chain_branch: n, mask: 5, parent_version: 2, wide: 0 }, label: "chain-branch-sweep".into() });
        }
    }
    // negative control: coins without AuxPoW never have a section, whatever the version
    for c in COINS.iter().filter(|c| c.auxpow_from.is_none()) {
        cases.push(Case { coin: c.name, versions: vec![1, 0x10100, 0x10101, 0x10102, 0x620101, 0x620102, 0x620103, 0x7fff_ffff, 0x8000_0000, 0xffff_fffe, 0xffff_ffff], section: default_sec.clone(), label: "negative-control".into() });
    }
    rep.rule = "namecoin/dogecoin: all 27 orders of below/at/above-threshold versions in a 3-block chain; full product parent-coinbase form (legacy, legacy 0xfd-script, segwit) x coinbase-branch {0,1,2} x chain-branch {0,1,2} x masks {0,1,0xffffffff} x parent-header version {0x20000000, the block's own version, 1}; long-branch sweeps across the 0xfd CompactSize boundary; records whose length field is not the block's length (6 variants x 3 parent-coinbase forms, blocks alone in their file and with neighbours); both branch lengths in all 16 combinations of the four CompactSize forms and the parent coinbase's counts / script lengths in wider forms than needed; the parent header shifted byte by byte (130 positions) across the 32 KiB and 64 KiB marks of the block; six other coins with 11 versions around both thresholds and up to 0xffffffff (never a section); --verify on; non-trivial = distinct case with >= 1 block carrying a section, or a negative control".into();
    rep.bound = json!({"cases": cases.len(), "max_branch": if thorough { 1000 } else { 0xfd }});
    let root = refmodel::world::scratch_root();
    let parts = par_fold(
        &cases,
        || Report::new("C12", "e1"),
        |w, i, c, acc| {
            let wk = Worker::new(&root, w);
            let cn = coin(c.coin);
            let mut cb = ChainBuilder::with_genesis(cn);
            let mut n_sections = 0;
            for (k, v) in c.versions.iter().enumerate() {
                let h = cb.next_height();
                let txs = vec![coinbase(h, i as u32, vec![pay(9, 50 * COIN_VALUE)]), TxP::base().build(k as u8 + 1)];
                let prev = cb.tip_hash();
                cb.time += 600;
                let mut b = Block::build(*v, prev, cb.time, 0x1d00ffff, 99, txs);
                if cn.auxpow_from.map(|t| *v >= t).unwrap_or(false) {
                    b.auxpow = Some(build_section(&c.section, (k * 7 + 1) as u8, *v));
                    n_sections += 1;
                }
                cb.blocks.push(b);
            }
            let mut world = World::laid_out(cn, &cb.blocks, 0, i);
            let mut mblocks = cb.mblocks();
            if let Some(v) = c.label.strip_prefix("length-field#") {
                let v: u8 = v.parse().unwrap_or(0);
                world = World::new(cn);
                mblocks.clear();
                for (h, b) in cb.blocks.iter().enumerate() {
                    let len = b.ser().len() as u32;
                    let prefix = match v {
                        0 => len - 1,
                        1 => (80 + 1 + b.txs.iter().map(|t| t.ser().len()).sum::<usize>()) as u32,
                        2 => 0,
                        3 => len + 24,
                        4 => len + 1000,
                        _ => 0xffff_ffff,
                    };
                    // heights 0,1 share a file; every later block is alone in (and therefore the last record of) its file
                    world.add_block_prefixed(if h < 2 { 0 } else { h as u64 }, h as u64, b, prefix);
                    mblocks.push(refmodel::model::MBlock { height: h as u64, size: prefix, block: b.clone() });
                }
            }
            let start = if genesis(cn).is_none() { Some(1) } else { None };
            // verbosity is an option like any other: cases rotate through default, -v, -vv, -vvv
            let mut spec = RunSpec::new(c.coin, "csvdump").verify(true).range(start, None);
            spec.verbosity = (i % 4) as u8;
            let r = match wk.world_run(&world, &spec) {
                Ok(r) => r,
                Err(m) => {
                    acc.machinery(m);
                    return;
                }
            };
            acc.states += 1;
            acc.transitions += 1;
            let (s, e) = (r.declared_start().unwrap_or(start.unwrap_or(0)), r.declared_end().unwrap_or(c.versions.len() as u64));
            let bad = check_csvdump(&r, cn, &in_range(&mblocks, s, e), s, e);
            if n_sections > 0 || c.label == "negative-control" {
                acc.nontrivial.insert(h8(format!("{:?}", c).as_bytes()));
            }
            acc.count(c.label.split('#').next().unwrap_or(""), 1);
            acc.count("blocks-with-section", n_sections);
            acc.outcomes.insert(h8(&r.files.values().flat_map(|v| refmodel::hash::sha256(v).to_vec()).collect::<Vec<u8>>()));
            if acc.samples.is_empty() && n_sections > 0 {
                acc.sample(json!({"coin": c.coin, "block_versions": c.versions, "section": format!("{:?}", c.section)}));
            }
            if e != c.versions.len() as u64 {
                acc.disagree("range-not-whole-chain", format!("{:?}: declared {}..{}", c, s, e), replay_case(&world, &spec, json!({}), &r, &wk.dir));
            } else if let Some((sig, detail)) = bad.into_iter().next() {
                let rc = if world.files.values().any(|f| f.len > 300_000) { json!({"kind": "e1-described", "case": format!("{:?}", c)}) } else { replay_case(&world, &spec, expected_brief("csvdump == model (hash over 80-byte header, txs after the section)", s, e), &r, &wk.dir) };
                acc.disagree(&sig, format!("{:?}: {}", c, detail), rc);
            }
        },
    );
    for p in parts {
        rep.merge(p);
    }
    let _ = std::fs::remove_dir_all(&root);
    rep
}
