fn main() {
    inproc::verif_driver::main();
}
