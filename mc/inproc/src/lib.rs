// The repository's own crate root, compiled unmodified from the working tree (RBP_SRC=/repo/src).
#![allow(dead_code, unused_imports, clippy::all)]
include!(concat!(env!("RBP_SRC"), "/main.rs"));

#[path = "verif_driver.rs"]
pub mod verif_driver;
