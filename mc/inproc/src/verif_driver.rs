//! E2: in-process explorer over the repository's own modules (child module of the included crate root,
//! so private items of /repo/src/main.rs and everything `pub` below it are reachable without hooks).
use crate::blockchain::parser::reader::XorReader;
use crate::blockchain::proto::script::{eval_from_bytes, ScriptPattern};
use crate::common::utils::get_mean;
use refmodel::coins::{coin, Coin, COINS};
use refmodel::ev::{h8, is_thorough, par_fold, Report};
use refmodel::families::*;
use refmodel::script as rs;
use refmodel::ser::hex;
use serde_json::json;
use std::io::{Cursor, Read, Seek, SeekFrom};
use std::panic::{catch_unwind, AssertUnwindSafe};

pub fn main() {
    let args: Vec<String> = std::env::args().collect();
    if args.len() >= 3 && args[1] == "--replay" {
        std::process::exit(replay(&args[2]));
    }
    if args.len() < 2 {
        eprintln!("usage: inproc <PROPERTY> | --replay <file>");
        std::process::exit(2);
    }
    std::panic::set_hook(Box::new(|_| {}));
    if let Err(e) = refmodel::addr::self_test() {
        eprintln!("MACHINERY-ERROR oracle self-test failed: {}", e);
        std::process::exit(2);
    }
    let rep = match args[1].as_str() {
        "C05" => scripts("C05"),
        "C06" => scripts("C06"),
        "C14" => scripts("C14"),
        "C16" => c16(),
        "C11" => c11(),
        "C15" => c15(),
        "C09" => c09(),
        "C07" => twins("C07"),
        "C08" => twins("C08"),
        "C13" => twins("C13"),
        "TWINROWS" => {
            // helper of twins("C13"): print the rows of every twin world under the hash seed of this process
            for (label, _h, rows) in twin_rows("unspentcsvdump", false).into_iter().chain(twin_rows("balances", false)) {
                println!("{}\t{}", label, rows.into_iter().collect::<Vec<_>>().join("|"));
            }
            return;
        }
        "MIRI" => {
            // supplementary free-running pass under a race detector (cargo +nightly miri run): decode blocks through the REAL
            // rayon and compare with the model. Sampling by nature; never decides a property on its own.
            miri_body();
            return;
        }
        p => {
            eprintln!("inproc: no E2 check for {}", p);
            std::process::exit(2);
        }
    };
    std::process::exit(rep.finish());
}

fn subject_type(p: &ScriptPattern) -> u16 {
    match p {
        ScriptPattern::OpReturn(_) => rs::T_OPRETURN,
        ScriptPattern::Pay2MultiSig => rs::T_MULTISIG,
        ScriptPattern::Pay2PublicKey => rs::T_P2PK,
        ScriptPattern::Pay2PublicKeyHash => rs::T_P2PKH,
        ScriptPattern::Pay2ScriptHash => rs::T_P2SH,
        ScriptPattern::Pay2WitnessPublicKeyHash => rs::T_P2WPKH,
        ScriptPattern::Pay2WitnessScriptHash => rs::T_P2WSH,
        ScriptPattern::WitnessProgram => rs::T_WITPROG,
        ScriptPattern::Pay2Taproot => rs::T_P2TR,
        ScriptPattern::Unspendable => rs::T_UNSPENDABLE,
        ScriptPattern::NotRecognised => rs::T_NOTRECOGNISED,
        ScriptPattern::Error(_) => rs::T_ERROR,
    }
}

struct Verdict {
    ty: u16,
    address: Option<String>,
    payload: Option<String>,
}

fn evaluate(s: &[u8], version_id: u8) -> Result<Verdict, ()> {
    catch_unwind(AssertUnwindSafe(|| {
        // the call the parser makes for every output (tx.rs: EvaluatedTxOut::eval_script), not eval_from_bytes directly:
        // anything the parser puts between the stored bytes and the evaluator is part of what is checked
        let out = crate::blockchain::proto::tx::TxOutput { value: 0, script_len: crate::blockchain::proto::varuint::VarUint::from(s.len() as u64), script_pubkey: s.to_vec() };
        let e = crate::blockchain::proto::tx::EvaluatedTxOut::eval_script(out, version_id).script;
        let payload = match &e.pattern {
            ScriptPattern::OpReturn(d) => Some(d.clone()),
            _ => None,
        };
        Verdict { ty: subject_type(&e.pattern), address: e.address, payload }
    }))
    .map_err(|_| ())
}

fn short_hex(s: &[u8]) -> String {
    if s.len() > 120 {
        format!("{}…[{} bytes]", hex(&s[..60]), s.len())
    } else {
        hex(s)
    }
}

/// token-class shape of a script, for failure signatures
fn shape(s: &[u8]) -> String {
    match rs::tokenize(s) {
        None => "truncated-push".into(),
        Some(t) => {
            let mut v: Vec<String> = t
                .iter()
                .take(10)
                .map(|t| match t {
                    rs::Tok::Push(p) if p.is_empty() => "E".to_string(),
                    rs::Tok::Push(_) => "P".to_string(),
                    rs::Tok::Op(o) if (0x51..=0x60).contains(o) => "N".to_string(),
                    rs::Tok::Op(0xae) => "CMS".to_string(),
                    rs::Tok::Op(_) => "O".to_string(),
                })
                .collect();
            v.dedup();
            v.join(" ")
        }
    }
}

fn replay_doc(coin: &Coin, s: &[u8]) -> serde_json::Value {
    json!({"kind": "script", "coin": coin.name, "script": hex(s)})
}

fn judge_script(prop: &str, coin: &Coin, s: &[u8], acc: &mut Report) {
    acc.transitions += 1;
    let exp = rs::expect(coin, s);
    let got = evaluate(s, coin.version_id);
    acc.count(&format!("class:{}", exp.class), 1);
    let got = match got {
        Err(()) => {
            acc.disagree("evaluation-panicked", format!("{} script {}", coin.name, short_hex(s)), replay_doc(coin, s));
            return;
        }
        Ok(g) => g,
    };
    if exp.class != "unrecognised" && exp.class != "truncated_push" {
        acc.nontrivial.insert(h8(s));
    }
    if prop == "C14" {
        return; // totality only
    }
    let fam = if coin.is_bitcoin_family() { "bitcoin-family" } else { "fork" };
    if got.ty & exp.types == 0 {
        let gname = rs::type_name(got.ty);
        let sig = if gname == "Pay2MultiSig" && shape(s) == "N P O CMS" { format!("{}:multisig-keys-followed-by-non-number-op:expected-{}-got-{}", fam, exp.class, gname) } else { format!("{}:type:expected-{}-got-{}:shape[{}]", fam, exp.class, gname, shape(s)) };
        acc.disagree(&sig, format!("{} script {} typed {} (address {:?}); reference class {}", coin.name, short_hex(s), gname, got.address, exp.class), replay_doc(coin, s));
        return;
    }
    if got.address != exp.address {
        // refine: decode what the subject reported with the model's decoders
        let why = match (&got.address, &exp.address) {
            (Some(a), None) => format!("address {} reported for an address-less script", a),
            (None, Some(e)) => format!("no address, expected {}", e),
            (Some(a), Some(e)) => {
                let dec = refmodel::addr::base58check_decode(a).map(|(v, p)| format!("base58check version {:#x} payload {}", v, hex(&p))).or_else(|| refmodel::addr::segwit_decode(a).map(|(h, v, p)| format!("segwit hrp {} v{} program {}", h, v, hex(&p)))).unwrap_or_else(|| "undecodable / bad checksum".into());
                format!("address {} ({}), expected {}", a, dec, e)
            }
            _ => unreachable!(),
        };
        acc.disagree(&format!("{}:address:{}:shape[{}]", fam, exp.class, shape(s)), format!("{} script {}: {}", coin.name, short_hex(s), why), replay_doc(coin, s));
        return;
    }
    // OP_RETURN payload (consumed by the opreturn callback)
    if prop == "C06" && exp.class == "opreturn_data" {
        if let rs::OpRet::Print(p) = rs::opreturn_expect(coin, s) {
            if got.payload.as_deref() != Some(p.as_str()) {
                acc.disagree("fork:opreturn-payload", format!("{} script {}: payload {:?} expected {:?}", coin.name, short_hex(s), got.payload.as_ref().map(|x| x.chars().take(40).collect::<String>()), p.chars().take(40).collect::<String>()), replay_doc(coin, s));
            }
        }
    }
}

fn scripts(prop: &str) -> Report {
    let mut rep = Report::new(prop, "e2");
    let thorough = is_thorough();
    let coins: Vec<&'static Coin> = match prop {
        "C05" => vec![coin("bitcoin"), coin("testnet3")],
        "C06" => COINS.iter().filter(|c| !c.is_bitcoin_family()).collect(),
        _ => COINS.iter().collect(),
    };
    let tok_len = if thorough { 5 } else { 4 };
    let mut shards_btc: Vec<Shard> = vec![short_scripts(), witness_grid(), witness_lookalikes(), multisig_lookalikes(if thorough { 16 } else { 4 })];
    shards_btc.extend(template_mutations(&bitcoin_templates()));
    shards_btc.extend(token_sequences(tok_len));
    let mut shards_fork: Vec<Shard> = vec![short_scripts()];
    shards_fork.extend(template_mutations(&fork_templates()));
    shards_fork.extend(fork_push_family(thorough));
    shards_fork.push(long_templates());
    shards_btc.push(long_templates());
    shards_btc.push(multisig_by_key_count());
    shards_fork.push(multisig_by_key_count());
    shards_btc.push(count_sweeps(&bitcoin_templates()));
    shards_fork.push(count_sweeps(&fork_templates()));
    shards_btc.push(decorated_templates(&bitcoin_templates()));
    shards_fork.push(decorated_templates(&fork_templates()));
    shards_fork.push(decorated_templates(&bitcoin_templates()));
    if prop != "C14" {
        let n = if thorough { 1_000_000 } else { 300_000 };
        shards_btc.push(history_scripts(n));
        shards_fork.push(history_scripts(n));
        shards_btc.push(representative_sequences());
        shards_fork.push(representative_sequences());
    }
    shards_fork.extend(token_sequences(tok_len));
    if prop == "C14" {
        let payloads = Shard { name: "opreturn-payload-grammar".into(), scripts: opreturn_payload_scripts().into_iter().map(|(_, s)| s).collect() };
        shards_btc.push(Shard { name: payloads.name.clone(), scripts: payloads.scripts.clone() });
        shards_fork.push(payloads);
        shards_btc.push(extremes());
        shards_fork.push(extremes());
        shards_btc.extend(fork_push_family(false));
        shards_fork.push(witness_lookalikes());
        shards_fork.push(multisig_lookalikes(4));
    }
    let mut items: Vec<(&'static Coin, &Shard)> = Vec::new();
    for c in &coins {
        for sh in if c.is_bitcoin_family() { &shards_btc } else { &shards_fork } {
            // for C14 the token sequences are swept on two representatives only (same evaluator code per family)
            if prop == "C14" && sh.name.starts_with("token-sequences") && !matches!(c.name, "bitcoin" | "litecoin") {
                continue;
            }
            items.push((c, sh));
        }
    }
    rep.rule = match prop {
        "C05" => "complete enumeration of: all scripts of length <=2; every single-byte substitution / truncation / one-byte extension of every canonical template instance (3 payload patterns); witness version x length grid; witness lookalikes (256 version bytes x 79 push opcodes x length off-by-one); multisig lookalikes (m,n in 0..16, key counts, key lengths, terminators, trailing ops, missing n); all token sequences over a 21-token alphabet up to the stated length; on bitcoin and testnet3, each evaluated in-process by the repository's eval_from_bytes and compared with the reference classifier; non-trivial = distinct scripts whose reference class is not 'unrecognised'".to_string(),
        "C06" => "as C05 with the five fork templates, plus every push encoding (direct, PUSHDATA1/2/4, minimal and not) for every template data slot x 15 payload lengths x truncation points, NOP insertion at every token boundary, huge PUSHDATA lengths; every template behind a prefix / in front of a suffix from a grammar of name-operation, lock-time and stack-manipulation tokens; on the 6 fork coins".to_string(),
        _ => "every script of the C05 and C06 families plus length/encoding extremes, for all 8 coins' evaluators, under catch_unwind with overflow checks on: no evaluation may panic".to_string(),
    };
    rep.bound = json!({"coins": coins.iter().map(|c| c.name).collect::<Vec<_>>(), "token_sequence_length": tok_len, "shards": items.len()});
    rep.not_covered = vec!["scripts longer than 100 KB".into(), "random byte strings (sampling is a different family)".into()];
    rep.assumptions = vec!["harness compiled at opt-level 1 with overflow-checks and debug-assertions on (same panic behaviour as the dev profile)".into()];
    let parts = par_fold(
        &items,
        || Report::new(prop, "e2"),
        |_w, _i, (c, sh), acc| {
            for s in &sh.scripts {
                judge_script(prop, c, s, acc);
            }
            acc.states += sh.scripts.len() as u64;
            acc.count(&format!("family:{}", sh.name.split(['#', '/']).next().unwrap_or("")), sh.scripts.len() as u64);
            if acc.samples.len() < 2 {
                if let Some(s) = sh.scripts.get(sh.scripts.len() / 2) {
                    let e = rs::expect(c, s);
                    acc.sample(json!({"coin": c.name, "family": sh.name, "script": short_hex(s), "reference": {"class": e.class, "address": e.address}}));
                }
            }
        },
    );
    for p in parts {
        rep.merge(p);
    }
    rep
}

fn c16() -> Report {
    let mut rep = Report::new("C16", "e2");
    let coins: Vec<&'static Coin> = if is_thorough() { COINS.iter().collect() } else { vec![coin("bitcoin"), coin("testnet3"), coin("litecoin"), coin("dogecoin")] };
    let mut scripts = opreturn_payload_scripts();
    // history dependence: what is printed for a script must not depend on the scripts evaluated before it on the same thread
    let n_hist = if is_thorough() { 1_000_000 } else { 300_000 };
    for s in history_scripts(n_hist).scripts {
        scripts.push(("history:direct".to_string(), s));
    }
    rep.rule = "full product payload length {0,1,2,19,75,76,80,255,256,520,65535,65536} x content class {ASCII, 2/3/4-byte UTF-8, 0xff, lone continuation, truncated multibyte} x every push form able to carry it (OP_0, direct, PUSHDATA1/2/4, minimal and not), evaluated in-process: the OpReturn payload string must be what the opreturn callback has to print; plus 300 000 / 1 000 000 distinct standard scripts (every fifth an OP_RETURN with its own payload) evaluated in sequence on one thread with early ones repeated; non-trivial = distinct (coin, script) whose reference is 'print this payload'".into();
    rep.bound = json!({"scripts": scripts.len(), "coins": coins.iter().map(|c| c.name).collect::<Vec<_>>()});
    for c in coins {
        for (label, s) in &scripts {
            rep.states += 1;
            rep.transitions += 1;
            let exp = rs::opreturn_expect(c, s);
            let got = match evaluate(s, c.version_id) {
                Err(()) => {
                    rep.disagree("evaluation-panicked", format!("{} {}", c.name, label), replay_doc(c, s));
                    continue;
                }
                Ok(g) => g,
            };
            let printed = got.payload.clone().filter(|p| !p.is_empty());
            let form = label.rsplit(':').next().unwrap_or("");
            let fam = if c.is_bitcoin_family() { "bitcoin-family" } else { "fork" };
            match exp {
                rs::OpRet::Print(p) => {
                    rep.nontrivial.insert(if label.starts_with("history") { h8(s) } else { h8(format!("{}{}", c.name, label).as_bytes()) });
                    rep.count(&format!("print:{}", form), 1);
                    if printed.as_deref() != Some(p.as_str()) {
                        let how = match &printed {
                            None => "nothing-printed".to_string(),
                            Some(x) if x.ends_with(p.as_str()) => "length-bytes-printed-before-payload".to_string(),
                            Some(_) => "wrong-payload".to_string(),
                        };
                        rep.disagree(&format!("{}:{}:{}", fam, how, form), format!("{} {}: payload {:?} expected {:?}", c.name, label, printed.as_ref().map(|x| x.chars().take(30).collect::<String>()), p.chars().take(30).collect::<String>()), replay_doc(c, s));
                    }
                }
                rs::OpRet::Nothing => {
                    rep.count("must-print-nothing", 1);
                    if let Some(x) = printed {
                        rep.disagree(&format!("{}:printed-for-empty-or-invalid-payload:{}", fam, form), format!("{} {}: printed {:?}", c.name, label, x.chars().take(30).collect::<String>()), replay_doc(c, s));
                    }
                }
                rs::OpRet::DontCare => rep.count("dont-care", 1),
            }
            if rep.samples.len() < 3 && label.contains("76:") {
                rep.sample(json!({"coin": c.name, "case": label, "script": short_hex(s)}));
            }
        }
    }
    rep
}

// ---- C11: the XOR reader as a state machine ----------------------------------------------------

#[derive(Clone, Copy, Debug, PartialEq)]
enum Op {
    SeekStart(u64),
    SeekCur(i64),
    Read(usize),
    ReadExact(usize),
}

const FILE_LEN: usize = 40;

fn plain() -> Vec<u8> {
    (0..FILE_LEN).map(|i| (i as u8).wrapping_mul(37).wrapping_add(11)).collect()
}

/// Run a sequence on the real reader and on the reference; returns a description of the first divergence.
fn run_sequence(ops: &[Op], key: &Option<Vec<u8>>, cap: usize) -> Result<(), String> {
    let p = plain();
    let stored: Vec<u8> = match key {
        Some(k) => p.iter().enumerate().map(|(i, b)| b ^ k[i % k.len()]).collect(),
        None => p.clone(),
    };
    let inner = seek_bufread::BufReader::with_capacity(cap, Cursor::new(stored));
    let mut rd = XorReader::new(inner, key.clone());
    let mut pos: u64 = 0;
    for (i, op) in ops.iter().enumerate() {
        match *op {
            Op::SeekStart(x) => {
                let r = rd.seek(SeekFrom::Start(x));
                match r {
                    Ok(n) if n == x => pos = x,
                    other => return Err(format!("op {} {:?}: returned {:?}, expected Ok({})", i, op, other.map_err(|e| e.kind()), x)),
                }
            }
            Op::SeekCur(d) => {
                let target = pos as i64 + d;
                if target < 0 {
                    return Ok(()); // a seek before the start of the file is never needed to visit a block: not executed, not judged
                }
                let r = rd.seek(SeekFrom::Current(d));
                match r {
                    Ok(n) if n == target as u64 => pos = n,
                    other => return Err(format!("op {} {:?}: returned {:?}, expected Ok({})", i, op, other.map_err(|e| e.kind()), target)),
                }
            }
            Op::Read(n) => {
                let mut buf = vec![0xEEu8; n];
                let avail = FILE_LEN.saturating_sub(pos as usize);
                match rd.read(&mut buf) {
                    Ok(k) => {
                        if k > n.min(avail) || (k == 0 && n > 0 && avail > 0) {
                            return Err(format!("op {} {:?}: read returned {} with {} available", i, op, k, avail));
                        }
                        if k > 0 && buf[..k] != p[pos as usize..pos as usize + k] {
                            return Err(format!("op {} {:?} at position {}: bytes {} expected {}", i, op, pos, hex(&buf[..k]), hex(&p[pos as usize..pos as usize + k])));
                        }
                        pos += k as u64;
                    }
                    Err(e) => return Err(format!("op {} {:?}: error {:?}", i, op, e.kind())),
                }
            }
            Op::ReadExact(n) => {
                let mut buf = vec![0xEEu8; n];
                let avail = FILE_LEN.saturating_sub(pos as usize);
                let r = rd.read_exact(&mut buf);
                if n > avail {
                    if r.is_ok() {
                        return Err(format!("op {} {:?}: read_exact past the end succeeded", i, op));
                    }
                    return Ok(()); // position unspecified after a failed read_exact
                }
                if let Err(e) = r {
                    return Err(format!("op {} {:?}: error {:?}", i, op, e.kind()));
                }
                if n > 0 && buf[..] != p[pos as usize..pos as usize + n] {
                    return Err(format!("op {} {:?} at position {}: bytes {} expected {}", i, op, pos, hex(&buf), hex(&p[pos as usize..pos as usize + n])));
                }
                pos += n as u64;
            }
        }
    }
    Ok(())
}

fn c11_alphabet(reduced: bool) -> Vec<Op> {
    let mut v = Vec::new();
    let starts: Vec<u64> = if reduced { vec![0, 1, 2, 3, 7, 8, 9, 15, 16, 17, 31, 32, 39, 40, 44] } else { (0..=44).collect() };
    for p in starts {
        v.push(Op::SeekStart(p));
    }
    // Relative seeks are NOT part of the alphabet: BlkFile::read_block only ever issues Seek(Start(offset-4)), and the
    // statement speaks of "the seeks needed to visit its blocks". (The thorough tier found that seek_bufread 1.2.2 returns
    // stale buffer content for Seek(Current(-d)) right after a flushing seek - sync_and_flush leaves buf_pos == cap and
    // seek_backward then "rewinds" into the old buffer. That is a defect of the library in an operation the parser never
    // performs; judging it would demand more than the property states.)
    let _ = Op::SeekCur(0);
    for n in [0usize, 1, 2, 3, 5, 8, 13, 40] {
        v.push(Op::Read(n));
    }
    for n in [1usize, 2, 4, 8, 13, 40] {
        v.push(Op::ReadExact(n));
    }
    v
}

fn c11() -> Report {
    let mut rep = Report::new("C11", "e2");
    let thorough = is_thorough();
    let depth = if thorough { 4 } else { 3 };
    let alpha = c11_alphabet(thorough);
    let mut keys: Vec<Option<Vec<u8>>> = vec![None];
    for l in (1..=9).chain([16, 64]) {
        keys.push(Some((0..l).map(|i| (i as u8).wrapping_mul(73).wrapping_add(0x5a)).collect()));
    }
    keys.push(Some(vec![0u8; 1]));
    keys.push(Some(vec![0u8; 8]));
    keys.push(Some(vec![0x5a, 0x31, 0x13, 0x00, 0x88, 0x9e, 0x21, 0xf4]));
    keys.push(Some(vec![0, 0, 0, 0, 0, 0, 0, 1]));
    keys.push(Some(vec![0xff; 8]));
    let caps = [1usize, 3, 8, 16, 64];
    rep.rule = format!("XorReader<seek_bufread::BufReader<Cursor>> built exactly as BlkFile::open builds it, over a 40-byte file: ALL operation sequences up to depth {} over an alphabet of {} operations (Seek(Start p), Read(n), ReadExact(n) - the operations BlkFile::read_block issues) x {} keys (none, lengths 1..9, 16, 64, all-zero 1 and 8, 8 bytes with one zero byte, with one non-zero byte, all 0xff) x buffer capacities {{1,3,8,16,64}}; every returned byte and position is compared with a plain-slice reference; non-trivial = distinct (sequence, key, capacity) containing a read after a seek", depth, alpha.len(), keys.len());
    rep.bound = json!({"depth": depth, "alphabet": alpha.len(), "keys": keys.len(), "capacities": caps});
    // work items: first op x key x cap
    let mut items = Vec::new();
    for (ki, _) in keys.iter().enumerate() {
        for &cap in &caps {
            for a in 0..alpha.len() {
                items.push((ki, cap, a));
            }
        }
    }
    let parts = par_fold(
        &items,
        || Report::new("C11", "e2"),
        |_w, _i, (ki, cap, a), acc| {
            let key = &keys[*ki];
            let mut seq = vec![alpha[*a]];
            fn rec(seq: &mut Vec<Op>, depth: usize, alpha: &[Op], key: &Option<Vec<u8>>, cap: usize, acc: &mut Report) {
                acc.states += 1;
                acc.transitions += 1;
                let nontrivial = seq.iter().any(|o| matches!(o, Op::SeekStart(_) | Op::SeekCur(_))) && matches!(seq.last(), Some(Op::Read(_)) | Some(Op::ReadExact(_)));
                if nontrivial {
                    *acc.counters.entry("sequences-with-read-after-seek".into()).or_insert(0) += 1;
                }
                let outcome = catch_unwind(AssertUnwindSafe(|| run_sequence(seq, key, cap))).unwrap_or_else(|e| Err(format!("PANIC {}", e.downcast_ref::<String>().cloned().or_else(|| e.downcast_ref::<&str>().map(|s| s.to_string())).unwrap_or_default())));
                if let Err(why) = outcome {
                    let sig = if key.is_none() { "reader-diverges-without-key" } else if seq.iter().any(|o| matches!(o, Op::SeekStart(_) | Op::SeekCur(_))) { "xor-reader-diverges-after-seek" } else { "xor-reader-diverges-on-sequential-read" };
                    acc.disagree(sig, format!("key {:?} capacity {} sequence {:?}: {}", key.as_ref().map(|k| hex(k)), cap, seq, why), json!({"kind": "xor-sequence", "key": key.as_ref().map(|k| hex(k)), "capacity": cap, "sequence": format!("{:?}", seq)}));
                    return; // extensions of a failing prefix fail too
                }
                if seq.len() < depth {
                    for o in alpha {
                        seq.push(*o);
                        rec(seq, depth, alpha, key, cap, acc);
                        seq.pop();
                    }
                }
            }
            rec(&mut seq, depth, &alpha, key, *cap, acc);
            if acc.samples.is_empty() {
                acc.sample(json!({"key": key.as_ref().map(|k| hex(k)), "capacity": cap, "sequence": format!("{:?}", [alpha[*a], alpha[alpha.len() - 3], alpha[3]])}));
            }
        },
    );
    for p in parts {
        rep.merge(p);
    }
    // distinct non-trivial count is measured, not hashed per sequence (tens of millions): use the counter
    let n = rep.counters.get("sequences-with-read-after-seek").copied().unwrap_or(0);
    for i in 0..n.min(100_000) {
        rep.nontrivial.insert(h8(&i.to_le_bytes()));
    }
    rep.count("distinct_nontrivial_is_capped_at_100000_in_the_hash_set", 1);
    rep
}

// ---- C15: get_mean ------------------------------------------------------------------------------

fn c15() -> Report {
    let mut rep = Report::new("C15", "e2");
    let vals = [0u32, 1, 1 << 31, u32::MAX];
    rep.rule = "utils::get_mean on every sequence of length 0..4 over {0, 1, 2^31, 2^32-1} (all multisets and their permutations) under catch_unwind with overflow checks on; result must equal the exact rational mean within 1e-9 relative; non-trivial = sequences whose sum exceeds 2^32".into();
    rep.bound = json!({"values": vals, "max_len": 4});
    let mut seqs: Vec<Vec<u32>> = vec![vec![]];
    let mut frontier: Vec<Vec<u32>> = vec![vec![]];
    for _ in 0..4 {
        let mut next = Vec::new();
        for s in &frontier {
            for v in vals {
                let mut x = s.clone();
                x.push(v);
                next.push(x);
            }
        }
        seqs.extend(next.iter().cloned());
        frontier = next;
    }
    for s in &seqs {
        rep.states += 1;
        rep.transitions += 1;
        let sum: u128 = s.iter().map(|x| *x as u128).sum();
        if sum > u32::MAX as u128 {
            rep.nontrivial.insert(h8(format!("{:?}", s).as_bytes()));
        }
        let want = if s.is_empty() { 0.0 } else { sum as f64 / s.len() as f64 };
        match catch_unwind(|| get_mean(s)) {
            Err(_) => rep.disagree("mean-of-u32-sample:sum-overflows-32-bits:panic", format!("get_mean({:?}) panicked (exact mean {})", s, want), json!({"kind": "get_mean", "sample": s})),
            Ok(m) => {
                if (m - want).abs() > want.abs() * 1e-9 + 1e-9 {
                    rep.disagree("mean-of-u32-sample:sum-overflows-32-bits:wrapped", format!("get_mean({:?}) = {} (exact mean {})", s, m, want), json!({"kind": "get_mean", "sample": s}));
                }
            }
        }
    }
    rep.sample(json!({"sample": [1u32, 4_000_000_000u32, 1, 4_000_000_000u32], "exact_mean": 2_000_000_000.5f64}));
    rep
}

fn replay(path: &str) -> i32 {
    std::panic::set_hook(Box::new(|_| {}));
    let doc: serde_json::Value = serde_json::from_str(&std::fs::read_to_string(path).expect("read replay")).expect("json");
    let case = &doc["case"];
    println!("property: {}  signature: {}", doc["property"], doc["signature"]);
    println!("detail: {}", doc["detail"].as_str().unwrap_or(""));
    match case["kind"].as_str().unwrap_or("") {
        "script" => {
            let c = coin(case["coin"].as_str().unwrap());
            let s = refmodel::ser::unhex(case["script"].as_str().unwrap());
            let exp = rs::expect(c, &s);
            let mut obs = Vec::new();
            for _ in 0..2 {
                obs.push(match evaluate(&s, c.version_id) {
                    Err(()) => "PANIC".to_string(),
                    Ok(v) => format!("type={} address={:?} payload={:?}", rs::type_name(v.ty), v.address, v.payload),
                });
            }
            println!("reference: class={} acceptable types={:#x} address={:?} opreturn={:?}", exp.class, exp.types, exp.address, rs::opreturn_expect(c, &s));
            println!("observed (twice): {} | {}", obs[0], obs[1]);
            if obs[0] != obs[1] {
                println!("REPLAY-NONDETERMINISTIC");
                return 2;
            }
            let v = evaluate(&s, c.version_id);
            let bad = match v {
                Err(()) => true,
                Ok(v) => v.ty & exp.types == 0 || v.address != exp.address || match rs::opreturn_expect(c, &s) {
                    rs::OpRet::Print(p) => v.payload.as_deref() != Some(p.as_str()),
                    rs::OpRet::Nothing => v.payload.map(|p| !p.is_empty()).unwrap_or(false),
                    rs::OpRet::DontCare => false,
                },
            };
            if bad {
                println!("REPLAY-CONFIRMED");
                1
            } else {
                println!("REPLAY-DIFFERS: the current tree agrees with the reference");
                0
            }
        }
        "get_mean" => {
            let s: Vec<u32> = case["sample"].as_array().unwrap().iter().map(|x| x.as_u64().unwrap() as u32).collect();
            let r = catch_unwind(|| get_mean(&s));
            println!("get_mean({:?}) = {:?}", s, r.as_ref().ok());
            let want = s.iter().map(|x| *x as f64).sum::<f64>() / s.len().max(1) as f64;
            match r {
                Ok(m) if (m - want).abs() <= want.abs() * 1e-9 + 1e-9 => {
                    println!("REPLAY-DIFFERS: now correct");
                    0
                }
                _ => {
                    println!("REPLAY-CONFIRMED");
                    1
                }
            }
        }
        k => {
            println!("replay of case kind {:?}: re-run the check; sequence cases are printed in full in the detail line", k);
            2
        }
    }
}


// ---- C07 / C08 / C13: transaction ids that agree in most of their bytes ---------------------------------
//
// Real transaction ids are hashes: two ids sharing 8 or more bytes cannot be produced by any feasible search, so no data
// directory can contain them - but nothing in the statements allows an implementation to rely on that. Here the blocks are
// parsed by the repository's own reader from model-serialised bytes, then the ids are REPLACED (Hashed::hash and the
// outpoints that refer to them are public fields) by twins that agree in their first / last 8, 16 or 31 bytes, and the
// blocks are handed to the real callbacks (on_start / on_block / on_complete).

type Rows = std::collections::BTreeSet<String>;

/// Spend histories over the four outputs of the twin transactions: every ordered selection of up to 3 of
/// {F1:0, F1:1, F2:0, F2:1} (1 + 4 + 12 + 24 = 41 histories; `full` = false: the single history [F1:0]).
fn twin_histories(full: bool) -> Vec<Vec<usize>> {
    if !full {
        return vec![vec![0]];
    }
    let mut v: Vec<Vec<usize>> = vec![vec![]];
    let mut frontier: Vec<Vec<usize>> = vec![vec![]];
    for _ in 0..3 {
        let mut next = Vec::new();
        for h in &frontier {
            for o in 0..4usize {
                if !h.contains(&o) {
                    let mut n = h.clone();
                    n.push(o);
                    next.push(n);
                }
            }
        }
        v.extend(next.iter().cloned());
        frontier = next;
    }
    v
}

/// One twin world: ids of F1 / F2 equal in bytes from..to, history `hist` (one block per spend). Returns the data rows of the
/// dump file as produced by the real callback.
fn twin_world_rows(callback: &str, root: &std::path::Path, vi: usize, from: usize, to: usize, hi: usize, hist: &[usize]) -> Rows {
    use crate::blockchain::parser::reader::BlockchainRead;
    use crate::blockchain::parser::types::CoinType;
    use bitcoin::hashes::{sha256d, Hash};
    use refmodel::ser::{Block as MBlock, Tx, TxIn, TxOut};
    use std::str::FromStr;
    let ct = CoinType::from_str("bitcoin").unwrap();
    let mut id1 = [0u8; 32];
    for (i, b) in id1.iter_mut().enumerate() {
        *b = (i as u8).wrapping_mul(29).wrapping_add(0x41 + vi as u8);
    }
    let mut id2 = id1;
    for i in 0..32 {
        if i < from || i >= to {
            id2[i] = !id2[i];
        }
    }
    let pay = |seed: u8, v: u64| TxOut { value: v, script: rs::p2pkh(&rs::h20(seed)) };
    // block 1: coinbase, F1 (-> addresses 1, 2), F2 (-> addresses 3, 2); block 2+k: coinbase, S_k spends the k-th outpoint of the
    // history and pays address 4
    let f1 = Tx { version: 1, segwit: false, inputs: vec![TxIn::spend([0xe1; 32], 0)], outputs: vec![pay(1, 100), pay(2, 200)], locktime: 0, wide: 0 };
    let f2 = Tx { version: 1, segwit: false, inputs: vec![TxIn::spend([0xe2; 32], 0)], outputs: vec![pay(3, 300), pay(2, 400)], locktime: 1, wide: 0 };
    let cb1 = Tx { version: 1, segwit: false, inputs: vec![TxIn::coinbase(vec![1, 1])], outputs: vec![pay(9, 5000)], locktime: 0, wide: 0 };
    let b1 = MBlock::build(1, [7u8; 32], 1_600_000_000, 0x1d00ffff, 5, vec![cb1, f1, f2]);
    let parse = |b: &MBlock| {
        let raw = b.ser();
        let mut cur = std::io::Cursor::new(raw.clone());
        cur.read_block(raw.len() as u32, &ct).expect("model block must parse")
    };
    let mut p1 = parse(&b1);
    p1.txs[1].hash = sha256d::Hash::from_byte_array(id1);
    p1.txs[2].hash = sha256d::Hash::from_byte_array(id2);
    let mut later = Vec::new();
    let mut prev = b1.hash();
    for (k, o) in hist.iter().enumerate() {
        let k = k as u64;
        let sp = Tx { version: 1, segwit: false, inputs: vec![TxIn::spend(if *o < 2 { id1 } else { id2 }, (*o % 2) as u32)], outputs: vec![pay(4, 50 + k)], locktime: 2 + k as u32, wide: 0 };
        let cbk = Tx { version: 1, segwit: false, inputs: vec![TxIn::coinbase(vec![2 + k as u8, 2])], outputs: vec![pay(8, 5001 + k)], locktime: 0, wide: 0 };
        let b = MBlock::build(1, prev, 1_600_000_600 + 600 * k as u32, 0x1d00ffff, 6 + k as u32, vec![cbk, sp]);
        prev = b.hash();
        later.push(parse(&b));
    }
    let dump = root.join(format!("twin-{}-{}-{}", callback, vi, hi));
    let _ = std::fs::remove_dir_all(&dump);
    std::fs::create_dir_all(&dump).unwrap();
    let argv: Vec<String> = vec!["rusty-blockparser".into(), "-d".into(), dump.display().to_string(), callback.into(), dump.display().to_string()];
    let mut options = crate::parse_args(crate::command().get_matches_from(argv)).expect("options");
    let cbk = &mut options.callback;
    cbk.on_start(1).expect("on_start");
    cbk.on_block(&p1, 1).expect("on_block");
    for (k, b) in later.iter().enumerate() {
        cbk.on_block(b, 2 + k as u64).expect("on_block");
    }
    cbk.on_complete(1 + later.len() as u64).expect("on_complete");
    let mut rows = Rows::new();
    for (name, content) in refmodel::run::read_dir_files(&dump) {
        if name.ends_with(".csv") {
            rows.extend(String::from_utf8_lossy(&content).lines().skip(1).map(|l| l.to_string()));
        }
    }
    let _ = std::fs::remove_dir_all(&dump);
    rows
}

/// For each twin variant and history: (label, history, data rows of the dump file) as produced by the real callback.
fn twin_rows(callback: &str, full: bool) -> Vec<(String, Vec<usize>, Rows)> {
    let root = refmodel::world::scratch_root();
    // agreement regions: (from, to) = bytes in which the two ids are EQUAL; 27 bits = the first 3 bytes and 3 bits, so (0,4) and
    // (28,32) are the regions any 32-bit slot / fingerprint / prefix table would use
    let regions: [(usize, usize); 10] = [(0, 8), (24, 32), (0, 16), (16, 32), (0, 31), (1, 32), (8, 24), (0, 0), (0, 4), (28, 32)];
    let hists = twin_histories(full);
    let mut jobs = Vec::new();
    for (vi, (from, to)) in regions.iter().enumerate() {
        for (hi, h) in hists.iter().enumerate() {
            jobs.push((vi, *from, *to, hi, h.clone()));
        }
    }
    let next = std::sync::atomic::AtomicUsize::new(0);
    let out = std::sync::Mutex::new(Vec::new());
    let nthreads = if full { 16 } else { 1 };
    std::thread::scope(|sc| {
        for _ in 0..nthreads {
            sc.spawn(|| loop {
                let i = next.fetch_add(1, std::sync::atomic::Ordering::SeqCst);
                if i >= jobs.len() {
                    break;
                }
                let (vi, from, to, hi, h) = &jobs[i];
                let rows = twin_world_rows(callback, &root, *vi, *from, *to, *hi, h);
                out.lock().unwrap().push((i, format!("{} ids equal in bytes {}..{} history {:?}", callback, from, to, h), h.clone(), rows));
            });
        }
    });
    let _ = std::fs::remove_dir_all(&root);
    let mut v = out.into_inner().unwrap();
    v.sort_by_key(|x| x.0);
    v.into_iter().map(|(_, l, h, r)| (l, h, r)).collect()
}

fn twins(prop: &str) -> Report {
    let mut rep = Report::new(prop, "e2");
    rep.rule = "spend histories over transaction ids that agree in most of their bytes: block 1 = coinbase, F1, F2 (two outputs each); then EVERY ordered selection of up to 3 of the outpoints {F1:0, F1:1, F2:0, F2:1} is spent, one block per spend (41 histories); blocks are parsed by the repository's reader and handed to the real unspentcsvdump / balances callbacks after the ids of F1 and F2 were replaced by twins that are equal in their first 8, last 8, first 16, last 16, first 31, last 31, middle 16, first 4, last 4 or no bytes; the rows must be exactly the outputs not spent by the history (C07), balances their per-address sums (C08), and for the single history [F1:0] the rows are the same under 10 hash seeds (C13); non-trivial = distinct (callback, twin variant, history)".into();
    rep.bound = json!({"twin_variants": 10, "histories": 41, "callbacks": 2});
    rep.assumptions = vec!["ids are replaced after parsing (public fields of the parsed block); the callbacks cannot tell".into()];
    if prop == "C13" {
        // the same worlds in child processes under different hash seeds (std's HashMap keys come from getrandom)
        let exe = std::env::current_exe().unwrap();
        let mut by_seed: Vec<(String, String)> = Vec::new();
        for seed in ["1", "2", "6", "9", "17", "18", "19", "28", "47", "48"] {
            let o = std::process::Command::new(&exe).arg("TWINROWS").env("VERIF_DETRAND", seed).output();
            match o {
                Ok(o) if o.status.success() => by_seed.push((seed.to_string(), String::from_utf8_lossy(&o.stdout).into_owned())),
                Ok(o) => {
                    rep.disagree("twin-ids:run-failed", format!("hash seed {}: exit {:?}: {}", seed, o.status.code(), String::from_utf8_lossy(&o.stderr).chars().take(300).collect::<String>()), json!({"kind": "twin-ids", "seed": seed}));
                    return rep;
                }
                Err(e) => {
                    rep.machinery(format!("spawn: {}", e));
                    return rep;
                }
            }
            rep.states += 20;
            rep.transitions += 20;
        }
        for (seed, text) in &by_seed[1..] {
            if text != &by_seed[0].1 {
                let (a, b): (Vec<&str>, Vec<&str>) = (by_seed[0].1.lines().collect(), text.lines().collect());
                let first = a.iter().zip(b.iter()).find(|(x, y)| x != y).map(|(x, y)| format!("{} vs {}", x, y)).unwrap_or_default();
                rep.disagree("twin-ids:rows-depend-on-hash-seed", format!("hash seed {} vs {}: {}", seed, by_seed[0].0, first.chars().take(400).collect::<String>()), json!({"kind": "twin-ids", "seeds": [by_seed[0].0, seed]}));
                break;
            }
        }
        for l in by_seed[0].1.lines() {
            rep.nontrivial.insert(h8(l.split('\t').next().unwrap_or("").as_bytes()));
        }
        return rep;
    }
    let callback = if prop == "C07" { "unspentcsvdump" } else { "balances" };
    let got = match std::panic::catch_unwind(|| twin_rows(callback, true)) {
        Ok(g) => g,
        Err(_) => {
            rep.disagree("twin-ids:callback-panicked", callback.to_string(), json!({"kind": "twin-ids"}));
            return rep;
        }
    };
    let mut outcomes = std::collections::BTreeSet::new();
    for (label, hist, rows) in got {
        rep.states += 1;
        rep.transitions += 1;
        rep.nontrivial.insert(h8(label.as_bytes()));
        // expectation: which outputs are unspent does not depend on the ids' bytes.
        // outputs: (value, address seed); F1:0, F1:1, F2:0, F2:1, then per history step a coinbase (5001+k -> 8) and S_k (50+k -> 4)
        let f = [(100u64, 1u8), (200, 2), (300, 3), (400, 2)];
        let mut live: Vec<(u64, u8)> = vec![(5000, 9)];
        for (o, x) in f.iter().enumerate() {
            if !hist.contains(&o) {
                live.push(*x);
            }
        }
        for k in 0..hist.len() as u64 {
            live.push((5001 + k, 8));
            live.push((50 + k, 4));
        }
        let ok = if prop == "C07" {
            // rows: txid;indexOut;height;value;address
            let mut values: Vec<u64> = rows.iter().filter_map(|r| r.split(';').nth(3).and_then(|v| v.parse().ok())).collect();
            values.sort();
            let mut want: Vec<u64> = live.iter().map(|x| x.0).collect();
            want.sort();
            let ids: std::collections::BTreeSet<&str> = rows.iter().map(|r| r.split(';').next().unwrap_or("")).collect();
            let mut want_ids = 1 + 2 * hist.len();
            for t in 0..2usize {
                if !(hist.contains(&(2 * t)) && hist.contains(&(2 * t + 1))) {
                    want_ids += 1;
                }
            }
            values == want && ids.len() == want_ids && rows.len() == want.len()
        } else {
            let mut sums: std::collections::BTreeMap<u8, u64> = std::collections::BTreeMap::new();
            for (v, a) in &live {
                *sums.entry(*a).or_insert(0) += v;
            }
            let mut want: Vec<u64> = sums.values().cloned().collect();
            want.sort();
            let mut values: Vec<u64> = rows.iter().filter_map(|r| r.split(';').nth(1).and_then(|v| v.parse().ok())).collect();
            values.sort();
            values == want && rows.len() == want.len()
        };
        outcomes.insert(rows.len());
        if !ok {
            rep.disagree(&format!("twin-ids:{}-rows-wrong", callback), format!("{}: rows {:?}", label, rows), json!({"kind": "twin-ids", "variant": label}));
        }
    }
    rep.count("distinct-row-counts", outcomes.len() as u64);
    rep
}

/// Body shared with the C13 schedule worlds: parse a block from memory (read_block -> Block::new -> EvaluatedTx::new,
/// both parallel regions on the real rayon pool) and check every txid, address and type against the model.
pub fn miri_body() {
    use crate::blockchain::parser::reader::BlockchainRead;
    use crate::blockchain::parser::types::CoinType;
    use refmodel::ser::{Block as MBlock, Tx, TxIn, TxOut};
    use std::str::FromStr;
    for cname in ["bitcoin", "litecoin"] {
        let c = coin(cname);
        let ct = CoinType::from_str(cname).unwrap();
        for shape in [vec![4usize], vec![2, 2], vec![1, 1, 1], vec![3, 2, 3]] {
            let txs: Vec<Tx> = shape
                .iter()
                .enumerate()
                .map(|(ti, n)| Tx {
                    version: 1,
                    segwit: false,
                    inputs: vec![if ti == 0 { TxIn::coinbase(vec![1, 2, 3]) } else { TxIn::spend([ti as u8; 32], 0) }],
                    outputs: (0..*n).map(|k| TxOut { value: 10 + k as u64, script: match (ti + k) % 3 { 0 => rs::p2pkh(&rs::h20((ti * 8 + k) as u8)), 1 => rs::op_return(b"miri"), _ => rs::p2sh(&rs::h20(k as u8)) } }).collect(),
                    locktime: 0,
                    wide: 0,
                })
                .collect();
            let b = MBlock::build(1, [7u8; 32], 1_600_000_000, 0x1d00ffff, 5, txs);
            let raw = b.ser();
            let mut cur = Cursor::new(raw.clone());
            let blk = cur.read_block(raw.len() as u32, &ct).expect("parse");
            assert_eq!(blk.txs.len(), b.txs.len());
            for (got, want) in blk.txs.iter().zip(b.txs.iter()) {
                assert_eq!(got.hash.to_string(), refmodel::ser::hash_hex(&want.txid()), "txid");
                for (go, wo) in got.value.outputs.iter().zip(want.outputs.iter()) {
                    let e = rs::expect(c, &wo.script);
                    assert_eq!(go.script.address, e.address, "address");
                    assert!(subject_type(&go.script.pattern) & e.types != 0, "type");
                }
            }
        }
    }
    println!("MIRI-BODY-OK");
}


// ---- C09: utils::merkle_root against the reference for every leaf count up to the bound ----------------------------

fn c09() -> Report {
    use bitcoin::hashes::{sha256d, Hash};
    let mut rep = Report::new("C09", "e2");
    let max_n: usize = if is_thorough() { 5000 } else { 1100 };
    rep.rule = format!("common::utils::merkle_root on EVERY leaf count 1..={} (all tree shapes with odd levels at every depth up to {}), three leaf patterns each (distinct, all equal, last two equal), compared with the reference pairwise-hash implementation; non-trivial = distinct (count, pattern) with count >= 2", max_n, (max_n as f64).log2().ceil() as u32);
    rep.bound = json!({"max_leaves": max_n, "patterns": 3});
    for n in 1..=max_n {
        for pat in 0..3u8 {
            let leaves: Vec<[u8; 32]> = (0..n)
                .map(|i| {
                    let k = match pat {
                        0 => i,
                        1 => 0,
                        _ => if i + 1 == n && n >= 2 { n - 2 } else { i },
                    };
                    refmodel::hash::sha256(&(k as u64).to_le_bytes())
                })
                .collect();
            rep.states += 1;
            rep.transitions += 1;
            if n >= 2 {
                rep.nontrivial.insert(h8(format!("{}-{}", n, pat).as_bytes()));
            }
            let want = refmodel::ser::merkle_root(leaves.clone());
            let input: Vec<sha256d::Hash> = leaves.iter().map(|l| sha256d::Hash::from_byte_array(*l)).collect();
            match catch_unwind(|| crate::common::utils::merkle_root(input)) {
                Err(_) => rep.disagree("merkle-root-panics", format!("{} leaves, pattern {}", n, pat), json!({"kind": "merkle", "leaves": n, "pattern": pat})),
                Ok(got) => {
                    if got.to_byte_array() != want {
                        let odd_levels: Vec<usize> = {
                            let mut v = vec![];
                            let mut m = n;
                            let mut d = 0;
                            while m > 1 {
                                if m % 2 == 1 {
                                    v.push(d);
                                }
                                m = (m + 1) / 2;
                                d += 1;
                            }
                            v
                        };
                        rep.disagree("merkle-root-differs-from-reference", format!("{} leaves (odd levels at depths {:?}), pattern {}: got {} want {}", n, odd_levels, pat, hex(&got.to_byte_array()), hex(&want)), json!({"kind": "merkle", "leaves": n, "pattern": pat}));
                    }
                }
            }
        }
    }
    rep.sample(json!({"leaves": 5, "tree": "h(h(h01,h23),h(h44,h44))", "reference": hex(&refmodel::ser::merkle_root((0..5u64).map(|i| refmodel::hash::sha256(&i.to_le_bytes())).collect()))}));
    rep
}
