//! Controlled-scheduler model of the subset of rayon's API that a parallel-iterator user sees.
//!
//! Contract modelled (over-approximation of rayon's documented behaviour): every item of a parallel
//! iterator is a task; a task runs its whole adapter chain atomically; tasks of all live regions —
//! including regions opened by a running task, whose parent blocks until they finish — may run in ANY
//! order; an indexed `collect` puts result i at position i; unindexed sinks (`for_each` side effects,
//! `par_bridge`) observe execution order.
//!
//! Tasks run on real threads gated by a baton (exactly one entity runs at a time); every scheduling
//! decision with more than one candidate is a recorded choice point. `sched::run(prefix, f)` executes
//! `f` replaying `prefix` and taking choice 0 afterwards; a stateless DFS over the recorded choice
//! points (see mc/inproc-sched) enumerates every schedule.
use std::any::Any;
use std::collections::{BTreeMap, BTreeSet, HashMap, HashSet};
use std::hash::Hash;
use std::panic::{catch_unwind, resume_unwind, AssertUnwindSafe};
use std::sync::{Arc, Condvar, Mutex};

pub mod sched {
    use super::*;

    thread_local! {
        /// the scheduler entity (0 = the thread that called `run`, n = task n) this OS thread is; None for threads the
        /// scheduler does not own
        pub(crate) static ENTITY: std::cell::Cell<Option<u32>> = const { std::cell::Cell::new(None) };
    }
    /// pre-emption bound for the scheduling points INSIDE item closures (operations on the intercepted std::sync types, see
    /// mc/verif-std): 0 = closures are atomic (pure item-level exploration)
    pub(crate) static BOUND: std::sync::atomic::AtomicUsize = std::sync::atomic::AtomicUsize::new(0);
    pub fn set_preemption_bound(n: usize) {
        BOUND.store(n, std::sync::atomic::Ordering::SeqCst);
    }
    pub fn preemption_bound() -> usize {
        BOUND.load(std::sync::atomic::Ordering::SeqCst)
    }
    /// The first `n` parallel regions of an execution run their items one after the other in item order, without choice points:
    /// a warm-up that takes the subject to a non-initial state (a filled cache, say) before exploration starts.
    pub(crate) static WARMUP: std::sync::atomic::AtomicU64 = std::sync::atomic::AtomicU64::new(0);
    pub fn set_warmup_regions(n: u64) {
        WARMUP.store(n, std::sync::atomic::Ordering::SeqCst);
    }
    /// Wide regions (hundreds of items) cannot be explored at item level. With this switch the items are started in creation
    /// order without choice points, and only the scheduling points INSIDE closures branch (deviation-bounded search: every
    /// execution is the default one up to `bound` pre-emptions).
    pub(crate) static FIXED_ITEM_ORDER: std::sync::atomic::AtomicBool = std::sync::atomic::AtomicBool::new(false);
    /// > 0: at a scheduling point inside a closure only the first `window - 1` runnable entities (in creation order) and the
    /// newest one are alternatives (a stated family, not all of them); 0 = all runnable entities.
    pub(crate) static WINDOW: std::sync::atomic::AtomicUsize = std::sync::atomic::AtomicUsize::new(0);
    pub fn set_wide_mode(fixed_item_order: bool, window: usize) {
        FIXED_ITEM_ORDER.store(fixed_item_order, std::sync::atomic::Ordering::SeqCst);
        WINDOW.store(window, std::sync::atomic::Ordering::SeqCst);
    }
    /// Outside wide mode a region of more than this many items is not permuted (its item-level tree alone would have more than
    /// 64! leaves, and the list of its first-level deviations does not fit in memory for thousands of items): its items run
    /// one after the other in item order, like a warm-up region, and the region is counted in LARGE_INLINE so that the driver
    /// can say so in the evidence. The wide worlds (fixed item order + window) are the ones that look inside such regions.
    pub const MAX_PERMUTED_REGION: usize = 64;
    pub static LARGE_INLINE: std::sync::atomic::AtomicU64 = std::sync::atomic::AtomicU64::new(0);
    /// Before the process is ended because of a deadlock the description is written to the file named by VERIF_DEADLOCK_FILE.
    fn note_deadlock(msg: &str) {
        eprintln!("{}", msg);
        if let Ok(p) = std::env::var("VERIF_DEADLOCK_FILE") {
            let _ = std::fs::write(p, msg);
        }
    }

    #[derive(Default)]
    pub(crate) struct State {
        /// pre-emptions taken so far / allowed in this execution
        pub preemptions: usize,
        pub bound: usize,
        /// operations on intercepted synchronisation primitives met while an entity held the baton
        pub sync_points: u64,
        /// entity -> address of the lock it waits for
        pub blocked: BTreeMap<u32, usize>,
        /// address of a lock -> entities holding it (several readers of an RwLock)
        pub holders: HashMap<usize, Vec<u32>>,
        /// entities that opened a parallel region and wait for it to complete
        pub waiting_for_region: BTreeSet<u32>,
        /// OS thread of every entity (the baton is handed over by unparking exactly the thread that gets it: regions of
        /// hundreds of items would otherwise wake every waiting thread at every hand-over)
        pub threads: HashMap<u32, std::thread::Thread>,
        pub active: bool,
        pub current: Option<u32>,
        pub next_id: u32,
        pub runnable: BTreeSet<u32>,
        pub prefix: Vec<usize>,
        pub pos: usize,
        pub choices: Vec<(usize, usize)>,
        pub order: Vec<u32>,
        pub diverged: Option<String>,
        pub regions: u64,
        pub tasks: u64,
    }

    pub(crate) static STATE: Mutex<Option<State>> = Mutex::new(None);
    pub(crate) static CV: Condvar = Condvar::new();

    /// What one controlled execution did.
    #[derive(Clone, Debug, Default)]
    pub struct Outcome {
        /// (alternative taken, number of alternatives) at every choice point
        pub choices: Vec<(usize, usize)>,
        /// entity ids in the order in which they were given the baton
        pub order: Vec<u32>,
        pub regions: u64,
        pub tasks: u64,
        /// set when the replayed prefix did not fit the choice points met (nondeterminism not owned)
        pub diverged: Option<String>,
        /// operations on intercepted std::sync primitives met, and pre-emptions taken at them
        pub sync_points: u64,
        pub preemptions: usize,
    }

    pub(crate) fn pick_next(st: &mut State) {
        let cands: Vec<u32> = st.runnable.iter().copied().collect();
        if cands.is_empty() {
            if !st.blocked.is_empty() {
                deadlock(st);
            }
            st.current = None;
            return;
        }
        let mut pick = 0usize;
        if cands.len() > 1 && !FIXED_ITEM_ORDER.load(std::sync::atomic::Ordering::SeqCst) {
            if st.pos < st.prefix.len() {
                pick = st.prefix[st.pos];
                if pick >= cands.len() {
                    st.diverged = Some(format!("choice point {}: prefix asks for alternative {} of {}", st.pos, pick, cands.len()));
                    pick = 0;
                }
            }
            st.pos += 1;
            st.choices.push((pick, cands.len()));
        }
        let id = cands[pick];
        st.runnable.remove(&id);
        st.current = Some(id);
        st.order.push(id);
    }

    /// A choice of the runtime that is not "who runs next": how a `fold` / `reduce` splits its items into sequential runs (rayon
    /// splits adaptively - where a run ends depends on which worker was idle when). `n` alternatives, 0 = the default; a choice
    /// point of the execution like any other (replayed from the prefix, listed in `choices`). Outside an exploration, in pool
    /// mode and in wide mode (fixed item order) the default is taken without a choice point.
    pub fn choose(n: usize) -> usize {
        if n < 2 || FIXED_ITEM_ORDER.load(std::sync::atomic::Ordering::SeqCst) {
            return 0;
        }
        let mut g = STATE.lock().unwrap();
        let st = match g.as_mut() {
            Some(st) if st.active => st,
            _ => return 0,
        };
        if st.regions < WARMUP.load(std::sync::atomic::Ordering::SeqCst) {
            return 0;
        }
        let mut pick = 0usize;
        if st.pos < st.prefix.len() {
            pick = st.prefix[st.pos];
            if pick >= n {
                st.diverged = Some(format!("choice point {}: prefix asks for split {} of {}", st.pos, pick, n));
                pick = 0;
            }
        }
        st.pos += 1;
        st.choices.push((pick, n));
        pick
    }

    /// Run `f` under the controlled scheduler, replaying `prefix` at the first choice points.
    pub fn run<R>(prefix: &[usize], f: impl FnOnce() -> R) -> (R, Outcome) {
        {
            let mut g = STATE.lock().unwrap();
            assert!(g.is_none(), "nested sched::run");
            let mut st = State { active: true, current: Some(0), next_id: 1, prefix: prefix.to_vec(), bound: preemption_bound(), ..Default::default() };
            st.threads.insert(0, std::thread::current());
            *g = Some(st);
        }
        ENTITY.with(|e| e.set(Some(0)));
        let r = catch_unwind(AssertUnwindSafe(f));
        ENTITY.with(|e| e.set(None));
        let st = STATE.lock().unwrap().take().unwrap();
        let mut out = Outcome { choices: st.choices, order: st.order, regions: st.regions, tasks: st.tasks, diverged: st.diverged, sync_points: st.sync_points, preemptions: st.preemptions };
        if st.pos < st.prefix.len() && out.diverged.is_none() {
            out.diverged = Some(format!("only {} choice points met, prefix has {}", st.pos, st.prefix.len()));
        }
        match r {
            Ok(v) => (v, out),
            Err(p) => resume_unwind(p),
        }
    }

    /// wake the thread of the entity that holds the baton now (called with the state locked, after `current` changed)
    pub(crate) fn wake_current(st: &State) {
        if let Some(t) = st.current.and_then(|c| st.threads.get(&c)) {
            t.unpark();
        }
    }
    /// block the calling thread until entity `me` holds the baton; takes and returns the state lock
    pub(crate) fn wait_baton(mut g: std::sync::MutexGuard<'static, Option<State>>, me: u32) -> std::sync::MutexGuard<'static, Option<State>> {
        loop {
            if g.as_ref().unwrap().current == Some(me) {
                return g;
            }
            drop(g);
            std::thread::park();
            g = STATE.lock().unwrap();
        }
    }

    pub fn is_active() -> bool {
        STATE.lock().unwrap().as_ref().map(|s| s.active).unwrap_or(false)
    }

    /// Every entity that could run is waiting for a lock held by an entity that cannot run: the execution cannot continue
    /// under ANY continuation of this schedule. The process is ended (the driver runs every execution in a process of its
    /// own, or names the execution in flight when a worker process dies) - an observation like any other.
    fn deadlock(st: &State) -> ! {
        note_deadlock(&format!("VERIF-DEADLOCK under the controlled scheduler: entities waiting for locks {:?}; holders {:?}; schedule so far {:?}", st.blocked, st.holders.iter().filter(|(_, v)| !v.is_empty()).collect::<Vec<_>>(), st.choices.iter().map(|c| c.0).collect::<Vec<_>>()));
        std::process::abort();
    }

    /// true when the calling thread is an entity of a running thread-per-task exploration and holds the baton
    pub fn controlled() -> bool {
        let me = match ENTITY.with(|e| e.get()) {
            Some(m) => m,
            None => return false,
        };
        match STATE.lock().unwrap().as_ref() {
            Some(st) => st.active && st.current == Some(me),
            None => false,
        }
    }

    /// Called by the intercepted primitives BEFORE a visible operation: a scheduling point inside an item closure. Within the
    /// pre-emption bound every other runnable entity may be given the baton here (alternative 0 = go on).
    pub fn sync_point(_what: &'static str) {
        let me = match ENTITY.with(|e| e.get()) {
            Some(m) => m,
            None => return,
        };
        let mut g = STATE.lock().unwrap();
        let st = match g.as_mut() {
            Some(s) if s.active && s.current == Some(me) => s,
            _ => return,
        };
        st.sync_points += 1;
        if st.runnable.is_empty() || st.preemptions >= st.bound {
            return;
        }
        let window = WINDOW.load(std::sync::atomic::Ordering::SeqCst);
        let n = 1 + if window > 0 { st.runnable.len().min(window) } else { st.runnable.len() };
        let mut pick = 0usize;
        if st.pos < st.prefix.len() {
            pick = st.prefix[st.pos];
            if pick >= n {
                st.diverged = Some(format!("choice point {} (inside a closure): prefix asks for alternative {} of {}", st.pos, pick, n));
                pick = 0;
            }
        }
        st.pos += 1;
        st.choices.push((pick, n));
        if pick == 0 {
            return;
        }
        st.preemptions += 1;
        // (with a window: the last alternative is the newest runnable entity, the others the oldest ones)
        let id = if window > 0 && st.runnable.len() > window && pick == n - 1 { *st.runnable.iter().next_back().unwrap() } else { *st.runnable.iter().nth(pick - 1).unwrap() };
        st.runnable.remove(&id);
        st.runnable.insert(me);
        st.current = Some(id);
        st.order.push(id);
        wake_current(st);
        let _g = wait_baton(g, me);
    }

    /// The calling entity found the lock at `addr` taken. Returns false when the holder is not an entity of this exploration
    /// (the caller then waits for real); otherwise the entity is descheduled until the lock is released, then returns true
    /// (the caller tries again).
    pub fn block_on(addr: usize, _what: &'static str) -> bool {
        let me = match ENTITY.with(|e| e.get()) {
            Some(m) => m,
            None => return false,
        };
        let mut g = STATE.lock().unwrap();
        let st = match g.as_mut() {
            Some(s) if s.active && s.current == Some(me) => s,
            _ => return false,
        };
        if !st.holders.get(&addr).map(|v| !v.is_empty()).unwrap_or(false) {
            return false;
        }
        // The holder waits for a parallel region it opened: with rayon's work stealing the thread of a waiting task runs other
        // pending tasks ON ITS OWN STACK - this very task among them - and std locks are not re-entrant: the run can hang.
        if let Some(h) = st.holders[&addr].iter().find(|h| st.waiting_for_region.contains(h)) {
            note_deadlock(&format!("VERIF-DEADLOCK under the controlled scheduler: entity {} holds the lock at {:#x} while it waits for a parallel region it opened, and entity {} - a task that rayon's work stealing may run on the holder's own thread - needs that lock ({}); schedule so far {:?}", h, addr, me, _what, st.choices.iter().map(|c| c.0).collect::<Vec<_>>()));
            std::process::abort();
        }
        st.blocked.insert(me, addr);
        pick_next(st);
        wake_current(st);
        let _g = wait_baton(g, me);
        true
    }

    pub fn acquired(addr: usize, _exclusive: bool) {
        let me = match ENTITY.with(|e| e.get()) {
            Some(m) => m,
            None => return,
        };
        if let Some(st) = STATE.lock().unwrap().as_mut() {
            if st.active {
                st.holders.entry(addr).or_default().push(me);
            }
        }
    }

    pub fn released(addr: usize, _exclusive: bool) {
        let me = ENTITY.with(|e| e.get());
        if let Some(st) = STATE.lock().unwrap().as_mut() {
            if let Some(v) = st.holders.get_mut(&addr) {
                if let Some(i) = v.iter().position(|h| Some(*h) == me).or(if v.is_empty() { None } else { Some(0) }) {
                    v.remove(i);
                }
            }
            let waiting: Vec<u32> = st.blocked.iter().filter(|(_, a)| **a == addr).map(|(e, _)| *e).collect();
            for e in waiting {
                st.blocked.remove(&e);
                st.runnable.insert(e);
            }
        }
    }
}

type Thunk<'a, T> = Box<dyn FnOnce() -> Option<T> + Send + 'a>;

/// Execute one parallel region: every thunk is a task. Results in item order (None = filtered out),
/// plus the order in which the tasks were executed.
fn run_region<'a, T: Send + 'a>(thunks: Vec<Thunk<'a, T>>) -> (Vec<Option<T>>, Vec<usize>) {
    let n = thunks.len();
    let active = sched::is_active() || pool::is_active();
    if !active || n == 0 {
        // outside an exploration: plain sequential execution in item order
        let mut order = Vec::new();
        let res = thunks.into_iter().enumerate().map(|(i, t)| {
            order.push(i);
            t()
        }).collect();
        return (res, order);
    }
    if pool::is_active() {
        return pool::run_region(thunks);
    }
    {
        let mut g = sched::STATE.lock().unwrap();
        let st = g.as_mut().unwrap();
        let large = n > sched::MAX_PERMUTED_REGION && !sched::FIXED_ITEM_ORDER.load(std::sync::atomic::Ordering::SeqCst);
        if large && st.regions >= sched::WARMUP.load(std::sync::atomic::Ordering::SeqCst) {
            sched::LARGE_INLINE.fetch_add(1, std::sync::atomic::Ordering::SeqCst);
        }
        if large || st.regions < sched::WARMUP.load(std::sync::atomic::Ordering::SeqCst) {
            st.regions += 1;
            st.tasks += n as u64;
            drop(g);
            let mut order = Vec::new();
            let res = thunks.into_iter().enumerate().map(|(i, t)| {
                order.push(i);
                t()
            }).collect();
            return (res, order);
        }
    }
    let results: Mutex<Vec<Option<Option<T>>>> = Mutex::new((0..n).map(|_| None).collect());
    let exec_order: Mutex<Vec<usize>> = Mutex::new(Vec::new());
    let panic_slot: Mutex<Option<Box<dyn Any + Send>>> = Mutex::new(None);
    let remaining = Mutex::new(n);
    // register the tasks (deterministic ids: item order) while holding the baton
    let (me, ids): (u32, Vec<u32>) = {
        let mut g = sched::STATE.lock().unwrap();
        let st = g.as_mut().unwrap();
        let me = st.current.expect("region opened by a thread that does not hold the baton");
        let ids: Vec<u32> = (0..n).map(|_| {
            let id = st.next_id;
            st.next_id += 1;
            st.runnable.insert(id);
            id
        }).collect();
        st.regions += 1;
        st.tasks += n as u64;
        st.waiting_for_region.insert(me);
        (me, ids)
    };
    std::thread::scope(|s| {
        for (i, t) in thunks.into_iter().enumerate() {
            let id = ids[i];
            let results = &results;
            let exec_order = &exec_order;
            let panic_slot = &panic_slot;
            let remaining = &remaining;
            s.spawn(move || {
                sched::ENTITY.with(|e| e.set(Some(id)));
                // wait for the baton
                {
                    let mut g = sched::STATE.lock().unwrap();
                    g.as_mut().unwrap().threads.insert(id, std::thread::current());
                    let _g = sched::wait_baton(g, id);
                }
                exec_order.lock().unwrap().push(i);
                let r = catch_unwind(AssertUnwindSafe(t));
                match r {
                    Ok(v) => results.lock().unwrap()[i] = Some(v),
                    Err(p) => {
                        let mut ps = panic_slot.lock().unwrap();
                        if ps.is_none() {
                            *ps = Some(p);
                        }
                    }
                }
                // finish: maybe wake the parent, hand the baton on
                let mut g = sched::STATE.lock().unwrap();
                let st = g.as_mut().unwrap();
                let mut rem = remaining.lock().unwrap();
                *rem -= 1;
                if *rem == 0 {
                    st.runnable.insert(me);
                }
                st.threads.remove(&id);
                sched::pick_next(st);
                sched::wake_current(st);
            });
        }
        // the parent blocks until its region is complete and it is scheduled again
        let mut g = sched::STATE.lock().unwrap();
        {
            let st = g.as_mut().unwrap();
            sched::pick_next(st);
            sched::wake_current(st);
        }
        let mut g = sched::wait_baton(g, me);
        g.as_mut().unwrap().waiting_for_region.remove(&me);
    });
    if let Some(p) = panic_slot.into_inner().unwrap() {
        resume_unwind(p);
    }
    let res = results.into_inner().unwrap().into_iter().map(|r| r.expect("task result")).collect();
    (res, exec_order.into_inner().unwrap())
}

/// The one parallel-iterator type of this model: a list of per-item thunks.
pub struct Par<'a, T> {
    thunks: Vec<Thunk<'a, T>>,
    /// false once the iterator lost its index (par_bridge): collect order = execution order
    indexed: bool,
    /// every thunk only hands over a value that exists already (a source, or the staged results of an earlier region): driving
    /// such an indexed iterator runs no closure of the subject, so no region is opened for it
    ready: bool,
}

impl<'a, T: Send + 'a> Par<'a, T> {
    pub(crate) fn from_items<I: IntoIterator<Item = T>>(items: I, indexed: bool) -> Par<'a, T> {
        Par { thunks: items.into_iter().map(|x| Box::new(move || Some(x)) as Thunk<'a, T>).collect(), indexed, ready: true }
    }
    pub fn map<R: Send + 'a, F: Fn(T) -> R + Send + Sync + 'a>(self, f: F) -> Par<'a, R> {
        let f = Arc::new(f);
        Par { indexed: self.indexed, ready: false, thunks: self.thunks.into_iter().map(|t| { let f = f.clone(); Box::new(move || t().map(|x| f(x))) as Thunk<'a, R> }).collect() }
    }
    pub fn filter<F: Fn(&T) -> bool + Send + Sync + 'a>(self, f: F) -> Par<'a, T> {
        let f = Arc::new(f);
        Par { indexed: self.indexed, ready: false, thunks: self.thunks.into_iter().map(|t| { let f = f.clone(); Box::new(move || t().filter(|x| f(x))) as Thunk<'a, T> }).collect() }
    }
    pub fn filter_map<R: Send + 'a, F: Fn(T) -> Option<R> + Send + Sync + 'a>(self, f: F) -> Par<'a, R> {
        let f = Arc::new(f);
        Par { indexed: self.indexed, ready: false, thunks: self.thunks.into_iter().map(|t| { let f = f.clone(); Box::new(move || t().and_then(|x| f(x))) as Thunk<'a, R> }).collect() }
    }
    pub fn inspect<F: Fn(&T) + Send + Sync + 'a>(self, f: F) -> Par<'a, T> {
        self.map(move |x| { f(&x); x })
    }
    pub fn enumerate(self) -> Par<'a, (usize, T)> {
        Par { indexed: self.indexed, ready: false, thunks: self.thunks.into_iter().enumerate().map(|(i, t)| Box::new(move || t().map(|x| (i, x))) as Thunk<'a, (usize, T)>).collect() }
    }
    pub fn zip<U: Send + 'a>(self, other: Par<'a, U>) -> Par<'a, (T, U)> {
        Par { indexed: self.indexed && other.indexed, ready: false, thunks: self.thunks.into_iter().zip(other.thunks).map(|(a, b)| Box::new(move || match (a(), b()) { (Some(x), Some(y)) => Some((x, y)), _ => None }) as Thunk<'a, (T, U)>).collect() }
    }
    /// Groups of `n` consecutive items; a group is one task (its items are evaluated one after the other inside it).
    pub fn chunks(self, n: usize) -> Par<'a, Vec<T>> {
        assert!(n > 0, "chunk size must not be zero");
        let indexed = self.indexed;
        let mut groups: Vec<Vec<Thunk<'a, T>>> = Vec::new();
        for t in self.thunks {
            if groups.last().map(|g| g.len() == n).unwrap_or(true) {
                groups.push(Vec::new());
            }
            groups.last_mut().unwrap().push(t);
        }
        Par { indexed, ready: false, thunks: groups.into_iter().map(|g| Box::new(move || Some(g.into_iter().filter_map(|t| t()).collect::<Vec<T>>())) as Thunk<'a, Vec<T>>).collect() }
    }
    /// Every run of the chosen split gets its own clone of `init` (see `map_runs`).
    pub fn map_with<S: Send + Clone + 'a, R: Send + 'a, F: Fn(&mut S, T) -> R + Send + Sync + 'a>(self, init: S, f: F) -> Par<'a, R> {
        let init = Mutex::new(init); // (rayon asks for Send + Clone only)
        self.map_runs(Arc::new(move || init.lock().unwrap().clone()), Arc::new(f))
    }
    pub fn map_init<S: 'a, R: Send + 'a, INIT: Fn() -> S + Send + Sync + 'a, F: Fn(&mut S, T) -> R + Send + Sync + 'a>(self, init: INIT, f: F) -> Par<'a, R> {
        self.map_runs(Arc::new(init), Arc::new(f))
    }
    pub fn for_each_with<S: Send + Clone + 'a, F: Fn(&mut S, T) + Send + Sync + 'a>(self, init: S, f: F) {
        let _ = self.map_with(init, f).drive();
    }
    pub fn for_each_init<S: 'a, INIT: Fn() -> S + Send + Sync + 'a, F: Fn(&mut S, T) + Send + Sync + 'a>(self, init: INIT, f: F) {
        let _ = self.map_init(init, f).drive();
    }
    pub fn try_for_each<E: Send + 'a, F: Fn(T) -> Result<(), E> + Send + Sync + 'a>(self, f: F) -> Result<(), E> {
        // the error of the task that failed first in execution order
        let (res, order) = run_region(self.map(f).thunks);
        let mut slots: Vec<Option<Result<(), E>>> = res;
        for i in order {
            if let Some(Err(e)) = slots[i].take() {
                return Err(e);
            }
        }
        Ok(())
    }
    /// any match: the one found first in execution order
    pub fn find_any<F: Fn(&T) -> bool + Send + Sync + 'a>(self, f: F) -> Option<T> {
        let (res, order) = run_region(self.filter(f).thunks);
        let mut slots: Vec<Option<T>> = res;
        order.into_iter().find_map(|i| slots[i].take())
    }
    pub fn find_first<F: Fn(&T) -> bool + Send + Sync + 'a>(self, f: F) -> Option<T> {
        let (res, _) = run_region(self.filter(f).thunks);
        res.into_iter().flatten().next()
    }
    pub fn position_any<F: Fn(T) -> bool + Send + Sync + 'a>(self, f: F) -> Option<usize> {
        let (res, order) = run_region(self.map(f).thunks);
        order.into_iter().find(|i| res[*i] == Some(true))
    }
    pub fn min_by_key<K: Ord, F: Fn(&T) -> K + Send + Sync>(self, f: F) -> Option<T> { self.drive().into_iter().min_by_key(|x| f(x)) }
    pub fn max_by_key<K: Ord, F: Fn(&T) -> K + Send + Sync>(self, f: F) -> Option<T> { self.drive().into_iter().max_by_key(|x| f(x)) }
    pub fn min_by<F: Fn(&T, &T) -> std::cmp::Ordering + Send + Sync>(self, f: F) -> Option<T> { self.drive().into_iter().min_by(|a, b| f(a, b)) }
    pub fn max_by<F: Fn(&T, &T) -> std::cmp::Ordering + Send + Sync>(self, f: F) -> Option<T> { self.drive().into_iter().max_by(|a, b| f(a, b)) }
    pub fn with_min_len(self, _: usize) -> Self { self }
    pub fn with_max_len(self, _: usize) -> Self { self }
    pub fn len(&self) -> usize { self.thunks.len() }
    pub fn is_empty(&self) -> bool { self.thunks.is_empty() }

    /// Run the region; items in collect order.
    fn drive(self) -> Vec<T> {
        let indexed = self.indexed;
        if self.ready && indexed {
            return self.thunks.into_iter().filter_map(|t| t()).collect();
        }
        let (res, order) = run_region(self.thunks);
        if indexed {
            res.into_iter().flatten().collect()
        } else {
            let mut slots: Vec<Option<T>> = res;
            order.into_iter().filter_map(|i| slots[i].take()).collect()
        }
    }
    pub fn for_each<F: Fn(T) + Send + Sync + 'a>(self, f: F) {
        let _ = self.map(f).drive();
    }
    pub fn collect<C: FromParallelIterator<T>>(self) -> C {
        C::from_par_vec(self.drive())
    }
    pub fn collect_into_vec(self, target: &mut Vec<T>) {
        *target = self.drive();
    }
    pub fn count(self) -> usize { self.drive().len() }
    pub fn sum<S: std::iter::Sum<T>>(self) -> S { self.drive().into_iter().sum() }
    pub fn min(self) -> Option<T> where T: Ord { self.drive().into_iter().min() }
    pub fn max(self) -> Option<T> where T: Ord { self.drive().into_iter().max() }
    pub fn any<F: Fn(T) -> bool + Send + Sync + 'a>(self, f: F) -> bool { self.map(f).drive().into_iter().any(|b| b) }
    pub fn all<F: Fn(T) -> bool + Send + Sync + 'a>(self, f: F) -> bool { self.map(f).drive().into_iter().all(|b| b) }
    /// reduce: every sequential run of the chosen split (see `fold`) is reduced from `identity()`, the runs are combined from
    /// left to right (rayon requires an associative op and a true identity; one that is not shows as a split-dependent result)
    pub fn reduce<ID: Fn() -> T + Send + Sync + 'a, OP: Fn(T, T) -> T + Send + Sync + 'a>(self, identity: ID, op: OP) -> T {
        let op = Arc::new(op);
        let identity = Arc::new(identity);
        let (op2, id2) = (op.clone(), identity.clone());
        let runs = self.fold(move || id2(), move |a, b| op2(a, b)).drive();
        runs.into_iter().fold(identity(), |a, b| op(a, b))
    }
    /// fold: rayon folds every sequential run of items it happens to split off into one accumulator; WHERE it splits depends on
    /// which workers were idle. The split is a choice point: for up to 5 items every set of boundaries (2^(n-1) alternatives,
    /// default = one accumulator per item, the finest split), for more items three alternatives (finest, one single run, two
    /// halves). A run is one task; its items are evaluated one after the other inside it.
    pub fn fold<A: Send + 'a, ID: Fn() -> A + Send + Sync + 'a, F: Fn(A, T) -> A + Send + Sync + 'a>(self, identity: ID, f: F) -> Par<'a, A> {
        let indexed = self.indexed;
        let groups = Self::split_runs(self.thunks);
        let f = Arc::new(f);
        let identity = Arc::new(identity);
        Par { indexed, ready: false, thunks: groups.into_iter().map(|g| { let (f, identity) = (f.clone(), identity.clone()); Box::new(move || Some(g.into_iter().filter_map(|t| t()).fold(identity(), |a, x| f(a, x)))) as Thunk<'a, A> }).collect() }
    }
    /// The items cut into sequential runs at the boundaries the explorer chooses (see `fold`).
    fn split_runs(thunks: Vec<Thunk<'a, T>>) -> Vec<Vec<Thunk<'a, T>>> {
        let n = thunks.len();
        if n == 0 {
            return Vec::new();
        }
        // which of the three coarse alternatives (more than 5 items), or the set of boundaries (bit i = boundary after item i)
        let (coarse, cuts): (Option<usize>, u64) = if n <= 1 {
            (None, 0)
        } else if n <= 5 {
            let all = (1u64 << (n - 1)) - 1;
            (None, all & !(sched::choose(1usize << (n - 1)) as u64))
        } else {
            (Some(sched::choose(3)), 0)
        };
        let cut_after = |i: usize| match coarse {
            Some(0) => true,
            Some(1) => false,
            Some(_) => i == n / 2 - 1,
            None => cuts >> i & 1 == 1,
        };
        let mut groups: Vec<Vec<Thunk<'a, T>>> = vec![Vec::new()];
        for (i, t) in thunks.into_iter().enumerate() {
            groups.last_mut().unwrap().push(t);
            if i + 1 < n && cut_after(i) {
                groups.push(Vec::new());
            }
        }
        groups
    }
    /// One task per run; inside it the items are evaluated one after the other with ONE state (rayon clones / creates the
    /// state of `map_with` / `map_init` once per split, not once per item: what a closure leaves in it is seen by the next
    /// item of the same run). Staged like `flat_map`: the region runs here, the results go on as items.
    fn map_runs<S: 'a, R: Send + 'a>(self, mk: Arc<dyn Fn() -> S + Send + Sync + 'a>, f: Arc<dyn Fn(&mut S, T) -> R + Send + Sync + 'a>) -> Par<'a, R> {
        let indexed = self.indexed;
        let groups = Self::split_runs(self.thunks);
        let parts: Vec<Vec<Option<R>>> = Par { indexed, ready: false, thunks: groups.into_iter().map(|g| { let (mk, f) = (mk.clone(), f.clone()); Box::new(move || { let mut st = mk(); Some(g.into_iter().map(|t| t().map(|x| f(&mut st, x))).collect::<Vec<Option<R>>>()) }) as Thunk<'a, Vec<Option<R>>> }).collect() }.drive();
        Par { indexed, ready: true, thunks: parts.into_iter().flatten().map(|o| Box::new(move || o) as Thunk<'a, R>).collect() }
    }
    pub fn flat_map<R: Send + 'a, I: IntoIterator<Item = R>, F: Fn(T) -> I + Send + Sync + 'a>(self, f: F) -> Par<'a, R> {
        // staged: the inner iterators are produced by one region, then flattened in index order
        let indexed = self.indexed;
        let parts: Vec<Vec<R>> = self.map(move |x| f(x).into_iter().collect::<Vec<R>>()).drive();
        Par::from_items(parts.into_iter().flatten(), indexed)
    }
}

impl<'a, R: Send + 'a, I: IntoIterator<Item = R> + Send + 'a> Par<'a, I> {
    pub fn flatten(self) -> Par<'a, R> { self.flat_map(|x| x) }
}

impl<'a, T: Send + Sync + Clone + 'a> Par<'a, &'a T> {
    pub fn cloned(self) -> Par<'a, T> { self.map(|x| x.clone()) }
    pub fn copied(self) -> Par<'a, T> where T: Copy { self.map(|x| *x) }
}

pub trait FromParallelIterator<T> {
    fn from_par_vec(v: Vec<T>) -> Self;
}
impl<T> FromParallelIterator<T> for Vec<T> {
    fn from_par_vec(v: Vec<T>) -> Self { v }
}
impl<T> FromParallelIterator<T> for std::collections::VecDeque<T> {
    fn from_par_vec(v: Vec<T>) -> Self { v.into_iter().collect() }
}
impl<K: Eq + Hash, V> FromParallelIterator<(K, V)> for HashMap<K, V> {
    fn from_par_vec(v: Vec<(K, V)>) -> Self { v.into_iter().collect() }
}
impl<K: Ord, V> FromParallelIterator<(K, V)> for BTreeMap<K, V> {
    fn from_par_vec(v: Vec<(K, V)>) -> Self { v.into_iter().collect() }
}
impl<K: Eq + Hash> FromParallelIterator<K> for HashSet<K> {
    fn from_par_vec(v: Vec<K>) -> Self { v.into_iter().collect() }
}
impl<K: Ord> FromParallelIterator<K> for BTreeSet<K> {
    fn from_par_vec(v: Vec<K>) -> Self { v.into_iter().collect() }
}
impl FromParallelIterator<String> for String {
    fn from_par_vec(v: Vec<String>) -> Self { v.concat() }
}
impl<T, E, C: FromParallelIterator<T>> FromParallelIterator<Result<T, E>> for Result<C, E> {
    fn from_par_vec(v: Vec<Result<T, E>>) -> Self {
        let mut out = Vec::with_capacity(v.len());
        for x in v {
            out.push(x?);
        }
        Ok(C::from_par_vec(out))
    }
}
impl<T, C: FromParallelIterator<T>> FromParallelIterator<Option<T>> for Option<C> {
    fn from_par_vec(v: Vec<Option<T>>) -> Self {
        let mut out = Vec::with_capacity(v.len());
        for x in v {
            out.push(x?);
        }
        Some(C::from_par_vec(out))
    }
}

pub mod iter {
    pub use super::{FromParallelIterator, Par};
    use super::*;

    /// Marker traits so that `use rayon::iter::{ParallelIterator, IndexedParallelIterator}` resolves;
    /// the adapter and sink methods are inherent methods of `Par`.
    pub trait ParallelIterator {}
    pub trait IndexedParallelIterator {}
    impl<'a, T> ParallelIterator for Par<'a, T> {}
    impl<'a, T> IndexedParallelIterator for Par<'a, T> {}

    pub trait IntoParallelIterator<'a> {
        type Item: Send + 'a;
        fn into_par_iter(self) -> Par<'a, Self::Item>;
    }
    impl<'a, T: Send + 'a> IntoParallelIterator<'a> for Vec<T> {
        type Item = T;
        fn into_par_iter(self) -> Par<'a, T> { Par::from_items(self, true) }
    }
    impl<'a, T: Sync + 'a> IntoParallelIterator<'a> for &'a Vec<T> {
        type Item = &'a T;
        fn into_par_iter(self) -> Par<'a, &'a T> { Par::from_items(self.iter(), true) }
    }
    impl<'a, T: Sync + 'a> IntoParallelIterator<'a> for &'a [T] {
        type Item = &'a T;
        fn into_par_iter(self) -> Par<'a, &'a T> { Par::from_items(self.iter(), true) }
    }
    impl<'a, T: Send + 'a> IntoParallelIterator<'a> for &'a mut Vec<T> {
        type Item = &'a mut T;
        fn into_par_iter(self) -> Par<'a, &'a mut T> { Par::from_items(self.iter_mut(), true) }
    }
    impl<'a, T: Send + 'a> IntoParallelIterator<'a> for &'a mut [T] {
        type Item = &'a mut T;
        fn into_par_iter(self) -> Par<'a, &'a mut T> { Par::from_items(self.iter_mut(), true) }
    }
    impl<'a, T: Send + 'a> IntoParallelIterator<'a> for Option<T> {
        type Item = T;
        fn into_par_iter(self) -> Par<'a, T> { Par::from_items(self, true) }
    }
    macro_rules! range_impl {
        ($($t:ty),*) => {$(
            impl<'a> IntoParallelIterator<'a> for std::ops::Range<$t> {
                type Item = $t;
                fn into_par_iter(self) -> Par<'a, $t> { Par::from_items(self, true) }
            }
            impl<'a> IntoParallelIterator<'a> for std::ops::RangeInclusive<$t> {
                type Item = $t;
                fn into_par_iter(self) -> Par<'a, $t> { Par::from_items(self, true) }
            }
        )*};
    }
    range_impl!(u8, u16, u32, u64, usize, i32, i64, isize);
    impl<'a, K: Send + 'a, V: Send + 'a> IntoParallelIterator<'a> for HashMap<K, V> {
        type Item = (K, V);
        fn into_par_iter(self) -> Par<'a, (K, V)> { Par::from_items(self, false) }
    }

    pub trait IntoParallelRefIterator<'a> {
        type Item: Send + 'a;
        fn par_iter(&'a self) -> Par<'a, Self::Item>;
    }
    impl<'a, T: Sync + 'a> IntoParallelRefIterator<'a> for Vec<T> {
        type Item = &'a T;
        fn par_iter(&'a self) -> Par<'a, &'a T> { Par::from_items(self.iter(), true) }
    }
    impl<'a, T: Sync + 'a> IntoParallelRefIterator<'a> for [T] {
        type Item = &'a T;
        fn par_iter(&'a self) -> Par<'a, &'a T> { Par::from_items(self.iter(), true) }
    }
    impl<'a, K: Sync + 'a, V: Sync + 'a> IntoParallelRefIterator<'a> for HashMap<K, V> {
        type Item = (&'a K, &'a V);
        fn par_iter(&'a self) -> Par<'a, (&'a K, &'a V)> { Par::from_items(self.iter(), false) }
    }
    pub trait IntoParallelRefMutIterator<'a> {
        type Item: Send + 'a;
        fn par_iter_mut(&'a mut self) -> Par<'a, Self::Item>;
    }
    impl<'a, T: Send + 'a> IntoParallelRefMutIterator<'a> for Vec<T> {
        type Item = &'a mut T;
        fn par_iter_mut(&'a mut self) -> Par<'a, &'a mut T> { Par::from_items(self.iter_mut(), true) }
    }
    impl<'a, T: Send + 'a> IntoParallelRefMutIterator<'a> for [T] {
        type Item = &'a mut T;
        fn par_iter_mut(&'a mut self) -> Par<'a, &'a mut T> { Par::from_items(self.iter_mut(), true) }
    }

    /// `iterator.par_bridge()`: items are handed out in iterator order but carry no index.
    pub trait ParallelBridge<'a>: Sized {
        type Item: Send + 'a;
        fn par_bridge(self) -> Par<'a, Self::Item>;
    }
    impl<'a, I: Iterator + Send> ParallelBridge<'a> for I
    where
        I::Item: Send + 'a,
    {
        type Item = I::Item;
        fn par_bridge(self) -> Par<'a, I::Item> { Par::from_items(self, false) }
    }

    pub trait ParallelSlice<T: Sync> {
        fn par_chunks<'a>(&'a self, n: usize) -> Par<'a, &'a [T]> where T: 'a;
        fn par_chunks_exact<'a>(&'a self, n: usize) -> Par<'a, &'a [T]> where T: 'a;
    }
    impl<T: Sync> ParallelSlice<T> for [T] {
        fn par_chunks<'a>(&'a self, n: usize) -> Par<'a, &'a [T]> where T: 'a {
            Par::from_items(self.chunks(n), true)
        }
        fn par_chunks_exact<'a>(&'a self, n: usize) -> Par<'a, &'a [T]> where T: 'a {
            Par::from_items(self.chunks_exact(n), true)
        }
    }
    pub trait ParallelSliceMut<T: Send> {
        fn par_chunks_mut<'a>(&'a mut self, n: usize) -> Par<'a, &'a mut [T]> where T: 'a;
        fn par_chunks_exact_mut<'a>(&'a mut self, n: usize) -> Par<'a, &'a mut [T]> where T: 'a;
        fn par_sort(&mut self) where T: Ord;
        fn par_sort_unstable(&mut self) where T: Ord;
        fn par_sort_by_key<K: Ord, F: Fn(&T) -> K + Sync>(&mut self, f: F);
    }
    impl<T: Send> ParallelSliceMut<T> for [T] {
        fn par_chunks_mut<'a>(&'a mut self, n: usize) -> Par<'a, &'a mut [T]> where T: 'a {
            Par::from_items(self.chunks_mut(n), true)
        }
        fn par_chunks_exact_mut<'a>(&'a mut self, n: usize) -> Par<'a, &'a mut [T]> where T: 'a {
            Par::from_items(self.chunks_exact_mut(n), true)
        }
        fn par_sort(&mut self) where T: Ord { self.sort() }
        fn par_sort_unstable(&mut self) where T: Ord { self.sort_unstable() }
        fn par_sort_by_key<K: Ord, F: Fn(&T) -> K + Sync>(&mut self, f: F) { self.sort_by_key(f) }
    }
}

pub mod prelude {
    pub use super::iter::*;
}
pub mod slice {
    pub use super::iter::{ParallelSlice, ParallelSliceMut};
}

/// `rayon::join`: two tasks in one region.
pub fn join<A, B, RA: Send, RB: Send>(a: A, b: B) -> (RA, RB)
where
    A: FnOnce() -> RA + Send,
    B: FnOnce() -> RB + Send,
{
    enum E<X, Y> { L(X), R(Y) }
    let thunks: Vec<Thunk<'_, E<RA, RB>>> = vec![Box::new(move || Some(E::L(a()))), Box::new(move || Some(E::R(b())))];
    let (res, _) = run_region(thunks);
    let mut it = res.into_iter();
    match (it.next().flatten(), it.next().flatten()) {
        (Some(E::L(x)), Some(E::R(y))) => (x, y),
        _ => unreachable!(),
    }
}

pub fn current_num_threads() -> usize { 2 }
pub fn current_thread_index() -> Option<usize> { None }

#[derive(Debug)]
pub struct ThreadPoolBuildError;
impl std::fmt::Display for ThreadPoolBuildError {
    fn fmt(&self, f: &mut std::fmt::Formatter<'_>) -> std::fmt::Result { write!(f, "thread pool build error") }
}
impl std::error::Error for ThreadPoolBuildError {}
#[derive(Default)]
pub struct ThreadPoolBuilder;
pub struct ThreadPool;
impl ThreadPoolBuilder {
    pub fn new() -> Self { ThreadPoolBuilder }
    pub fn num_threads(self, _: usize) -> Self { self }
    pub fn thread_name<F: FnMut(usize) -> String + 'static>(self, _: F) -> Self { self }
    pub fn stack_size(self, _: usize) -> Self { self }
    pub fn build_global(self) -> Result<(), ThreadPoolBuildError> { Ok(()) }
    pub fn build(self) -> Result<ThreadPool, ThreadPoolBuildError> { Ok(ThreadPool) }
}
impl ThreadPool {
    pub fn install<R: Send, F: FnOnce() -> R + Send>(&self, f: F) -> R { f() }
    pub fn current_num_threads(&self) -> usize { 2 }
}


/// Worker-pool mode of the scheduler model: W worker threads execute the tasks, so thread-local state persists between the
/// tasks a worker runs, exactly as with rayon's pool. As in rayon, the thread that opens the outermost region is not a
/// worker (it blocks), and a worker that waits for a region it opened executes other tasks on top of its own stack
/// (it can only resume its own task when that stolen work has returned and its region is complete).
/// A schedule is a sequence of actions (start task t on worker w | resume worker w | resume root); every point with more
/// than one enabled action is a recorded choice point, explored by the same stateless DFS as the thread-per-task mode.
pub mod pool {
    use super::*;
    use std::cell::Cell;

    type Job = Box<dyn FnOnce() + Send + 'static>;

    #[derive(Clone, Copy, PartialEq, Eq, Debug)]
    enum Actor {
        Root,
        Worker(usize),
    }
    enum Cmd {
        Run(Job, u32),
        Resume,
        Exit,
    }
    struct Region {
        remaining: usize,
        owner: Actor,
    }
    #[derive(Default)]
    struct State {
        current: Option<Actor>,
        cmds: Vec<Option<Cmd>>,
        /// per worker: regions it is waiting for, innermost last (an empty stack = idle at its base loop)
        waits: Vec<Vec<u32>>,
        /// worker is at a serve loop (not running code)
        serving: Vec<bool>,
        pending: BTreeMap<u32, (u32, Job)>, // task id -> (region, job)
        regions: BTreeMap<u32, Region>,
        root_wait: Option<u32>,
        next_task: u32,
        next_region: u32,
        prefix: Vec<usize>,
        /// what is picked at the choice points after the prefix: 0 = first enabled action, 1 = last, k >= 2 = (k * position + 1) mod n
        policy: usize,
        pos: usize,
        choices: Vec<(usize, usize)>,
        trace: Vec<(u32, u32)>, // (task id, worker) in start order; resume actions are (u32::MAX, worker)
        diverged: Option<String>,
    }

    static STATE: Mutex<Option<State>> = Mutex::new(None);
    static CV: Condvar = Condvar::new();
    thread_local! {
        static WORKER: Cell<Option<usize>> = const { Cell::new(None) };
    }

    pub fn is_active() -> bool {
        STATE.lock().unwrap().is_some()
    }

    #[derive(Clone, Debug, Default)]
    pub struct Outcome {
        pub choices: Vec<(usize, usize)>,
        /// (task, worker) in the order the tasks were started
        pub trace: Vec<(u32, u32)>,
        pub diverged: Option<String>,
    }

    #[derive(Clone, Copy)]
    enum Action {
        Start(u32, usize),
        Resume(usize),
        ResumeRoot,
    }

    /// Called with the lock held by the actor that yields.
    /// The enabled actions are, in canonical order: resume root, resume worker w (ascending), start task t on worker w
    /// (ascending t, then ascending w). They are counted, not materialised: a region may hold tens of thousands of tasks.
    fn pick_next(st: &mut State) {
        let mut resumes: Vec<Action> = Vec::new();
        if let Some(r) = st.root_wait {
            if st.regions.get(&r).map(|x| x.remaining == 0).unwrap_or(true) {
                resumes.push(Action::ResumeRoot);
            }
        }
        let mut serving: Vec<usize> = Vec::new();
        for w in 0..st.waits.len() {
            if st.serving[w] {
                serving.push(w);
                if let Some(r) = st.waits[w].last() {
                    if st.regions.get(r).map(|x| x.remaining == 0).unwrap_or(true) {
                        resumes.push(Action::Resume(w));
                    }
                }
            }
        }
        let n_pending = st.pending.len();
        let total = resumes.len() + n_pending * serving.len();
        if total == 0 {
            st.current = None;
            return;
        }
        let mut pick = 0;
        if total > 1 {
            if st.pos < st.prefix.len() {
                pick = st.prefix[st.pos];
                if pick >= total {
                    st.diverged = Some(format!("choice point {}: prefix asks for alternative {} of {}", st.pos, pick, total));
                    pick = 0;
                }
            } else {
                pick = match st.policy {
                    0 => 0,
                    1 => total - 1,
                    k => (k * st.pos + 1) % total,
                };
            }
            st.pos += 1;
            st.choices.push((pick, total));
        }
        let action = if pick < resumes.len() {
            resumes[pick]
        } else {
            let idx = pick - resumes.len();
            let (ti, w) = (idx / serving.len(), serving[idx % serving.len()]);
            let t = if ti == 0 {
                *st.pending.keys().next().unwrap()
            } else if ti + 1 == n_pending {
                *st.pending.keys().next_back().unwrap()
            } else {
                *st.pending.keys().nth(ti).unwrap()
            };
            Action::Start(t, w)
        };
        match action {
            Action::ResumeRoot => {
                st.root_wait = None;
                st.current = Some(Actor::Root);
            }
            Action::Resume(w) => {
                st.cmds[w] = Some(Cmd::Resume);
                st.serving[w] = false;
                st.current = Some(Actor::Worker(w));
                st.trace.push((u32::MAX, w as u32));
            }
            Action::Start(t, w) => {
                let (_region, job) = st.pending.remove(&t).unwrap();
                st.cmds[w] = Some(Cmd::Run(job, t));
                st.serving[w] = false;
                st.current = Some(Actor::Worker(w));
                st.trace.push((t, w as u32));
            }
        }
    }

    /// The loop every worker sits in when it is not running code: at its base, and inside every wait for a region it opened.
    fn serve(w: usize, until: Option<u32>) {
        loop {
            let cmd = {
                let mut g = STATE.lock().unwrap();
                loop {
                    let st = g.as_mut().unwrap();
                    if st.current == Some(Actor::Worker(w)) && st.cmds[w].is_some() {
                        break st.cmds[w].take().unwrap();
                    }
                    g = CV.wait(g).unwrap();
                }
            };
            match cmd {
                Cmd::Exit => return,
                Cmd::Resume => {
                    let mut g = STATE.lock().unwrap();
                    let st = g.as_mut().unwrap();
                    let top = st.waits[w].pop();
                    assert_eq!(top, until, "resume of a wait that is not innermost");
                    return; // continue the task that opened the region (this worker keeps the baton)
                }
                Cmd::Run(job, _t) => {
                    job(); // may open nested regions (re-entering serve on this stack)
                    let mut g = STATE.lock().unwrap();
                    let st = g.as_mut().unwrap();
                    st.serving[w] = true;
                    pick_next(st);
                    CV.notify_all();
                }
            }
        }
    }

    pub(crate) fn run_region<'a, T: Send + 'a>(thunks: Vec<Thunk<'a, T>>) -> (Vec<Option<T>>, Vec<usize>) {
        let n = thunks.len();
        let results: Arc<Mutex<Vec<Option<Option<T>>>>> = Arc::new(Mutex::new((0..n).map(|_| None).collect()));
        let order: Arc<Mutex<Vec<usize>>> = Arc::new(Mutex::new(Vec::new()));
        let panic_slot: Arc<Mutex<Option<Box<dyn Any + Send>>>> = Arc::new(Mutex::new(None));
        let me = WORKER.with(|w| w.get());
        let region;
        {
            let mut g = STATE.lock().unwrap();
            let st = g.as_mut().unwrap();
            region = st.next_region;
            st.next_region += 1;
            st.regions.insert(region, Region { remaining: n, owner: me.map(Actor::Worker).unwrap_or(Actor::Root) });
            for (i, t) in thunks.into_iter().enumerate() {
                let (results, order, panic_slot) = (results.clone(), order.clone(), panic_slot.clone());
                let job: Box<dyn FnOnce() + Send + 'a> = Box::new(move || {
                    order.lock().unwrap().push(i);
                    match catch_unwind(AssertUnwindSafe(t)) {
                        Ok(v) => results.lock().unwrap()[i] = Some(v),
                        Err(p) => {
                            let mut ps = panic_slot.lock().unwrap();
                            if ps.is_none() {
                                *ps = Some(p);
                            }
                        }
                    }
                    let mut g = STATE.lock().unwrap();
                    let st = g.as_mut().unwrap();
                    st.regions.get_mut(&region).unwrap().remaining -= 1;
                });
                // SAFETY (same argument as rayon's StackJob): the opener does not return from this function before
                // every job of the region has run to completion, so everything the job borrows outlives it.
                let job: Job = unsafe { std::mem::transmute::<Box<dyn FnOnce() + Send + 'a>, Job>(job) };
                let id = st.next_task;
                st.next_task += 1;
                st.pending.insert(id, (region, job));
            }
            match me {
                Some(w) => {
                    st.waits[w].push(region);
                    st.serving[w] = true;
                }
                None => st.root_wait = Some(region),
            }
            pick_next(st);
            CV.notify_all();
        }
        match me {
            Some(w) => serve(w, Some(region)),
            None => {
                let mut g = STATE.lock().unwrap();
                while g.as_ref().unwrap().current != Some(Actor::Root) {
                    g = CV.wait(g).unwrap();
                }
            }
        }
        STATE.lock().unwrap().as_mut().unwrap().regions.remove(&region);
        if let Some(p) = panic_slot.lock().unwrap().take() {
            resume_unwind(p);
        }
        let res = std::mem::take(&mut *results.lock().unwrap()).into_iter().map(|r| r.expect("task result")).collect();
        let ord = order.lock().unwrap().clone();
        (res, ord)
    }

    /// Run `f` on the calling thread (the root, not a worker) with `workers` fresh worker threads, replaying `prefix`.
    pub fn run<R>(prefix: &[usize], workers: usize, f: impl FnOnce() -> R) -> (R, Outcome) {
        run_policy(prefix, workers, 0, f)
    }

    /// As `run`, with a fixed rule for the choice points after the prefix (see State::policy): the way to drive regions of
    /// thousands of tasks, where the schedule tree cannot be enumerated, through a stated family of schedules.
    pub fn run_policy<R>(prefix: &[usize], workers: usize, policy: usize, f: impl FnOnce() -> R) -> (R, Outcome) {
        {
            let mut g = STATE.lock().unwrap();
            assert!(g.is_none(), "nested pool::run");
            *g = Some(State { current: Some(Actor::Root), cmds: (0..workers).map(|_| None).collect(), waits: vec![vec![]; workers], serving: vec![true; workers], prefix: prefix.to_vec(), policy, ..Default::default() });
        }
        let r = std::thread::scope(|s| {
            for w in 0..workers {
                // a waiting worker runs other tasks on top of its stack: nesting can get as deep as a region is long
                std::thread::Builder::new().stack_size(1 << 30).spawn_scoped(s, move || {
                    WORKER.with(|c| c.set(Some(w)));
                    serve(w, None);
                }).expect("spawn worker");
            }
            let r = catch_unwind(AssertUnwindSafe(f));
            // shut the workers down
            for w in 0..workers {
                let mut g = STATE.lock().unwrap();
                let st = g.as_mut().unwrap();
                st.cmds[w] = Some(Cmd::Exit);
                st.current = Some(Actor::Worker(w));
                CV.notify_all();
                drop(g);
                // wait until the worker has taken the command
                loop {
                    let g = STATE.lock().unwrap();
                    if g.as_ref().unwrap().cmds[w].is_none() {
                        break;
                    }
                    drop(g);
                    std::thread::yield_now();
                }
            }
            r
        });
        let st = STATE.lock().unwrap().take().unwrap();
        let mut out = Outcome { choices: st.choices, trace: st.trace, diverged: st.diverged };
        if st.pos < st.prefix.len() && out.diverged.is_none() {
            out.diverged = Some(format!("only {} choice points met, prefix has {}", st.pos, st.prefix.len()));
        }
        match r {
            Ok(v) => (v, out),
            Err(p) => resume_unwind(p),
        }
    }
}
