#[test]
fn genesis_blocks() {
    for c in refmodel::coins::COINS.iter() {
        let g = refmodel::coins::genesis(c);
        println!("{} {}", c.name, g.is_some());
        if c.name != "noteblockchain" { assert!(g.is_some(), "{}", c.name); }
    }
    refmodel::addr::self_test().unwrap();
}
