//! Coin table and reconstructed genesis blocks (self-validated against the published hashes).
use crate::hash::H256;
use crate::ser::{hash_from_hex_display, unhex, Block, Tx, TxIn, TxOut};

#[derive(Debug)]
pub struct Coin {
    pub name: &'static str,
    pub magic: u32,
    pub version_id: u8,
    pub p2sh_version: u8,
    pub hrp: Option<&'static str>,
    pub auxpow_from: Option<u32>,
    pub genesis_hash: &'static str,
}

pub static COINS: [Coin; 8] = [
    Coin { name: "bitcoin", magic: 0xd9b4bef9, version_id: 0x00, p2sh_version: 0x05, hrp: Some("bc"), auxpow_from: None, genesis_hash: "000000000019d6689c085ae165831e934ff763ae46a2a6c172b3f1b60a8ce26f" },
    Coin { name: "testnet3", magic: 0x0709110b, version_id: 0x6f, p2sh_version: 0xc4, hrp: Some("tb"), auxpow_from: None, genesis_hash: "000000000933ea01ad0ee984209779baaec3ced90fa3f408719526f8d77f4943" },
    Coin { name: "namecoin", magic: 0xfeb4bef9, version_id: 0x34, p2sh_version: 0x05, hrp: None, auxpow_from: Some(0x10101), genesis_hash: "000000000062b72c5e2ceb45fbc8587e807c155b0da735e6483dfba2f0a9c770" },
    Coin { name: "litecoin", magic: 0xdbb6c0fb, version_id: 0x30, p2sh_version: 0x05, hrp: None, auxpow_from: None, genesis_hash: "12a765e31ffd4059bada1e25190f6e98c99d9714d334efa41a195a7e7e04bfe2" },
    Coin { name: "dogecoin", magic: 0xc0c0c0c0, version_id: 0x1e, p2sh_version: 0x05, hrp: None, auxpow_from: Some(0x620102), genesis_hash: "1a91e3dace36e2be3bf030a65679fe821aa1d6ef92e7c9902eb318182c355691" },
    Coin { name: "myriadcoin", magic: 0xee7645af, version_id: 0x32, p2sh_version: 0x05, hrp: None, auxpow_from: None, genesis_hash: "00000ffde4c020b5938441a0ea3d314bf619eff0b38f32f78f7583cffa1ea485" },
    Coin { name: "unobtanium", magic: 0x03b5d503, version_id: 0x82, p2sh_version: 0x05, hrp: None, auxpow_from: None, genesis_hash: "000004c2fc5fffb810dccc197d603690099a68305232e552d96ccbe8e2c52b75" },
    Coin { name: "noteblockchain", magic: 0xe3ede5f4, version_id: 0x35, p2sh_version: 0x05, hrp: None, auxpow_from: None, genesis_hash: "270f3e7b185c412d57ba913d10658df54f15201a67d736cb4071a4ec4eb54836" },
];

pub fn coin(name: &str) -> &'static Coin {
    COINS.iter().find(|c| c.name == name).unwrap_or_else(|| panic!("unknown coin {}", name))
}

impl Coin {
    pub fn is_bitcoin_family(&self) -> bool {
        self.version_id == 0x00 || self.version_id == 0x6f
    }
    pub fn genesis_hash_bytes(&self) -> H256 {
        hash_from_hex_display(self.genesis_hash)
    }
}

const KEY_BTC: &str = "04678afdb0fe5548271967f1a67130b7105cd6a828e03909a67962e0ea1f61deb649f6bc3f4cef38c4f35504e51ec112de5c384df7ba0b8d578a4c702b6bf11d5f";
const KEY_LTC: &str = "040184710fa689ad5023690c80f3a49c8f13f8d45b8c857fbcbc8bc4a8e4d3eb4b10f4d4604fa08dce601aaf0f470216fe1b51850b4acf21b179c45070ac7b03a9";
const KEY_NMC: &str = "04b620369050cd899ffbbc4e8ee51e8c4534a855bb463439d63d235d4779685d8b6f4870a238cf365ac94fa13ef9a2a22cd99d0d5ee86dcabcafce36c7acf43ce5";
const KEY_XMY: &str = "04e941763c7750969e751bee1ffbe96a651a0feb131db046546c219ea40bff40b95077dc9ba1c05af991588772d8daabbda57386c068fb9bc7477c5e28702d5eb9";

fn push(data: &[u8]) -> Vec<u8> {
    let mut v = Vec::new();
    if data.len() < 76 {
        v.push(data.len() as u8);
    } else {
        v.push(0x4c);
        v.push(data.len() as u8);
    }
    v.extend_from_slice(data);
    v
}

fn mk(version: u32, sig_prefix: &str, text: &[u8], key: &str, value: u64, time: u32, bits: u32, nonce: u32) -> Block {
    let mut sig = unhex(sig_prefix);
    sig.extend(push(text));
    let mut spk = push(&unhex(key));
    spk.push(0xac);
    let tx = Tx { version: 1, segwit: false, inputs: vec![TxIn::coinbase(sig)], outputs: vec![TxOut { value, script: spk }], locktime: 0, wide: 0 };
    Block::build(version, [0u8; 32], time, bits, nonce, vec![tx])
}

/// The coin's real genesis block, if it could be reconstructed (hash equals the published constant).
pub fn genesis(c: &Coin) -> Option<Block> {
    const COIN: u64 = 100_000_000;
    let times = b"The Times 03/Jan/2009 Chancellor on brink of second bailout for banks";
    let b = match c.name {
        "bitcoin" => mk(1, "04ffff001d0104", times, KEY_BTC, 50 * COIN, 1231006505, 0x1d00ffff, 2083236893),
        "testnet3" => mk(1, "04ffff001d0104", times, KEY_BTC, 50 * COIN, 1296688602, 0x1d00ffff, 414098458),
        "litecoin" => mk(1, "04ffff001d0104", "NY Times 05/Oct/2011 Steve Jobs, Apple\u{2019}s Visionary, Dies at 56".as_bytes(), KEY_LTC, 50 * COIN, 1317972665, 0x1e0ffff0, 2084524493),
        "dogecoin" => mk(1, "04ffff001d0104", b"Nintondo", KEY_LTC, 88 * COIN, 1386325540, 0x1e0ffff0, 99943),
        "namecoin" => mk(1, "04ff7f001c020a02", b"... choose what comes next.  Lives of your own, or a return to chains. -- V", KEY_NMC, 50 * COIN, 1303000001, 0x1c007fff, 0xa21ea192),
        "myriadcoin" => mk(2, "04ffff001d0104", b"2014-02-23 FT - G20 aims to add $2tn to global economy", KEY_XMY, 1000 * COIN, 1393164995, 0x1e0fffff, 2092903596),
        "unobtanium" => mk(1, "04ffff001d0104", b"San Francisco plaza evacuated after suspicious package is found", KEY_BTC, COIN, 1375548986, 0x1e0fffff, 1211565),
        _ => return None,
    };
    if b.hash() == c.genesis_hash_bytes() {
        Some(b)
    } else {
        None
    }
}
