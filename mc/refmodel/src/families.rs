//! Exhaustively enumerated script families (C05, C06, C14, C16). Each shard is a complete enumeration of its family.
use crate::script::*;

pub struct Shard {
    pub name: String,
    pub scripts: Vec<Vec<u8>>,
}

fn payloads(n: usize) -> Vec<Vec<u8>> {
    vec![vec![0u8; n], vec![0xff; n], (0..n).map(|i| (i + 1) as u8).collect()]
}

/// every single-byte substitution, every truncation, every one-byte extension (front and back)
pub fn mutations(base: &[u8], substitute: bool) -> Vec<Vec<u8>> {
    let mut v = vec![base.to_vec()];
    if substitute {
        for pos in 0..base.len() {
            for b in 0..=255u8 {
                if b != base[pos] {
                    let mut s = base.to_vec();
                    s[pos] = b;
                    v.push(s);
                }
            }
        }
    }
    for cut in 0..base.len() {
        v.push(base[..cut].to_vec());
    }
    for b in 0..=255u8 {
        let mut s = base.to_vec();
        s.push(b);
        v.push(s);
        let mut s = vec![b];
        s.extend_from_slice(base);
        v.push(s);
    }
    v
}

/// Family 1: all byte strings of length 0, 1 and 2.
pub fn short_scripts() -> Shard {
    let mut v = vec![vec![]];
    for a in 0..=255u8 {
        v.push(vec![a]);
    }
    for a in 0..=255u8 {
        for b in 0..=255u8 {
            v.push(vec![a, b]);
        }
    }
    Shard { name: "all-scripts-len<=2".into(), scripts: v }
}

/// P2PK scripts over the secp256k1 generator point in every encoding a library may treat specially: compressed (02),
/// uncompressed (04), hybrid with the matching parity prefix (06: libsecp256k1 accepts it and re-serialises it as 04),
/// hybrid with the wrong parity (07), compressed with the wrong parity (03: the other y, also a valid point).
pub fn generator_key_scripts() -> Vec<(String, Vec<u8>)> {
    let gx = crate::ser::unhex("79be667ef9dcbbac55a06295ce870b07029bfcdb2dce28d959f2815b16f81798");
    let gy = crate::ser::unhex("483ada7726a3c4655da4fbfc0e1108a8fd17b448a68554199c47d08ffb10d4b8");
    let mut v = Vec::new();
    for (name, prefix, full) in [("g02", 0x02u8, false), ("g03", 0x03, false), ("g04", 0x04, true), ("g06-hybrid", 0x06, true), ("g07-hybrid", 0x07, true)] {
        let mut k = vec![prefix];
        k.extend_from_slice(&gx);
        if full {
            k.extend_from_slice(&gy);
        }
        v.push((format!("p2pk-{}", name), p2pk(&k)));
    }
    v
}

pub fn bitcoin_templates() -> Vec<(String, Vec<u8>)> {
    let mut t: Vec<(String, Vec<u8>)> = Vec::new();
    for (pi, p) in payloads(65).into_iter().enumerate() {
        let mut k33 = p[..33].to_vec();
        k33[0] = 0x02;
        let mut k65 = p.clone();
        k65[0] = 0x04;
        let mut h = [0u8; 20];
        h.copy_from_slice(&p[..20]);
        t.push((format!("p2pk33/{}", pi), p2pk(&k33)));
        t.push((format!("p2pk65/{}", pi), p2pk(&k65)));
        t.push((format!("p2pkh/{}", pi), p2pkh(&h)));
        t.push((format!("p2sh/{}", pi), p2sh(&h)));
        t.push((format!("p2wpkh/{}", pi), witness(0, &p[..20])));
        t.push((format!("p2wsh/{}", pi), witness(0, &p[..32])));
        t.push((format!("p2tr/{}", pi), witness(1, &p[..32])));
    }
    let (ka, kb, kc) = (key33(1), key65(2), key33(3));
    for m in 1..=3u8 {
        for n in m..=3u8 {
            let keys: Vec<&[u8]> = [&ka[..], &kb[..], &kc[..]][..n as usize].to_vec();
            t.push((format!("multisig{}of{}", m, n), multisig(m, &keys, n)));
        }
    }
    for form in [0u8, 1, 2, 4] {
        let mut s = vec![0x6a];
        s.extend(push_with(form, b"hello world"));
        t.push((format!("opreturn/form{}", form), s));
    }
    t.extend(generator_key_scripts());
    t
}

pub fn fork_templates() -> Vec<(String, Vec<u8>)> {
    let mut t: Vec<(String, Vec<u8>)> = Vec::new();
    for (pi, p) in payloads(65).into_iter().enumerate() {
        let mut k65 = p.clone();
        k65[0] = 0x04;
        let mut k33 = p[..33].to_vec();
        k33[0] = 0x03;
        let mut h = [0u8; 20];
        h.copy_from_slice(&p[..20]);
        t.push((format!("p2pk65/{}", pi), p2pk(&k65)));
        t.push((format!("p2pk33/{}", pi), p2pk(&k33)));
        t.push((format!("p2pkh/{}", pi), p2pkh(&h)));
        t.push((format!("p2sh/{}", pi), p2sh(&h)));
    }
    let (ka, kb, kc) = (key33(1), key65(2), key33(3));
    t.push(("multisig2of3".into(), multisig(2, &[&ka, &kb, &kc], 3)));
    t.push(("opreturn".into(), op_return(b"hello world")));
    t.extend(generator_key_scripts());
    t
}

/// Family 2: every template instance with all substitutions / truncations / extensions.
pub fn template_mutations(templates: &[(String, Vec<u8>)]) -> Vec<Shard> {
    templates.iter().map(|(n, s)| Shard { name: format!("mutations-of-{}", n), scripts: mutations(s, true) }).collect()
}

/// Templates in company: every template instance behind a prefix or in front of a suffix drawn from a small grammar of
/// what real chains put there: `OP_k <0..3 pushes> <0..2 of OP_DROP / OP_2DROP>` (Namecoin's name operations are
/// OP_1 <hash> OP_2DROP, OP_2 <name> <rand> <value> OP_2DROP OP_2DROP, OP_3 <name> <value> OP_2DROP OP_DROP), a number
/// followed by CHECKLOCKTIMEVERIFY / CHECKSEQUENCEVERIFY and OP_DROP, OP_DUP, OP_IF; suffixes OP_DROP, OP_2DROP, OP_VERIFY,
/// OP_1, OP_CODESEPARATOR, OP_ENDIF, OP_CHECKSIG, a push.
pub fn decorated_templates(templates: &[(String, Vec<u8>)]) -> Shard {
    let mut prefixes: Vec<Vec<u8>> = Vec::new();
    let drops: Vec<Vec<u8>> = vec![vec![], vec![0x75], vec![0x6d], vec![0x6d, 0x6d], vec![0x6d, 0x75], vec![0x75, 0x6d], vec![0x75, 0x75]];
    let datas: [Vec<u8>; 3] = [push_direct(b"d/example"), push_direct(&filler(5, 20)), push_direct(b"{\"ip\":\"1.2.3.4\"}")];
    for op in [0x00u8, 0x4f, 0x51, 0x52, 0x53, 0x60] {
        for n_data in 0..=3usize {
            for d in &drops {
                if n_data == 0 && d.is_empty() && op == 0 {
                    continue;
                }
                let mut p = vec![op];
                for k in 0..n_data {
                    p.extend_from_slice(&datas[k]);
                }
                p.extend_from_slice(d);
                prefixes.push(p);
            }
        }
    }
    for lock in [&[0x03u8, 0x40, 0x42, 0x0f][..], &[0x04, 0x00, 0x65, 0xcd, 0x1d][..], &[0x51][..]] {
        for op in [0xb1u8, 0xb2] {
            let mut p = lock.to_vec();
            p.push(op);
            p.push(0x75);
            prefixes.push(p);
        }
    }
    prefixes.push(vec![0x76]);
    prefixes.push(vec![0x63]);
    prefixes.push(vec![0x75]);
    prefixes.push(vec![0x6d]);
    let suffixes: Vec<Vec<u8>> = vec![vec![0x75], vec![0x6d], vec![0x69], vec![0x51], vec![0xab], vec![0x68], vec![0xac], push_direct(&filler(6, 20)), vec![0x6a], vec![0x87]];
    let mut v: Vec<Vec<u8>> = Vec::new();
    for (name, t) in templates {
        // one instance per template kind is enough here (the payload patterns are swept by the mutation family)
        if name.ends_with("/1") || name.ends_with("/2") || name.starts_with("p2pk-g") {
            continue;
        }
        for p in &prefixes {
            let mut x = p.clone();
            x.extend_from_slice(t);
            v.push(x);
        }
        for sfx in &suffixes {
            let mut x = t.clone();
            x.extend_from_slice(sfx);
            v.push(x);
        }
    }
    v.sort();
    v.dedup();
    Shard { name: "decorated-templates".into(), scripts: v }
}

/// witness version x program length grid with truncations / extensions
pub fn witness_grid() -> Shard {
    let mut v = Vec::new();
    for ver in 0..=16u8 {
        for len in 2..=40usize {
            let base = witness(ver, &filler(ver.wrapping_mul(3).wrapping_add(len as u8), len));
            v.extend(mutations(&base, false));
        }
    }
    Shard { name: "witness-version-x-length-grid".into(), scripts: v }
}

/// Family 3: witness lookalikes: any version opcode x push opcode 0x00..0x4e x payload length off by -1/0/+1.
pub fn witness_lookalikes() -> Shard {
    let mut v = Vec::new();
    for ver in 0..=255u8 {
        for pushop in 0..=0x4eu8 {
            let declared: usize = match pushop {
                0x4c..=0x4e => 20,
                n => n as usize,
            };
            for actual in [declared.wrapping_sub(1), declared, declared + 1] {
                if actual > 100 {
                    continue;
                }
                let mut s = vec![ver, pushop];
                match pushop {
                    0x4c => s.push(declared as u8),
                    0x4d => s.extend_from_slice(&(declared as u16).to_le_bytes()),
                    0x4e => s.extend_from_slice(&(declared as u32).to_le_bytes()),
                    _ => {}
                }
                s.extend(filler(ver ^ pushop, actual));
                v.push(s);
            }
        }
    }
    Shard { name: "witness-lookalikes".into(), scripts: v }
}

/// Family 4: multisig lookalikes.
pub fn multisig_lookalikes(max_keys: usize) -> Shard {
    let mut v = Vec::new();
    let num = |n: u8| -> u8 {
        if n == 0 {
            0x00
        } else {
            0x50 + n
        }
    };
    for m in 0..=16u8 {
        for k in 0..=max_keys {
            for n in 0..=16u8 {
                for keylen in [0usize, 1, 33, 65] {
                    for term in [0xaeu8, 0xaf, 0xac] {
                        for trailing in [None, Some(0x75u8), Some(0xae)] {
                            let mut s = vec![num(m)];
                            for i in 0..k {
                                s.extend(push_minimal(&filler(i as u8 + 1, keylen)));
                            }
                            s.push(num(n));
                            s.push(term);
                            if let Some(t) = trailing {
                                s.push(t);
                            }
                            v.push(s);
                        }
                    }
                }
            }
        }
    }
    // keys followed by an opcode that is not a number (missing n)
    for m in 1..=3u8 {
        for k in 1..=3usize {
            for op in [0x76u8, 0xac, 0x61, 0x87, 0xae, 0x00, 0x4f] {
                let mut s = vec![0x50 + m];
                for i in 0..k {
                    s.extend(push_minimal(&key33(i as u8)));
                }
                s.push(op);
                s.push(0xae);
                v.push(s);
            }
        }
    }
    Shard { name: format!("multisig-lookalikes-upto-{}-keys", max_keys), scripts: v }
}

/// Multisig shapes by key count: every count 0..=20 (the valid n = 1..16 with m in {1, n} among them) and counts around the
/// widths of a byte-sized key counter (255, 256, 257, 256 + n, 512 + n): `OP_m <k keys> OP_n OP_CHECKMULTISIG` where n is the
/// true count, the count modulo 256, or 16. Only k = n <= 16 is a multisig script.
pub fn multisig_by_key_count() -> Shard {
    let mut v = Vec::new();
    let num = |n: usize| -> u8 { if n == 0 { 0x00 } else { 0x50 + n as u8 } };
    let mut counts: Vec<usize> = (0..=20).collect();
    counts.extend([100usize, 254, 255, 256, 257, 258, 271, 272, 273, 511, 512, 513, 528, 768, 1025]);
    for k in counts {
        for keylen in [1usize, 33] {
            if keylen == 33 && k > 300 {
                continue;
            }
            let mut ns: Vec<usize> = vec![16, 1];
            if k <= 16 {
                ns.push(k);
            }
            if k % 256 <= 16 {
                ns.push(k % 256);
            }
            ns.sort();
            ns.dedup();
            for n in ns {
                for m in [1usize, 16, n.max(1).min(16)] {
                    let mut s = vec![num(m)];
                    for i in 0..k {
                        s.extend(push_minimal(&filler((i % 250) as u8 + 1, keylen)));
                    }
                    s.push(num(n));
                    s.push(0xae);
                    v.push(s);
                }
            }
        }
    }
    v.sort();
    v.dedup();
    Shard { name: "multisig-by-key-count".into(), scripts: v }
}

pub fn token_alphabet() -> Vec<Vec<u8>> {
    let mut pd1 = vec![0x4c, 20];
    pd1.extend(filler(9, 20));
    vec![
        vec![0x00],
        vec![0x51],
        vec![0x52],
        vec![0x53],
        vec![0x60],
        vec![0x4f],
        push_direct(&filler(1, 20)),
        push_direct(&filler(2, 32)),
        push_direct(&key33(3)),
        push_direct(&key65(4)),
        pd1,
        vec![0x76],
        vec![0xa9],
        vec![0x87],
        vec![0x88],
        vec![0xac],
        vec![0xae],
        vec![0x6a],
        vec![0x61],
        vec![0x50],
        vec![0xff],
    ]
}

/// Family 5: all token sequences up to `max_len` over the 21-token alphabet, sharded by first token.
pub fn token_sequences(max_len: usize) -> Vec<Shard> {
    let alpha = token_alphabet();
    let mut shards = Vec::new();
    for (fi, first) in alpha.iter().enumerate() {
        let mut v: Vec<Vec<u8>> = vec![first.clone()];
        let mut frontier: Vec<Vec<u8>> = vec![first.clone()];
        for _ in 1..max_len {
            let mut next = Vec::with_capacity(frontier.len() * alpha.len());
            for s in &frontier {
                for t in &alpha {
                    let mut x = s.clone();
                    x.extend_from_slice(t);
                    next.push(x);
                }
            }
            v.extend(next.iter().cloned());
            frontier = next;
        }
        shards.push(Shard { name: format!("token-sequences<={}-first#{}", max_len, fi), scripts: v });
    }
    shards
}

pub const PUSH_LENS: [usize; 15] = [0, 1, 19, 20, 21, 33, 65, 75, 76, 80, 255, 256, 520, 65_535, 65_536];

/// Text in which a multi-byte character straddles EVERY byte offset up to `len` in at least one member: an ASCII prefix of
/// k bytes followed by a run of n-byte characters, for n = 2, 3, 4 and k = 0..n (a cut at a fixed byte index - "the first 80
/// bytes", "at most 128" - falls inside a character in one of them whatever the index is).
pub fn utf8_alignment_payloads(len: usize) -> Vec<(String, Vec<u8>)> {
    let mut v = Vec::new();
    for (n, ch) in [(2usize, "é"), (3, "七"), (4, "🐟")] {
        for k in 0..n {
            let mut t = "a".repeat(k);
            while t.len() + n <= len {
                t.push_str(ch);
            }
            v.push((format!("utf8-{}byte-chars-behind-{}-ascii", n, k), t.into_bytes()));
        }
    }
    v
}

/// every push encoding able to carry `len` bytes: (form name, encoded push)
pub fn push_forms(d: &[u8]) -> Vec<(&'static str, Vec<u8>)> {
    let mut v = Vec::new();
    if d.len() <= 75 && !d.is_empty() {
        v.push(("direct", push_with(0, d)));
    }
    if d.is_empty() {
        v.push(("op_0", vec![0x00]));
    }
    if d.len() <= 0xff {
        v.push(("pushdata1", push_with(1, d)));
    }
    if d.len() <= 0xffff {
        v.push(("pushdata2", push_with(2, d)));
    }
    v.push(("pushdata4", push_with(4, d)));
    v
}

/// C06 family: every push encoding for every template data slot x payload lengths x truncation points,
/// NOP insertion at every token boundary, huge PUSHDATA lengths.
pub fn fork_push_family(big_hash_slots: bool) -> Vec<Shard> {
    let mut shards = Vec::new();
    // slot templates: prefix, suffix
    let slots: Vec<(&str, Vec<u8>, Vec<u8>)> = vec![
        ("p2pkh", vec![0x76, 0xa9], vec![0x88, 0xac]),
        ("p2pk", vec![], vec![0xac]),
        ("p2sh", vec![0xa9], vec![0x87]),
        ("opreturn", vec![0x6a], vec![]),
    ];
    for (name, pre, suf) in &slots {
        let mut v = Vec::new();
        for &len in PUSH_LENS.iter() {
            // Base58 of a 64 KiB payload is quadratic (seconds per script, in the subject and in the model):
            // the hash slots get one such instance only, the key / data slots get all of them
            if len > 520 && (*name == "p2pkh" || *name == "p2sh") && (len != 65_536 || !big_hash_slots) {
                continue;
            }
            let d = filler(len as u8, len);
            for (fi, (_form, enc)) in push_forms(&d).into_iter().enumerate() {
                if len > 520 && (*name == "p2pkh" || *name == "p2sh") && fi > 0 {
                    continue;
                }
                let mut s = pre.clone();
                s.extend_from_slice(&enc);
                s.extend_from_slice(suf);
                // truncation points inside the push: length bytes missing, payload short by 1, by all
                let hdr = enc.len() - len;
                for cut in (pre.len()..=pre.len() + hdr).chain([pre.len() + enc.len() - 1].into_iter()) {
                    if cut < s.len() {
                        v.push(s[..cut].to_vec());
                        // truncated push followed by the suffix (push swallows the suffix / runs past the end)
                        let mut t = s[..cut].to_vec();
                        t.extend_from_slice(suf);
                        v.push(t);
                    }
                }
                v.push(s);
            }
        }
        // huge declared lengths
        for lenfield in [0x7fff_ffffu32, 0xffff_ffff, 0x0100_0000] {
            let mut s = pre.clone();
            s.push(0x4e);
            s.extend_from_slice(&lenfield.to_le_bytes());
            s.extend_from_slice(&[1, 2, 3]);
            s.extend_from_slice(suf);
            v.push(s);
        }
        let mut s = pre.clone();
        s.extend_from_slice(&[0x4d, 0xff, 0xff, 1, 2, 3]);
        s.extend_from_slice(suf);
        v.push(s);
        shards.push(Shard { name: format!("push-encodings-in-{}-slot", name), scripts: v });
    }
    // multisig 2-of-3 slots
    let mut v = Vec::new();
    for &len in &[0usize, 1, 33, 65, 75, 76, 255, 256] {
        let d = filler(len as u8, len);
        for (_f, enc) in push_forms(&d) {
            for slot in 0..3 {
                let mut s = vec![0x52];
                for i in 0..3 {
                    if i == slot {
                        s.extend_from_slice(&enc);
                    } else {
                        s.extend(push_direct(&key33(i as u8)));
                    }
                }
                s.extend_from_slice(&[0x53, 0xae]);
                v.push(s);
            }
        }
    }
    shards.push(Shard { name: "push-encodings-in-multisig-slots".into(), scripts: v });
    // NOP insertion at every token boundary of every template
    let mut v = Vec::new();
    let (ka, kb, kc) = (key33(1), key65(2), key33(3));
    let tpls: Vec<Vec<Vec<u8>>> = vec![
        vec![vec![0x76], vec![0xa9], push_direct(&filler(1, 20)), vec![0x88], vec![0xac]],
        vec![push_direct(&key65(7)), vec![0xac]],
        vec![vec![0xa9], push_direct(&filler(2, 20)), vec![0x87]],
        vec![vec![0x6a], push_direct(b"data")],
        vec![vec![0x52], push_direct(&ka), push_direct(&kb), push_direct(&kc), vec![0x53], vec![0xae]],
    ];
    for toks in &tpls {
        for nop in [0x61u8, 0xb0, 0xb3, 0xb4, 0xb5, 0xb6, 0xb7, 0xb8, 0xb9] {
            for at in 0..=toks.len() {
                for reps in [1usize, 3] {
                    let mut s = Vec::new();
                    for (i, t) in toks.iter().enumerate() {
                        if i == at {
                            s.extend(std::iter::repeat(nop).take(reps));
                        }
                        s.extend_from_slice(t);
                    }
                    if at == toks.len() {
                        s.extend(std::iter::repeat(nop).take(reps));
                    }
                    v.push(s);
                }
            }
            // a non-NOP opcode at the same places must break the template
            for at in 0..=toks.len() {
                let mut s = Vec::new();
                for (i, t) in toks.iter().enumerate() {
                    if i == at {
                        s.push(0x75);
                    }
                    s.extend_from_slice(t);
                }
                if at == toks.len() {
                    s.push(0x75);
                }
                v.push(s);
            }
        }
    }
    shards.push(Shard { name: "nop-insertion".into(), scripts: v });
    shards
}

/// Templates far beyond standardness limits (520-byte elements, 10 000-byte scripts): still templates for the reference rules.
pub fn long_templates() -> Shard {
    let mut v = Vec::new();
    for n in [517usize, 520, 521, 9_996, 9_997, 10_000, 10_001, 12_000, 70_000] {
        let mut s = vec![0x6a];
        s.extend(push_minimal(&vec![b'q'; n]));
        v.push(s);
        let mut s = push_minimal(&filler(n as u8, n));
        s.push(0xac);
        v.push(s);
    }
    for nops in [1usize, 495, 496, 497, 9_974, 9_975, 9_976, 9_977, 20_000] {
        for tpl in [p2pkh(&h20(1)), p2sh(&h20(2)), p2pk(&key33(3)), op_return(b"x")] {
            let mut s = vec![0x61; nops];
            s.extend_from_slice(&tpl);
            v.push(s);
            let mut s = tpl.clone();
            s.extend(std::iter::repeat(0xb0).take(nops));
            v.push(s);
        }
    }
    Shard { name: "long-templates".into(), scripts: v }
}

/// Count sweeps: every template kind with N further tokens in front of it or behind it, for EVERY N in 1..=600 and around
/// 1024, 4096 and 65536, the tokens being OP_0, OP_1, OP_DROP, OP_NOP, OP_NOP1 or a one-byte push - whatever counts tokens,
/// bytes or stack elements in a narrow integer, a byte of a packed word or a fixed-size table gets every count it could wrap at.
pub fn count_sweeps(templates: &[(String, Vec<u8>)]) -> Shard {
    let mut v: Vec<Vec<u8>> = Vec::new();
    let mut counts: Vec<usize> = (1..=600).collect();
    counts.extend([1023usize, 1024, 1025, 4095, 4096, 4097, 65_535, 65_536, 65_537]);
    let fillers: [&[u8]; 6] = [&[0x00], &[0x51], &[0x75], &[0x61], &[0xb0], &[0x01, 0x07]];
    for (name, t) in templates {
        if name.ends_with("/1") || name.ends_with("/2") || name.starts_with("p2pk-g") {
            continue;
        }
        for f in fillers {
            for &n in &counts {
                let fill: Vec<u8> = f.iter().cloned().cycle().take(f.len() * n).collect();
                let mut x = t.clone();
                x.extend_from_slice(&fill);
                v.push(x);
                let mut y = fill;
                y.extend_from_slice(t);
                v.push(y);
            }
        }
    }
    Shard { name: "count-sweeps".into(), scripts: v }
}

/// History dependence: `n` DISTINCT standard scripts (P2PKH / P2SH / P2PK / P2WPKH / OP_RETURN, the counter in the hash,
/// key or payload) meant to be evaluated one after the other by ONE thread, with the first 2000 of them evaluated again after
/// every 50 000: the result for a script must not depend on what the thread has evaluated before (memo tables, ring
/// caches, fingerprints that collide only among very many scripts).
pub fn history_scripts(n: usize) -> Shard {
    let mut v: Vec<Vec<u8>> = Vec::with_capacity(n + n / 25 + 2000);
    let make = |i: usize| -> Vec<u8> {
        let mut h = [0u8; 20];
        h[..8].copy_from_slice(&(i as u64).wrapping_mul(0x9e37_79b9_7f4a_7c15).to_le_bytes());
        h[12..20].copy_from_slice(&(i as u64).to_be_bytes());
        match i % 5 {
            0 => p2pkh(&h),
            1 => p2sh(&h),
            2 => {
                let mut k = vec![0x02u8];
                k.extend_from_slice(&h);
                k.extend_from_slice(&h[..12]);
                p2pk(&k)
            }
            3 => witness(0, &h),
            _ => op_return(format!("order {:07}", i).as_bytes()),
        }
    };
    for i in 0..n {
        v.push(make(i));
        if (i + 1) % 50_000 == 0 {
            for j in 0..2000 {
                v.push(make(j));
            }
        }
    }
    Shard { name: format!("history-{}-distinct-scripts-on-one-thread", n), scripts: v }
}

/// Sequences: every ordered pair and triple of class representatives (one per template kind of both evaluators plus
/// unrecognised / empty / truncated / unspendable scripts), evaluated back to back by one thread: whatever the evaluator
/// keeps from the previous script (a stack, a buffer, a "last result") must not leak into the next verdict.
pub fn representative_sequences() -> Shard {
    let mut reps: Vec<Vec<u8>> = Vec::new();
    let mut seen = std::collections::BTreeSet::new();
    for (n, s) in bitcoin_templates().into_iter().chain(fork_templates()) {
        // payload pattern 2 only (distinct bytes), one instance per kind
        if n.ends_with("/0") || n.ends_with("/1") {
            continue;
        }
        if seen.insert(s.clone()) {
            reps.push(s);
        }
    }
    for extra in [vec![], vec![0x51], vec![0x6a], vec![0x50], vec![0x76, 0xa9, 0x14], vec![0x4c], vec![0x4e, 0xff, 0xff, 0xff, 0xff], witness(2, &[7u8; 40]), witness(16, &[7u8; 2]), op_return(&[0xff, 0xfe]), op_return(b""), multisig(1, &[&key33(4)], 1), multisig(16, &[&key33(4)], 1)] {
        if seen.insert(extra.clone()) {
            reps.push(extra);
        }
    }
    let mut v = Vec::new();
    for a in &reps {
        for b in &reps {
            v.push(a.clone());
            v.push(b.clone());
            for c in &reps {
                v.push(a.clone());
                v.push(b.clone());
                v.push(c.clone());
            }
        }
    }
    Shard { name: format!("sequences-of-{}-representatives", reps.len()), scripts: v }
}

/// C14 length-extreme family.
pub fn extremes() -> Shard {
    let mut v = Vec::new();
    for lenfield in [0u32, 1, 0x7fff_ffff, 0xffff_ffff] {
        for pre in [vec![], vec![0x6a], vec![0x76, 0xa9]] {
            let mut s: Vec<u8> = pre.clone();
            s.push(0x4e);
            s.extend_from_slice(&lenfield.to_le_bytes());
            v.push(s.clone());
            s.push(0x01);
            v.push(s);
        }
    }
    v.push(std::iter::repeat([0x01u8, 0x07]).take(10_000).flatten().collect());
    for op in 0..=255u8 {
        v.push(vec![op; 100_000]);
    }
    // OP_RETURN followed by every invalid-UTF-8 class
    for bad in [vec![0x80u8], vec![0xc0, 0xaf], vec![0xed, 0xa0, 0x80], vec![0xc3], vec![0xe2, 0x82], vec![0xf0, 0x9f, 0x98], vec![0xff], vec![0xf8, 0x88, 0x80, 0x80, 0x80]] {
        let mut s = vec![0x6a];
        s.extend(push_direct(&bad));
        v.push(s.clone());
        let mut d = b"ok ".to_vec();
        d.extend_from_slice(&bad);
        d.extend_from_slice(b" tail");
        let mut s = vec![0x6a];
        s.extend(push_direct(&d));
        v.push(s);
        let mut s = vec![0x6a, 0x4c, d.len() as u8];
        s.extend_from_slice(&d);
        v.push(s);
    }
    Shard { name: "length-and-encoding-extremes".into(), scripts: v }
}

/// C16 payload grammar: (payload, push form, script)
pub fn opreturn_payload_scripts() -> Vec<(String, Vec<u8>)> {
    let lens = [0usize, 1, 2, 19, 75, 76, 80, 255, 256, 520, 65_535, 65_536];
    let mut out = Vec::new();
    for &len in &lens {
        let classes: Vec<(&str, Vec<u8>)> = vec![
            ("ascii", (0..len).map(|i| b'A' + (i % 26) as u8).collect()),
            ("utf8-2byte", "é".repeat(len / 2 + 1).into_bytes()[..(len / 2) * 2].to_vec()),
            ("utf8-3byte", "€".repeat(len / 3 + 1).into_bytes()[..(len / 3) * 3].to_vec()),
            ("utf8-4byte", "😀".repeat(len / 4 + 1).into_bytes()[..(len / 4) * 4].to_vec()),
            ("invalid-ff", {
                let mut d: Vec<u8> = (0..len).map(|i| b'a' + (i % 26) as u8).collect();
                if let Some(x) = d.get_mut(len / 2) {
                    *x = 0xff;
                }
                d
            }),
            ("invalid-lone-continuation", {
                let mut d: Vec<u8> = (0..len).map(|i| b'a' + (i % 26) as u8).collect();
                if let Some(x) = d.first_mut() {
                    *x = 0x80;
                }
                d
            }),
            ("invalid-truncated-multibyte", {
                let mut d: Vec<u8> = (0..len).map(|i| b'a' + (i % 26) as u8).collect();
                if let Some(x) = d.last_mut() {
                    *x = 0xe2;
                }
                d
            }),
        ];
        for (cname, d) in classes {
            for (fname, enc) in push_forms(&d) {
                let mut s = vec![0x6a];
                s.extend_from_slice(&enc);
                out.push((format!("len{}:{}:{}:{}", len, d.len(), cname, fname), s));
            }
        }
    }
    // payloads made of particular byte values: NUL only / leading / trailing NUL, control characters and the bytes of common
    // separators, the replacement character U+FFFD and the BOM (both valid UTF-8), the first and last code point of every
    // encoded length, and the classic ill-formed sequences (overlong forms, a surrogate, a code point beyond U+10FFFF, 5-byte form)
    let specials: Vec<(&str, Vec<u8>)> = vec![
        ("nul", vec![0]),
        ("nul-x4", vec![0; 4]),
        ("nul-x80", vec![0; 80]),
        ("trailing-nul", b"abc\0\0".to_vec()),
        ("leading-nul", b"\0abc".to_vec()),
        ("inner-nul", b"ab\0cd".to_vec()),
        ("del-and-controls", vec![0x7f, 0x01, 0x1b, 0x08, 0x07]),
        ("crlf", b"line1\r\nline2\n".to_vec()),
        ("separators", b"a;b,c\"d'e\tf|g".to_vec()),
        ("only-newline", b"\n".to_vec()),
        ("only-space", b" ".to_vec()),
        // payloads with a meaning of their own in some chain: the BIP141 witness commitment (aa21a9ed + 32 bytes, in the coinbase
        // of every block since segwit - also on the fork coins), the same header with 40 bytes, an Omni / counterparty prefix
        ("witness-commitment", [&[0xaa, 0x21, 0xa9, 0xed][..], &[0x11; 32][..]].concat()),
        ("witness-commitment-longer", [&[0xaa, 0x21, 0xa9, 0xed][..], &[0x22; 40][..]].concat()),
        ("omni-prefix", b"omni\x00\x00\x00\x00\x00\x00\x00\x1f\x00\x00\x00\x02\x54\x0b\xe4\x00".to_vec()),
        ("trailing-spaces", b"fixed width     ".to_vec()),
        ("trailing-tab", b"abc\t".to_vec()),
        ("leading-and-trailing-space", b"  abc  ".to_vec()),
        ("trailing-nbsp", "abc\u{a0}".as_bytes().to_vec()),
        ("trailing-ideographic-space", "abc\u{3000}".as_bytes().to_vec()),
        ("trailing-line-separator", "abc\u{2028}".as_bytes().to_vec()),
        ("replacement-char", vec![0xef, 0xbf, 0xbd]),
        ("replacement-char-inside", "Gr\u{fffd}\u{fffd}e aus Z\u{fffd}rich".as_bytes().to_vec()),
        ("bom", vec![0xef, 0xbb, 0xbf, b'x']),
        ("u+0080", vec![0xc2, 0x80]),
        ("u+07ff", vec![0xdf, 0xbf]),
        ("u+0800", vec![0xe0, 0xa0, 0x80]),
        ("u+ffff", vec![0xef, 0xbf, 0xbf]),
        ("u+10000", vec![0xf0, 0x90, 0x80, 0x80]),
        ("u+10ffff", vec![0xf4, 0x8f, 0xbf, 0xbf]),
        ("ill-overlong-2", vec![0xc0, 0x80]),
        ("ill-overlong-3", vec![0xe0, 0x80, 0x80]),
        ("ill-surrogate", vec![0xed, 0xa0, 0x80]),
        ("ill-beyond-max", vec![0xf4, 0x90, 0x80, 0x80]),
        ("ill-5-byte", vec![0xf8, 0x88, 0x80, 0x80, 0x80]),
        ("ill-fe", vec![b'a', 0xfe, b'b']),
    ];
    let mut specials: Vec<(String, Vec<u8>)> = specials.into_iter().map(|(n, d)| (n.to_string(), d)).collect();
    // payloads that are ill-formed only because they BEGIN with continuation bytes, of a length whose PUSHDATA length byte is the
    // lead byte those continuation bytes want (c3 a9 = U+00E9, e2 82 ac = U+20AC, f0 9f 90 9f = U+1F41F): a decoder that starts
    // one byte early - at the length byte - finds well-formed text
    for (lead, cont) in [(0xc3usize, &[0xa9u8][..]), (0xe2, &[0x82, 0xac][..]), (0xf0, &[0x9f, 0x90, 0x9f][..])] {
        let mut d = cont.to_vec();
        d.resize(lead, b'a');
        specials.push((format!("continuation-bytes-first-length-{:#x}", lead), d));
    }
    specials.extend(utf8_alignment_payloads(200));
    for (cname, d) in specials {
        for (fname, enc) in push_forms(&d) {
            let mut s = vec![0x6a];
            s.extend_from_slice(&enc);
            out.push((format!("special:{}:{}:{}", d.len(), cname, fname), s));
        }
    }
    out
}
