//! Reference script classifiers, written from the property texts (C05, C06, C16) on raw bytes.
//! No code shared with /repo/src and no use of rust-bitcoin's script module.
use crate::addr::{base58check, segwit_encode};
use crate::coins::Coin;
use crate::hash::hash160;

pub const T_OPRETURN: u16 = 1 << 0;
pub const T_MULTISIG: u16 = 1 << 1;
pub const T_P2PK: u16 = 1 << 2;
pub const T_P2PKH: u16 = 1 << 3;
pub const T_P2SH: u16 = 1 << 4;
pub const T_P2WPKH: u16 = 1 << 5;
pub const T_P2WSH: u16 = 1 << 6;
pub const T_WITPROG: u16 = 1 << 7;
pub const T_P2TR: u16 = 1 << 8;
pub const T_UNSPENDABLE: u16 = 1 << 9;
pub const T_NOTRECOGNISED: u16 = 1 << 10;
pub const T_ERROR: u16 = 1 << 11;
pub const T_ALL_OK: u16 = (1 << 11) - 1; // every type except Error

pub fn type_name(t: u16) -> &'static str {
    match t {
        T_OPRETURN => "OpReturn",
        T_MULTISIG => "Pay2MultiSig",
        T_P2PK => "Pay2PublicKey",
        T_P2PKH => "Pay2PublicKeyHash",
        T_P2SH => "Pay2ScriptHash",
        T_P2WPKH => "Pay2WitnessPublicKeyHash",
        T_P2WSH => "Pay2WitnessScriptHash",
        T_WITPROG => "WitnessProgram",
        T_P2TR => "Pay2Taproot",
        T_UNSPENDABLE => "Unspendable",
        T_NOTRECOGNISED => "NotRecognised",
        T_ERROR => "Error",
        _ => "?",
    }
}

pub fn type_from_name(s: &str) -> u16 {
    for i in 0..12 {
        if type_name(1 << i) == s {
            return 1 << i;
        }
    }
    if s.starts_with("OpReturn") {
        return T_OPRETURN;
    }
    if s.starts_with("Error") || s.starts_with("ScriptError") {
        return T_ERROR;
    }
    0
}

/// What the property texts require of the verdict for one script.
#[derive(Clone, Debug, PartialEq, Eq)]
pub struct Expect {
    /// set of acceptable type labels (one bit when the text fixes the label)
    pub types: u16,
    /// required address (None = must be absent)
    pub address: Option<String>,
    /// oracle class, for coverage accounting
    pub class: &'static str,
}

#[derive(Clone, Debug, PartialEq, Eq)]
pub enum Tok<'a> {
    Push(&'a [u8]),
    Op(u8),
}

/// Tokenise by Bitcoin's push rules. None = a push runs past the end (or its length bytes are missing).
pub fn tokenize(s: &[u8]) -> Option<Vec<Tok<'_>>> {
    let mut v = Vec::new();
    let mut i = 0usize;
    while i < s.len() {
        let op = s[i];
        i += 1;
        let n: usize = match op {
            0x00..=0x4b => op as usize,
            0x4c => {
                if i + 1 > s.len() {
                    return None;
                }
                let n = s[i] as usize;
                i += 1;
                n
            }
            0x4d => {
                if i + 2 > s.len() {
                    return None;
                }
                let n = u16::from_le_bytes([s[i], s[i + 1]]) as usize;
                i += 2;
                n
            }
            0x4e => {
                if i + 4 > s.len() {
                    return None;
                }
                let n = u32::from_le_bytes([s[i], s[i + 1], s[i + 2], s[i + 3]]) as usize;
                i += 4;
                n
            }
            _ => {
                v.push(Tok::Op(op));
                continue;
            }
        };
        if n > s.len() - i {
            return None;
        }
        v.push(Tok::Push(&s[i..i + n]));
        i += n;
    }
    Some(v)
}

/// First-opcode classes that make a legacy script fail whenever it is executed.
pub fn first_op_unspendable(b: u8) -> bool {
    matches!(b, 0x50 | 0x62 | 0x65 | 0x66 | 0x7e..=0x81 | 0x83..=0x86 | 0x89 | 0x8a | 0x8d | 0x8e | 0x95..=0x99 | 0xba..=0xff)
}

fn none(types: u16, class: &'static str) -> Expect {
    Expect { types, address: None, class }
}

/// C05: Bitcoin / testnet3 reference rules.
pub fn expect_bitcoin(coin: &Coin, s: &[u8]) -> Expect {
    let hrp = coin.hrp.expect("bitcoin family");
    let p2pkh = |h: &[u8]| Some(base58check(coin.version_id, h));
    if s.is_empty() {
        return none(T_NOTRECOGNISED, "empty");
    }
    if s[0] == 0x6a {
        return none(T_OPRETURN, "opreturn");
    }
    if first_op_unspendable(s[0]) {
        return none(T_UNSPENDABLE, "unspendable");
    }
    // byte-exact templates
    if (s.len() == 35 && s[0] == 33 && s[34] == 0xac) || (s.len() == 67 && s[0] == 65 && s[66] == 0xac) {
        let key = &s[1..s.len() - 1];
        return Expect { types: T_P2PK, address: p2pkh(&hash160(key)), class: "p2pk" };
    }
    if s.len() == 25 && s[0] == 0x76 && s[1] == 0xa9 && s[2] == 0x14 && s[23] == 0x88 && s[24] == 0xac {
        return Expect { types: T_P2PKH, address: p2pkh(&s[3..23]), class: "p2pkh" };
    }
    if s.len() == 23 && s[0] == 0xa9 && s[1] == 0x14 && s[22] == 0x87 {
        return Expect { types: T_P2SH, address: Some(base58check(coin.p2sh_version, &s[2..22])), class: "p2sh" };
    }
    // witness programs: (OP_0 | OP_1..OP_16) (direct push of 2..40 bytes) filling the script exactly
    if s.len() >= 4 && s.len() <= 42 && (s[0] == 0 || (0x51..=0x60).contains(&s[0])) && (s[1] as usize) == s.len() - 2 && (2..=40).contains(&s[1]) {
        let ver = if s[0] == 0 { 0 } else { s[0] - 0x50 };
        let prog = &s[2..];
        if ver == 0 {
            return match prog.len() {
                20 => Expect { types: T_P2WPKH, address: Some(segwit_encode(hrp, 0, prog)), class: "p2wpkh" },
                32 => Expect { types: T_P2WSH, address: Some(segwit_encode(hrp, 0, prog)), class: "p2wsh" },
                // v0 program of illegal length: no address; the label is left open by the text
                _ => none(T_ALL_OK, "witness_v0_illegal_len"),
            };
        }
        if ver == 1 && prog.len() == 32 {
            return Expect { types: T_P2TR, address: Some(segwit_encode(hrp, 1, prog)), class: "p2tr" };
        }
        return Expect { types: T_WITPROG, address: Some(segwit_encode(hrp, ver, prog)), class: "witness_program" };
    }
    // bare multisig
    if let Some(toks) = tokenize(s) {
        if toks.len() >= 4 {
            if let (Tok::Op(m), Tok::Op(n), Tok::Op(0xae)) = (&toks[0], &toks[toks.len() - 2], &toks[toks.len() - 1]) {
                let keys = &toks[1..toks.len() - 2];
                if (0x51..=0x60).contains(m) && (0x51..=0x60).contains(n) && keys.iter().all(|t| matches!(t, Tok::Push(_))) {
                    let (m, n) = ((m - 0x50) as usize, (n - 0x50) as usize);
                    if m <= keys.len() && n == keys.len() {
                        // any push counts as a key; empty "keys" are a grey zone the text does not settle
                        if keys.iter().all(|t| matches!(t, Tok::Push(p) if !p.is_empty())) {
                            return none(T_MULTISIG, "multisig");
                        }
                        return none(T_MULTISIG | T_NOTRECOGNISED, "multisig_empty_key");
                    }
                }
            }
        }
    }
    none(T_NOTRECOGNISED, "unrecognised")
}

pub fn is_nop(op: u8) -> bool {
    op == 0x61 || (0xb0..=0xb9).contains(&op)
}

/// C06: fork-coin reference rules.
pub fn expect_fork(coin: &Coin, s: &[u8]) -> Expect {
    let other = T_ALL_OK & !(T_P2PKH | T_P2PK | T_P2SH | T_OPRETURN | T_MULTISIG);
    let toks = match tokenize(s) {
        None => return none(T_NOTRECOGNISED, "truncated_push"),
        Some(t) => t,
    };
    let toks: Vec<Tok> = toks.into_iter().filter(|t| !matches!(t, Tok::Op(o) if is_nop(*o))).collect();
    let data = |t: &Tok| matches!(t, Tok::Push(p) if !p.is_empty());
    let op = |t: &Tok, o: u8| matches!(t, Tok::Op(x) if *x == o);
    let payload = |t: &Tok| -> Vec<u8> {
        match t {
            Tok::Push(p) => p.to_vec(),
            _ => unreachable!(),
        }
    };
    match toks.len() {
        5 if op(&toks[0], 0x76) && op(&toks[1], 0xa9) && data(&toks[2]) && op(&toks[3], 0x88) && op(&toks[4], 0xac) => {
            Expect { types: T_P2PKH, address: Some(base58check(coin.version_id, &payload(&toks[2]))), class: "p2pkh" }
        }
        2 if data(&toks[0]) && op(&toks[1], 0xac) => {
            Expect { types: T_P2PK, address: Some(base58check(coin.version_id, &hash160(&payload(&toks[0])))), class: "p2pk" }
        }
        3 if op(&toks[0], 0xa9) && data(&toks[1]) && op(&toks[2], 0x87) => {
            Expect { types: T_P2SH, address: Some(base58check(0x05, &payload(&toks[1]))), class: "p2sh" }
        }
        2 if op(&toks[0], 0x6a) && data(&toks[1]) => none(T_OPRETURN, "opreturn_data"),
        6 if op(&toks[0], 0x52) && data(&toks[1]) && data(&toks[2]) && data(&toks[3]) && op(&toks[4], 0x53) && op(&toks[5], 0xae) => {
            none(T_MULTISIG, "multisig_2of3")
        }
        _ => none(other, "unrecognised"),
    }
}

pub fn expect(coin: &Coin, s: &[u8]) -> Expect {
    if coin.is_bitcoin_family() {
        expect_bitcoin(coin, s)
    } else {
        expect_fork(coin, s)
    }
}

/// C16: what the opreturn callback must print for one output script.
#[derive(Clone, Debug, PartialEq, Eq)]
pub enum OpRet {
    /// not an OP_RETURN-typed output, or an OP_RETURN <one push> with empty / non-UTF-8 payload: nothing
    Nothing,
    /// exactly this payload text
    Print(String),
    /// OP_RETURN script of another shape: the text does not say
    DontCare,
}

pub fn opreturn_expect(coin: &Coin, s: &[u8]) -> OpRet {
    if coin.is_bitcoin_family() {
        if s.first() != Some(&0x6a) {
            return OpRet::Nothing;
        }
        match tokenize(&s[1..]) {
            Some(t) if t.len() == 1 => match &t[0] {
                Tok::Push(p) => {
                    if p.is_empty() {
                        // OP_RETURN OP_0 / OP_RETURN PUSHDATAn 0
                        return OpRet::Nothing;
                    }
                    match std::str::from_utf8(p) {
                        Ok(txt) => OpRet::Print(txt.to_string()),
                        Err(_) => OpRet::Nothing,
                    }
                }
                _ => OpRet::DontCare,
            },
            _ => OpRet::DontCare,
        }
    } else {
        let e = expect_fork(coin, s);
        if e.class == "opreturn_data" {
            let toks: Vec<Tok> = tokenize(s).unwrap().into_iter().filter(|t| !matches!(t, Tok::Op(o) if is_nop(*o))).collect();
            // NOP-decorated forms are typed OP_RETURN by C06; C16 speaks only of "OP_RETURN followed by exactly one push and nothing else"
            let plain = tokenize(s).unwrap().len() == 2;
            if let Tok::Push(p) = &toks[1] {
                let txt = String::from_utf8_lossy(p).into_owned();
                return if plain { OpRet::Print(txt) } else { OpRet::DontCare };
            }
            unreachable!()
        }
        if s.first() == Some(&0x6a) {
            // other OP_RETURN shapes (no push, empty push, several pushes, truncated push)
            let t = tokenize(s);
            if let Some(t) = t {
                if t.len() == 2 && matches!(&t[1], Tok::Push(p) if p.is_empty()) {
                    return OpRet::Nothing;
                }
            }
            return OpRet::DontCare;
        }
        OpRet::Nothing
    }
}

// ---- script builders -------------------------------------------------------------------------

pub fn push_direct(d: &[u8]) -> Vec<u8> {
    assert!(d.len() <= 75);
    let mut v = vec![d.len() as u8];
    v.extend_from_slice(d);
    v
}
pub fn push_with(form: u8, d: &[u8]) -> Vec<u8> {
    let mut v = Vec::with_capacity(d.len() + 5);
    match form {
        0 => return push_direct(d),
        1 => {
            assert!(d.len() <= 0xff);
            v.push(0x4c);
            v.push(d.len() as u8);
        }
        2 => {
            assert!(d.len() <= 0xffff);
            v.push(0x4d);
            v.extend_from_slice(&(d.len() as u16).to_le_bytes());
        }
        4 => {
            v.push(0x4e);
            v.extend_from_slice(&(d.len() as u32).to_le_bytes());
        }
        _ => panic!("push form"),
    }
    v.extend_from_slice(d);
    v
}
pub fn push_minimal(d: &[u8]) -> Vec<u8> {
    if d.len() <= 75 {
        push_with(0, d)
    } else if d.len() <= 0xff {
        push_with(1, d)
    } else if d.len() <= 0xffff {
        push_with(2, d)
    } else {
        push_with(4, d)
    }
}
pub fn p2pkh(h: &[u8; 20]) -> Vec<u8> {
    let mut v = vec![0x76, 0xa9, 0x14];
    v.extend_from_slice(h);
    v.extend_from_slice(&[0x88, 0xac]);
    v
}
pub fn p2sh(h: &[u8; 20]) -> Vec<u8> {
    let mut v = vec![0xa9, 0x14];
    v.extend_from_slice(h);
    v.push(0x87);
    v
}
pub fn p2pk(key: &[u8]) -> Vec<u8> {
    let mut v = push_direct(key);
    v.push(0xac);
    v
}
pub fn witness(ver: u8, prog: &[u8]) -> Vec<u8> {
    let mut v = vec![if ver == 0 { 0 } else { 0x50 + ver }];
    v.extend(push_direct(prog));
    v
}
pub fn multisig(m: u8, keys: &[&[u8]], n: u8) -> Vec<u8> {
    let mut v = vec![0x50 + m];
    for k in keys {
        v.extend(push_minimal(k));
    }
    v.push(0x50 + n);
    v.push(0xae);
    v
}
pub fn op_return(d: &[u8]) -> Vec<u8> {
    let mut v = vec![0x6a];
    v.extend(push_minimal(d));
    v
}
/// Deterministic filler bytes (seeded pattern) for hashes and keys.
pub fn filler(seed: u8, n: usize) -> Vec<u8> {
    (0..n).map(|i| seed.wrapping_mul(31).wrapping_add((i as u8).wrapping_mul(7)).wrapping_add(1)).collect()
}
pub fn key33(seed: u8) -> Vec<u8> {
    let mut k = vec![0x02 + (seed & 1)];
    k.extend(filler(seed, 32));
    k
}
pub fn key65(seed: u8) -> Vec<u8> {
    let mut k = vec![0x04];
    k.extend(filler(seed, 64));
    k
}
pub fn h20(seed: u8) -> [u8; 20] {
    let mut h = [0u8; 20];
    h.copy_from_slice(&filler(seed, 20));
    h
}
