//! Hash primitives (bitcoin_hashes: a dependency of the subject, not subject code; trusted).
use bitcoin_hashes::{ripemd160, sha256, Hash};

pub type H256 = [u8; 32];

pub fn sha256(b: &[u8]) -> H256 {
    sha256::Hash::hash(b).to_byte_array()
}
pub fn sha256d(b: &[u8]) -> H256 {
    sha256(&sha256(b))
}
pub fn hash160(b: &[u8]) -> [u8; 20] {
    ripemd160::Hash::hash(&sha256(b)).to_byte_array()
}
