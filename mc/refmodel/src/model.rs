//! Reference semantics of the five callbacks, computed from the logical chain only.
use crate::coins::Coin;
use crate::hash::H256;
use crate::script::{self, OpRet};
use crate::ser::{hash_hex, hex, Block};
use std::collections::{BTreeMap, BTreeSet};

/// One delivered block as the model sees it.
#[derive(Clone, Debug)]
pub struct MBlock {
    pub height: u64,
    /// the stored length prefix
    pub size: u32,
    pub block: Block,
}

#[derive(Clone, Debug, Default, PartialEq, Eq)]
pub struct CsvFiles {
    pub blocks: String,
    pub transactions: String,
    pub tx_in: String,
    pub tx_out: String,
    pub n_tx: u64,
    pub n_in: u64,
    pub n_out: u64,
}

pub fn csvdump(coin: &Coin, chain: &[MBlock]) -> CsvFiles {
    let mut f = CsvFiles::default();
    for mb in chain {
        let b = &mb.block;
        let bh = hash_hex(&b.hash());
        f.blocks.push_str(&format!(
            "{};{};{};{};{};{};{};{};{}\n",
            bh,
            mb.height,
            b.header.version,
            mb.size,
            hash_hex(&b.header.prev),
            hash_hex(&b.header.merkle),
            b.header.time,
            b.header.bits,
            b.header.nonce
        ));
        for tx in &b.txs {
            let txid = hash_hex(&tx.txid());
            f.transactions.push_str(&format!("{};{};{};{}\n", txid, bh, tx.version, tx.locktime));
            f.n_tx += 1;
            for i in &tx.inputs {
                f.tx_in.push_str(&format!("{};{};{};{};{}\n", txid, hash_hex(&i.prev_txid), i.prev_index, hex(&i.script_sig), i.sequence));
                f.n_in += 1;
            }
            for (n, o) in tx.outputs.iter().enumerate() {
                let e = script::expect(coin, &o.script);
                f.tx_out.push_str(&format!("{};{};{};{};{}\n", txid, n, o.value, hex(&o.script), e.address.unwrap_or_default()));
                f.n_out += 1;
            }
        }
    }
    f
}

#[derive(Clone, Debug, PartialEq, Eq, PartialOrd, Ord)]
pub struct Utxo {
    pub txid: H256,
    pub index: u32,
    pub height: u64,
    pub value: u64,
    pub address: String,
}

/// C07: UTXO set of the range. Per transaction: first remove what its inputs reference, then insert
/// its address-bearing outputs (a later output with the same txid/index replaces the earlier one).
pub fn utxo_set(coin: &Coin, chain: &[MBlock]) -> (Vec<Utxo>, u64, u64, u64) {
    let mut map: BTreeMap<(H256, u32), Utxo> = BTreeMap::new();
    let (mut n_tx, mut n_in, mut n_out) = (0u64, 0u64, 0u64);
    for mb in chain {
        for tx in &mb.block.txs {
            n_tx += 1;
            for i in &tx.inputs {
                map.remove(&(i.prev_txid, i.prev_index));
                n_in += 1;
            }
            let txid = tx.txid();
            for (n, o) in tx.outputs.iter().enumerate() {
                if let Some(address) = script::expect(coin, &o.script).address {
                    map.insert((txid, n as u32), Utxo { txid, index: n as u32, height: mb.height, value: o.value, address });
                    n_out += 1;
                }
            }
        }
    }
    (map.into_values().collect(), n_tx, n_in, n_out)
}

pub fn unspent_rows(u: &[Utxo]) -> BTreeSet<String> {
    u.iter().map(|x| format!("{};{};{};{};{}", hash_hex(&x.txid), x.index, x.height, x.value, x.address)).collect()
}

pub fn balances_rows(u: &[Utxo]) -> BTreeSet<String> {
    let mut m: BTreeMap<&str, u128> = BTreeMap::new();
    for x in u {
        *m.entry(&x.address).or_insert(0) += x.value as u128;
    }
    m.into_iter().map(|(a, v)| format!("{};{}", a, v)).collect()
}

pub const UNSPENT_HEADER: &str = "txid;indexOut;height;value;address";
pub const BALANCES_HEADER: &str = "address;balance";

/// C16: expected opreturn lines; None entries mark outputs whose line is a don't-care.
#[derive(Clone, Debug, PartialEq, Eq)]
pub struct OpRetLine {
    pub height: u64,
    pub txid: String,
    pub data: Option<String>, // None = don't care (may or may not print, any text)
}

pub fn opreturn_lines(coin: &Coin, chain: &[MBlock]) -> Vec<OpRetLine> {
    let mut v = Vec::new();
    for mb in chain {
        for tx in &mb.block.txs {
            let txid = hash_hex(&tx.txid());
            for o in &tx.outputs {
                match script::opreturn_expect(coin, &o.script) {
                    OpRet::Nothing => {}
                    OpRet::Print(s) => v.push(OpRetLine { height: mb.height, txid: txid.clone(), data: Some(s) }),
                    OpRet::DontCare => v.push(OpRetLine { height: mb.height, txid: txid.clone(), data: None }),
                }
            }
        }
    }
    v
}

pub fn base_reward(height: u64) -> u64 {
    let halvings = height / 210_000;
    if halvings >= 64 {
        0
    } else {
        (50u64 * 100_000_000) >> halvings
    }
}

/// Exact rational as (numerator, denominator); den == 0 means "mean of an empty sample".
pub type Ratio = (u128, u128);

#[derive(Clone, Debug, Default)]
pub struct Stats {
    pub blocks: u64,
    pub txs: u64,
    pub inputs: u64,
    pub outputs: u64,
    pub fees: u128,
    pub volume: u128,
    pub biggest_value: (u128, u64, String),
    pub biggest_size: (usize, u64, String),
    pub sum_block_size: u128,
    pub sum_time_gaps: u128,
    pub n_time_gaps: u64,
    /// per type label bitmask (acceptable labels) -> (count, first height, first txid); keyed by oracle class
    pub types: BTreeMap<u16, (u64, u64, String)>,
    /// true if some output's label is left open by the oracle (type lines then compared loosely)
    pub open_types: bool,
}

pub fn simplestats(coin: &Coin, chain: &[MBlock]) -> Stats {
    let mut s = Stats::default();
    let mut last_time: Option<u32> = None;
    for mb in chain {
        s.blocks += 1;
        s.sum_block_size += mb.size as u128;
        for tx in &mb.block.txs {
            s.txs += 1;
            let txid = hash_hex(&tx.txid());
            if tx.is_coinbase() && !tx.outputs.is_empty() {
                s.fees += tx.outputs[0].value.saturating_sub(base_reward(mb.height)) as u128;
            }
            s.inputs += tx.inputs.len() as u64;
            s.outputs += tx.outputs.len() as u64;
            let mut v: u128 = 0;
            for o in &tx.outputs {
                v += o.value as u128;
                let e = script::expect(coin, &o.script);
                if e.types.count_ones() != 1 {
                    s.open_types = true;
                }
                let ent = s.types.entry(e.types).or_insert((0, mb.height, txid.clone()));
                ent.0 += 1;
            }
            s.volume += v;
            if v > s.biggest_value.0 {
                s.biggest_value = (v, mb.height, txid.clone());
            }
            let sz = tx.ser_stripped().len();
            if sz > s.biggest_size.0 {
                s.biggest_size = (sz, mb.height, txid.clone());
            }
        }
        if let Some(lt) = last_time {
            s.sum_time_gaps += mb.block.header.time.saturating_sub(lt) as u128;
            s.n_time_gaps += 1;
        }
        last_time = Some(mb.block.header.time);
    }
    s
}

/// The simplestats report as printed, parsed into fields.
#[derive(Clone, Debug, Default, PartialEq)]
pub struct Report {
    pub blocks: u64,
    pub txs: u64,
    pub inputs: u64,
    pub outputs: u64,
    pub fees_units: u128,
    pub fees_coins: String,
    pub volume_units: u128,
    pub volume_coins: String,
    pub biggest_value_units: u128,
    pub biggest_value_coins: String,
    pub biggest_value_at: (u64, String),
    pub biggest_size: u64,
    pub biggest_size_at: (u64, String),
    pub avg_block_size_kib: String,
    pub avg_time_min: String,
    pub avg_txs_per_block: String,
    pub avg_in_per_tx: String,
    pub avg_out_per_tx: String,
    pub avg_value_per_output: String,
    /// label -> (count, share string, first height, first txid)
    pub types: BTreeMap<String, (u64, String, u64, String)>,
}

fn after<'a>(l: &'a str, key: &str) -> Option<&'a str> {
    l.find(key).map(|p| l[p + key.len()..].trim())
}

pub fn parse_report(text: &str) -> Result<Report, String> {
    let mut r = Report::default();
    let lines: Vec<&str> = text.lines().collect();
    let mut i = 0;
    let mut seen = 0;
    let units = |v: &str| -> Result<(String, u128), String> {
        // "<coins> (<n> units)"
        let p = v.find(" (").ok_or("units")?;
        let q = v.find(" units)").ok_or("units")?;
        Ok((v[..p].to_string(), v[p + 2..q].parse::<u128>().map_err(|e| e.to_string())?))
    };
    let seen_in = |v: &str| -> Result<(u64, String), String> {
        // "seen in block #H, txid: T"
        let p = v.find("block #").ok_or("seen")?;
        let q = v.find(", txid: ").ok_or("seen")?;
        Ok((v[p + 7..q].parse::<u64>().map_err(|e| e.to_string())?, v[q + 8..].trim().to_string()))
    };
    while i < lines.len() {
        let l = lines[i];
        if let Some(v) = after(l, "-> valid blocks:") {
            r.blocks = v.parse().map_err(|_| "blocks")?;
            seen += 1;
        } else if let Some(v) = after(l, "-> total transactions:") {
            r.txs = v.parse().map_err(|_| "txs")?;
            seen += 1;
        } else if let Some(v) = after(l, "-> total tx inputs:") {
            r.inputs = v.parse().map_err(|_| "inputs")?;
            seen += 1;
        } else if let Some(v) = after(l, "-> total tx outputs:") {
            r.outputs = v.parse().map_err(|_| "outputs")?;
            seen += 1;
        } else if let Some(v) = after(l, "-> total tx fees:") {
            let (c, u) = units(v)?;
            r.fees_coins = c;
            r.fees_units = u;
            seen += 1;
        } else if let Some(v) = after(l, "-> total volume:") {
            let (c, u) = units(v)?;
            r.volume_coins = c;
            r.volume_units = u;
            seen += 1;
        } else if let Some(v) = after(l, "-> biggest value tx:") {
            let (c, u) = units(v)?;
            r.biggest_value_coins = c;
            r.biggest_value_units = u;
            r.biggest_value_at = seen_in(lines.get(i + 1).ok_or("eof")?)?;
            i += 1;
            seen += 1;
        } else if let Some(v) = after(l, "-> biggest size tx:") {
            r.biggest_size = v.trim_end_matches(" bytes").parse().map_err(|_| "size")?;
            r.biggest_size_at = seen_in(lines.get(i + 1).ok_or("eof")?)?;
            i += 1;
            seen += 1;
        } else if let Some(v) = after(l, "-> avg block size:") {
            r.avg_block_size_kib = v.trim_end_matches(" KiB").to_string();
            seen += 1;
        } else if let Some(v) = after(l, "-> avg time between blocks:") {
            r.avg_time_min = v.trim_end_matches(" (minutes)").to_string();
            seen += 1;
        } else if let Some(v) = after(l, "-> avg txs per block:") {
            r.avg_txs_per_block = v.to_string();
            seen += 1;
        } else if let Some(v) = after(l, "-> avg inputs per tx:") {
            r.avg_in_per_tx = v.to_string();
            seen += 1;
        } else if let Some(v) = after(l, "-> avg outputs per tx:") {
            r.avg_out_per_tx = v.to_string();
            seen += 1;
        } else if let Some(v) = after(l, "-> avg value per output:") {
            r.avg_value_per_output = v.to_string();
            seen += 1;
        } else if l.trim_start().starts_with("Transaction Types:") {
            i += 1;
            while i < lines.len() {
                let l = lines[i];
                if let Some(v) = after(l, "-> ") {
                    // "<label>: <count> (<share>%)"
                    let p = v.rfind(": ").ok_or("type line")?;
                    let label = v[..p].to_string();
                    let rest = &v[p + 2..];
                    let q = rest.find(" (").ok_or("type share")?;
                    let count: u64 = rest[..q].parse().map_err(|_| "type count")?;
                    let share = rest[q + 2..].trim_end_matches("%)").to_string();
                    let nl = lines.get(i + 1).ok_or("eof")?;
                    let (h, t) = seen_in(&nl.replace("first seen", "seen"))?;
                    if r.types.insert(label.clone(), (count, share, h, t)).is_some() {
                        return Err(format!("type {} listed twice", label));
                    }
                    i += 1;
                }
                i += 1;
            }
        }
        i += 1;
    }
    if seen != 14 {
        return Err(format!("report incomplete: {} of 14 figures", seen));
    }
    Ok(r)
}

/// |printed - num/den * scale| <= half unit of last printed digit (+ a relative 1e-12 slack for f64 evaluation).
/// `printed` has `decimals` decimals. den == 0 means the figure is not judged.
pub fn decimal_matches(printed: &str, num: u128, den: u128, scale_num: u128, scale_den: u128, decimals: u32) -> bool {
    if den == 0 {
        return true;
    }
    let p: f64 = match printed.parse() {
        Ok(p) => p,
        Err(_) => return false,
    };
    if !p.is_finite() {
        return false;
    }
    // exact value = num*scale_num / (den*scale_den); compare in integer arithmetic scaled by 10^decimals
    // printed * 10^d must be an integer P with |P*den*scale_den - num*scale_num*10^d| <= den*scale_den/2 + slack
    let ten = 10u128.pow(decimals);
    let digits: String = printed.chars().filter(|c| *c != '.').collect();
    let dp = printed.find('.').map(|x| printed.len() - x - 1).unwrap_or(0) as u32;
    if dp != decimals {
        return false;
    }
    let pint: u128 = match digits.parse() {
        Ok(x) => x,
        Err(_) => return false,
    };
    let lhs = pint.checked_mul(den * scale_den);
    let rhs = (num * scale_num).checked_mul(ten);
    let (lhs, rhs) = match (lhs, rhs) {
        (Some(a), Some(b)) => (a, b),
        _ => return (p - (num as f64 * scale_num as f64) / (den as f64 * scale_den as f64)).abs() <= 0.5 / ten as f64 * 1.01,
    };
    let diff = if lhs > rhs { lhs - rhs } else { rhs - lhs };
    // half a unit plus one unit of slack for double rounding in a correct f64 evaluation
    let tol = den * scale_den / 2 + den * scale_den / 1000 + 1 + rhs / 1_000_000_000_000u128;
    diff <= tol
}

/// Compare a parsed report with the model; returns the list of mismatching figures.
pub fn compare_report(r: &Report, s: &Stats) -> Vec<String> {
    let mut bad = Vec::new();
    macro_rules! eq {
        ($name:expr, $a:expr, $b:expr) => {
            if $a != $b {
                bad.push(format!("{}: printed {:?} expected {:?}", $name, $a, $b));
            }
        };
    }
    eq!("valid blocks", r.blocks, s.blocks);
    eq!("total transactions", r.txs, s.txs);
    eq!("total tx inputs", r.inputs, s.inputs);
    eq!("total tx outputs", r.outputs, s.outputs);
    eq!("total tx fees", r.fees_units, s.fees);
    eq!("total volume", r.volume_units, s.volume);
    if s.biggest_value.0 > 0 {
        eq!("biggest value tx", r.biggest_value_units, s.biggest_value.0);
        eq!("biggest value tx position", (r.biggest_value_at.0, r.biggest_value_at.1.as_str()), (s.biggest_value.1, s.biggest_value.2.as_str()));
    }
    eq!("biggest size tx", r.biggest_size as usize, s.biggest_size.0);
    eq!("biggest size tx position", (r.biggest_size_at.0, r.biggest_size_at.1.as_str()), (s.biggest_size.1, s.biggest_size.2.as_str()));
    let mut dec = |name: &str, printed: &str, num: u128, den: u128, sn: u128, sd: u128, d: u32| {
        if !decimal_matches(printed, num, den, sn, sd, d) {
            bad.push(format!("{}: printed {} expected {}/{} * {}/{}", name, printed, num, den, sn, sd));
        }
    };
    dec("total tx fees (coins)", &r.fees_coins, s.fees, 1, 1, 100_000_000, 8);
    dec("total volume (coins)", &r.volume_coins, s.volume, 1, 1, 100_000_000, 8);
    dec("avg block size", &r.avg_block_size_kib, s.sum_block_size, s.blocks as u128, 1, 1024, 2);
    dec("avg time between blocks", &r.avg_time_min, s.sum_time_gaps, s.n_time_gaps as u128, 1, 60, 2);
    dec("avg txs per block", &r.avg_txs_per_block, s.txs as u128, s.blocks as u128, 1, 1, 2);
    dec("avg inputs per tx", &r.avg_in_per_tx, s.inputs as u128, s.txs as u128, 1, 1, 2);
    dec("avg outputs per tx", &r.avg_out_per_tx, s.outputs as u128, s.txs as u128, 1, 1, 2);
    dec("avg value per output", &r.avg_value_per_output, s.volume, s.outputs as u128, 1, 100_000_000, 2);
    // per-type lines, as a map
    if !s.open_types {
        let mut want: BTreeMap<String, (u64, u64, String)> = BTreeMap::new();
        for (t, v) in &s.types {
            let label = match *t {
                script::T_OPRETURN => "OpReturn(\"\")".to_string(),
                x => script::type_name(x).to_string(),
            };
            want.insert(label, v.clone());
        }
        let got: BTreeMap<String, (u64, u64, String)> = r.types.iter().map(|(k, v)| (k.clone(), (v.0, v.2, v.3.clone()))).collect();
        if want != got {
            bad.push(format!("transaction types: printed {:?} expected {:?}", got, want));
        }
        for (k, v) in &r.types {
            if !decimal_matches(&v.1, v.0 as u128 * 100, s.outputs as u128, 1, 1, 2) {
                bad.push(format!("share of {}: printed {} expected {}*100/{}", k, v.1, v.0, s.outputs));
            }
        }
    } else {
        let total: u64 = r.types.values().map(|v| v.0).sum();
        eq!("sum of per-type counts", total, s.outputs);
    }
    bad
}
