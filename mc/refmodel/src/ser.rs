//! Independent serialisers for the on-disk formats (no code shared with /repo/src).
use crate::hash::{sha256d, H256};

pub fn compact_size(n: u64) -> Vec<u8> {
    if n < 0xfd {
        vec![n as u8]
    } else if n <= 0xffff {
        let mut v = vec![0xfd];
        v.extend_from_slice(&(n as u16).to_le_bytes());
        v
    } else if n <= 0xffff_ffff {
        let mut v = vec![0xfe];
        v.extend_from_slice(&(n as u32).to_le_bytes());
        v
    } else {
        let mut v = vec![0xff];
        v.extend_from_slice(&n.to_le_bytes());
        v
    }
}

/// Bitcoin Core's VarInt (serialize.h WriteVarInt): MSB base-128 with "+1 carry".
pub fn core_varint(mut n: u64) -> Vec<u8> {
    let mut tmp = Vec::new();
    let mut len = 0;
    loop {
        tmp.push(((n & 0x7f) as u8) | if len > 0 { 0x80 } else { 0 });
        if n <= 0x7f {
            break;
        }
        n = (n >> 7) - 1;
        len += 1;
    }
    tmp.reverse();
    tmp
}

#[derive(Clone, Debug, PartialEq, Eq, Hash)]
pub struct TxIn {
    pub prev_txid: H256,
    pub prev_index: u32,
    pub script_sig: Vec<u8>,
    pub sequence: u32,
    pub witness: Vec<Vec<u8>>,
}

#[derive(Clone, Debug, PartialEq, Eq, Hash)]
pub struct TxOut {
    pub value: u64,
    pub script: Vec<u8>,
}

#[derive(Clone, Debug, PartialEq, Eq, Hash)]
pub struct Tx {
    pub version: u32,
    pub segwit: bool,
    pub inputs: Vec<TxIn>,
    pub outputs: Vec<TxOut>,
    pub locktime: u32,
    /// 0: every CompactSize in its shortest form. Otherwise bits 0-1 select a width (1: 0xfd form, 2: 0xfe form, 3: 0xff form)
    /// for the fields selected by bits 2-5 (input count, output count, scriptSig lengths, scriptPubKey lengths; none of the
    /// four bits = all four). A value that needs a wider form than requested keeps its shortest form. Such bytes decode to the
    /// same fields; txid and sizes are those of the bytes as stored.
    pub wide: u8,
}

impl TxIn {
    pub fn coinbase(script_sig: Vec<u8>) -> TxIn {
        TxIn { prev_txid: [0; 32], prev_index: 0xffff_ffff, script_sig, sequence: 0xffff_ffff, witness: vec![] }
    }
    pub fn spend(txid: H256, index: u32) -> TxIn {
        TxIn { prev_txid: txid, prev_index: index, script_sig: vec![0x51], sequence: 0xffff_fffe, witness: vec![] }
    }
}

pub fn compact_size_wide(n: u64, width: u8) -> Vec<u8> {
    let short = compact_size(n);
    let want = match width {
        1 => 3,
        2 => 5,
        3 => 9,
        _ => 1,
    };
    if short.len() >= want {
        return short;
    }
    let mut v = vec![match want {
        3 => 0xfd,
        5 => 0xfe,
        _ => 0xff,
    }];
    v.extend_from_slice(&n.to_le_bytes()[..want - 1]);
    v
}

impl Tx {
    fn cs(&self, n: u64, field_bit: u8) -> Vec<u8> {
        let width = self.wide & 3;
        let fields = self.wide >> 2;
        if width != 0 && (fields == 0 || fields & field_bit != 0) {
            compact_size_wide(n, width)
        } else {
            compact_size(n)
        }
    }
    fn body(&self, out: &mut Vec<u8>) {
        out.extend(self.cs(self.inputs.len() as u64, 1));
        for i in &self.inputs {
            out.extend_from_slice(&i.prev_txid);
            out.extend_from_slice(&i.prev_index.to_le_bytes());
            out.extend(self.cs(i.script_sig.len() as u64, 4));
            out.extend_from_slice(&i.script_sig);
            out.extend_from_slice(&i.sequence.to_le_bytes());
        }
        out.extend(self.cs(self.outputs.len() as u64, 2));
        for o in &self.outputs {
            out.extend_from_slice(&o.value.to_le_bytes());
            out.extend(self.cs(o.script.len() as u64, 8));
            out.extend_from_slice(&o.script);
        }
    }
    /// Witness-stripped serialisation (what the txid covers).
    pub fn ser_stripped(&self) -> Vec<u8> {
        let mut v = Vec::new();
        v.extend_from_slice(&self.version.to_le_bytes());
        self.body(&mut v);
        v.extend_from_slice(&self.locktime.to_le_bytes());
        v
    }
    /// On-disk serialisation (BIP144 when `segwit`).
    pub fn ser(&self) -> Vec<u8> {
        if !self.segwit {
            return self.ser_stripped();
        }
        let mut v = Vec::new();
        v.extend_from_slice(&self.version.to_le_bytes());
        v.push(0);
        v.push(1);
        self.body(&mut v);
        for i in &self.inputs {
            v.extend(compact_size(i.witness.len() as u64));
            for w in &i.witness {
                v.extend(compact_size(w.len() as u64));
                v.extend_from_slice(w);
            }
        }
        v.extend_from_slice(&self.locktime.to_le_bytes());
        v
    }
    pub fn txid(&self) -> H256 {
        sha256d(&self.ser_stripped())
    }
    pub fn is_coinbase(&self) -> bool {
        self.inputs.len() == 1 && self.inputs[0].prev_txid == [0u8; 32] && self.inputs[0].prev_index == 0xffff_ffff
    }
}

#[derive(Clone, Debug, PartialEq, Eq, Hash)]
pub struct Header {
    pub version: u32,
    pub prev: H256,
    pub merkle: H256,
    pub time: u32,
    pub bits: u32,
    pub nonce: u32,
}

impl Header {
    pub fn ser(&self) -> [u8; 80] {
        let mut v = [0u8; 80];
        v[0..4].copy_from_slice(&self.version.to_le_bytes());
        v[4..36].copy_from_slice(&self.prev);
        v[36..68].copy_from_slice(&self.merkle);
        v[68..72].copy_from_slice(&self.time.to_le_bytes());
        v[72..76].copy_from_slice(&self.bits.to_le_bytes());
        v[76..80].copy_from_slice(&self.nonce.to_le_bytes());
        v
    }
    pub fn hash(&self) -> H256 {
        sha256d(&self.ser())
    }
}

#[derive(Clone, Debug, PartialEq, Eq, Hash)]
pub struct AuxPow {
    pub parent_coinbase: Tx,
    pub parent_hash: H256,
    pub coinbase_branch: Vec<H256>,
    pub coinbase_mask: u32,
    pub chain_branch: Vec<H256>,
    pub chain_mask: u32,
    /// CompactSize form of the two branch lengths: low nibble for the coinbase branch, high nibble for the chain branch
    /// (0 shortest, 1 0xfd form, 2 0xfe form, 3 0xff form); the same lengths, stored wider than necessary
    pub branch_wide: u8,
    pub parent_header: Header,
}

impl AuxPow {
    pub fn ser(&self) -> Vec<u8> {
        let mut v = self.parent_coinbase.ser();
        v.extend_from_slice(&self.parent_hash);
        v.extend(compact_size_wide(self.coinbase_branch.len() as u64, self.branch_wide & 15));
        for h in &self.coinbase_branch {
            v.extend_from_slice(h);
        }
        v.extend_from_slice(&self.coinbase_mask.to_le_bytes());
        v.extend(compact_size_wide(self.chain_branch.len() as u64, self.branch_wide >> 4));
        for h in &self.chain_branch {
            v.extend_from_slice(h);
        }
        v.extend_from_slice(&self.chain_mask.to_le_bytes());
        v.extend_from_slice(&self.parent_header.ser());
        v
    }
}

#[derive(Clone, Debug, PartialEq, Eq, Hash)]
pub struct Block {
    pub header: Header,
    pub auxpow: Option<AuxPow>,
    pub txs: Vec<Tx>,
    /// CompactSize form of the block's transaction count (0 shortest, 1 0xfd form, 2 0xfe form, 3 0xff form): the same count,
    /// stored wider than necessary (no hash covers it; the record's length field does)
    pub txcount_wide: u8,
}

pub fn merkle_root(mut level: Vec<H256>) -> H256 {
    // no transactions: the all-zero hash (Bitcoin Core's ComputeMerkleRoot of an empty list)
    if level.is_empty() {
        return [0u8; 32];
    }
    while level.len() > 1 {
        if level.len() % 2 == 1 {
            let l = *level.last().unwrap();
            level.push(l);
        }
        let mut next = Vec::with_capacity(level.len() / 2);
        for p in level.chunks(2) {
            let mut b = [0u8; 64];
            b[..32].copy_from_slice(&p[0]);
            b[32..].copy_from_slice(&p[1]);
            next.push(sha256d(&b));
        }
        level = next;
    }
    level[0]
}

impl Block {
    /// Build a block on `prev`, computing the merkle root from the txs.
    pub fn build(version: u32, prev: H256, time: u32, bits: u32, nonce: u32, txs: Vec<Tx>) -> Block {
        let merkle = merkle_root(txs.iter().map(|t| t.txid()).collect());
        Block { header: Header { version, prev, merkle, time, bits, nonce }, auxpow: None, txs, txcount_wide: 0 }
    }
    pub fn fix_merkle(&mut self) {
        self.header.merkle = merkle_root(self.txs.iter().map(|t| t.txid()).collect());
    }
    pub fn hash(&self) -> H256 {
        self.header.hash()
    }
    /// Serialised block as stored after the length prefix.
    pub fn ser(&self) -> Vec<u8> {
        let mut v = self.header.ser().to_vec();
        if let Some(a) = &self.auxpow {
            v.extend(a.ser());
        }
        v.extend(compact_size_wide(self.txs.len() as u64, self.txcount_wide));
        for t in &self.txs {
            v.extend(t.ser());
        }
        v
    }
}

/// Hash in the conventional display order (reversed, lowercase hex).
pub fn hash_hex(h: &H256) -> String {
    let mut s = String::with_capacity(64);
    for b in h.iter().rev() {
        s.push_str(&format!("{:02x}", b));
    }
    s
}

pub fn hex(b: &[u8]) -> String {
    const T: &[u8; 16] = b"0123456789abcdef";
    let mut s = String::with_capacity(b.len() * 2);
    for x in b {
        s.push(T[(x >> 4) as usize] as char);
        s.push(T[(x & 15) as usize] as char);
    }
    s
}

pub fn unhex(s: &str) -> Vec<u8> {
    let s = s.as_bytes();
    assert!(s.len() % 2 == 0);
    let d = |c: u8| -> u8 {
        match c {
            b'0'..=b'9' => c - b'0',
            b'a'..=b'f' => c - b'a' + 10,
            b'A'..=b'F' => c - b'A' + 10,
            _ => panic!("bad hex"),
        }
    };
    s.chunks(2).map(|p| d(p[0]) << 4 | d(p[1])).collect()
}

pub fn hash_from_hex_display(s: &str) -> H256 {
    let mut v = unhex(s);
    v.reverse();
    let mut h = [0u8; 32];
    h.copy_from_slice(&v);
    h
}
