//! Worlds: physical data directories (blk files, LevelDB block index, xor.dat) and their materialiser.
use crate::coins::Coin;
use crate::hash::H256;
use crate::ser::{core_varint, hex, Block};
use rusty_leveldb::{Options, DB};
use std::collections::BTreeMap;
use std::fs;
use std::io::{Seek, SeekFrom, Write};
use std::path::{Path, PathBuf};

pub const VALID_HEADER: u64 = 1;
pub const VALID_TREE: u64 = 2;
pub const VALID_TRANSACTIONS: u64 = 3;
pub const VALID_CHAIN: u64 = 4;
pub const VALID_SCRIPTS: u64 = 5;
pub const HAVE_DATA: u64 = 8;
pub const HAVE_UNDO: u64 = 16;
pub const FAILED_VALID: u64 = 32;
pub const FAILED_CHILD: u64 = 64;
pub const OPT_WITNESS: u64 = 128;
pub const ACTIVE: u64 = VALID_SCRIPTS | HAVE_DATA | HAVE_UNDO;

#[derive(Clone, Debug)]
pub struct IndexRec {
    pub hash: H256,
    pub client_version: u64,
    pub height: u64,
    pub status: u64,
    pub ntx: u64,
    pub file: u64,
    pub data_pos: u64,
    pub undo_pos: u64,
    pub header: [u8; 80],
}

impl IndexRec {
    pub fn key(&self) -> Vec<u8> {
        let mut k = vec![b'b'];
        k.extend_from_slice(&self.hash);
        k
    }
    /// CDiskBlockIndex serialisation (conditional fields as Bitcoin Core writes them).
    pub fn value(&self) -> Vec<u8> {
        let mut v = core_varint(self.client_version);
        v.extend(core_varint(self.height));
        v.extend(core_varint(self.status));
        v.extend(core_varint(self.ntx));
        if self.status & (HAVE_DATA | HAVE_UNDO) != 0 {
            v.extend(core_varint(self.file));
        }
        if self.status & HAVE_DATA != 0 {
            v.extend(core_varint(self.data_pos));
        }
        if self.status & HAVE_UNDO != 0 {
            v.extend(core_varint(self.undo_pos));
        }
        v.extend_from_slice(&self.header);
        v
    }
}

#[derive(Clone, Debug)]
pub enum IndexOp {
    Put(Vec<u8>, Vec<u8>),
    /// flush the memtable into a table file and compact
    Compact,
    /// close and reopen the database (log recovery on reopen)
    Reopen,
}

#[derive(Clone, Debug, Default)]
pub struct BlkFile {
    pub name: String,
    /// (offset, bytes) chunks; holes between chunks are sparse zeros
    pub chunks: Vec<(u64, Vec<u8>)>,
    pub len: u64,
}

impl BlkFile {
    pub fn append(&mut self, b: &[u8]) -> u64 {
        let at = self.len;
        if let Some(last) = self.chunks.last_mut() {
            if last.0 + last.1.len() as u64 == at {
                last.1.extend_from_slice(b);
                self.len += b.len() as u64;
                return at;
            }
        }
        self.chunks.push((at, b.to_vec()));
        self.len += b.len() as u64;
        at
    }
    /// sparse jump: the next append lands at `offset`
    pub fn skip_to(&mut self, offset: u64) {
        assert!(offset >= self.len);
        self.len = offset;
    }
    pub fn dense(&self) -> Vec<u8> {
        let mut v = vec![0u8; self.len as usize];
        for (o, c) in &self.chunks {
            v[*o as usize..*o as usize + c.len()].copy_from_slice(c);
        }
        v
    }
}

#[derive(Clone, Debug)]
pub enum Extra {
    File(String, Vec<u8>),
    Dir(String),
    /// symbolic link `name` -> `target` (the target need not exist)
    Symlink(String, String),
    /// a complete data directory (blk files, index, key file) in the sub-directory `name` of this one: a copy nested into
    /// itself by a careless `cp -r` / `rsync` without the trailing slash
    Nested(String, Box<World>),
    /// blk file number n is kept in the sibling directory `<dir>.archive/` under its own name and the data directory holds a
    /// symbolic link to it (older files moved to a bigger disk and linked back)
    Archived(u64),
    /// another LevelDB database at `path` (relative to the data directory, e.g. "../chainstate") with these key / value pairs
    LevelDb(String, Vec<(Vec<u8>, Vec<u8>)>),
}

#[derive(Clone, Debug)]
pub struct World {
    pub coin: &'static Coin,
    pub files: BTreeMap<u64, BlkFile>,
    pub index_ops: Vec<IndexOp>,
    pub xor_key: Option<Vec<u8>>,
    pub extra: Vec<Extra>,
}

pub fn default_blk_name(n: u64) -> String {
    format!("blk{:05}.dat", n)
}

impl World {
    pub fn new(coin: &'static Coin) -> World {
        World { coin, files: BTreeMap::new(), index_ops: vec![], xor_key: None, extra: vec![] }
    }
    pub fn file(&mut self, n: u64) -> &mut BlkFile {
        self.files.entry(n).or_insert_with(|| BlkFile { name: default_blk_name(n), chunks: vec![], len: 0 })
    }
    /// Append `magic | size | raw` to file `n`; returns the data offset (of `raw`) for the index.
    pub fn place_raw(&mut self, n: u64, raw: &[u8], size_prefix: u32) -> u64 {
        let magic = self.coin.magic;
        let f = self.file(n);
        f.append(&magic.to_le_bytes());
        f.append(&size_prefix.to_le_bytes());
        f.append(raw)
    }
    /// The four bytes in front of every stored block's length field are whatever the writing node's network uses (regtest,
    /// signet, testnet4 and private forks have magics of their own) - the parser is told the coin for the SCRIPT rules and finds
    /// the blocks through the index. Replaces every occurrence of the coin's magic in the files written so far.
    pub fn replace_magic(&mut self, magic: [u8; 4]) {
        let old = self.coin.magic.to_le_bytes();
        for f in self.files.values_mut() {
            for (_, c) in f.chunks.iter_mut() {
                let mut i = 0;
                while i + 4 <= c.len() {
                    if c[i..i + 4] == old {
                        c[i..i + 4].copy_from_slice(&magic);
                        i += 4;
                    } else {
                        i += 1;
                    }
                }
            }
        }
    }
    pub fn put_rec(&mut self, r: &IndexRec) {
        self.index_ops.push(IndexOp::Put(r.key(), r.value()));
    }
    /// Place block in file `n` and index it as an active-chain block.
    /// Status as Bitcoin Core writes it for a connected block; odd heights additionally carry BLOCK_OPT_WITNESS (0x80, every
    /// block since segwit activation has it) and heights = 3 mod 4 the reserved bit 0x100 - flags that say nothing about
    /// whether the block belongs to the active chain or where its data is.
    pub fn add_block(&mut self, n: u64, height: u64, b: &Block) -> IndexRec {
        let extra = if height % 2 == 1 { OPT_WITNESS } else { 0 } | if height % 4 == 3 { 0x100 } else { 0 };
        // one height in six is a connected block whose record carries no undo position (the three position fields of a record
        // are present independently of each other: file number if data or undo, data offset if data, undo offset if undo)
        let base = if height % 6 == 2 { VALID_SCRIPTS | HAVE_DATA } else { ACTIVE };
        self.add_block_status(n, height, b, if height == 0 { VALID_SCRIPTS | HAVE_DATA } else { base | extra })
    }
    /// As `add_block`, with the record's 4-byte length field set to `prefix` (readers locate blocks by the index and decode
    /// them from the stream; the field says how much room the writer reserved, not how long the block is).
    pub fn add_block_prefixed(&mut self, n: u64, height: u64, b: &Block, prefix: u32) -> IndexRec {
        let raw = b.ser();
        let pos = self.place_raw(n, &raw, prefix);
        let r = IndexRec { hash: b.hash(), client_version: 270000, height, status: if height == 0 { VALID_SCRIPTS | HAVE_DATA } else { ACTIVE }, ntx: b.txs.len() as u64, file: n, data_pos: pos, undo_pos: 8 + (height % 1_000_000) * 100, header: b.header.ser() };
        self.put_rec(&r);
        r
    }
    pub fn add_block_status(&mut self, n: u64, height: u64, b: &Block, status: u64) -> IndexRec {
        let raw = b.ser();
        let pos = self.place_raw(n, &raw, raw.len() as u32);
        let r = IndexRec { hash: b.hash(), client_version: 270000, height, status, ntx: b.txs.len() as u64, file: n, data_pos: pos, undo_pos: 8 + (height % 1_000_000) * 100, header: b.header.ser() };
        self.put_rec(&r);
        r
    }
    /// Whole chain in blk00000.dat, heights from `first_height`.
    pub fn simple(coin: &'static Coin, chain: &[Block], first_height: u64) -> World {
        let mut w = World::new(coin);
        for (i, b) in chain.iter().enumerate() {
            w.add_block(0, first_height + i as u64, b);
        }
        w
    }

    /// The chain spread over two blk files so that the height order keeps leaving a file and coming back to it for the
    /// block stored directly behind the one read there last (what a late block at a file roll-over produces):
    /// height i goes to file [0,1,0,0,1,1,0,1][i % 8].
    pub fn interleaved(coin: &'static Coin, chain: &[Block], first_height: u64) -> World {
        let mut w = World::new(coin);
        for (i, b) in chain.iter().enumerate() {
            w.add_block([0u64, 1, 0, 0, 1, 1, 0, 1][i % 8], first_height + i as u64, b);
        }
        w
    }
    /// `variant` even: everything in blk00000.dat; odd: the interleaved two-file layout.
    pub fn laid_out(coin: &'static Coin, chain: &[Block], first_height: u64, variant: usize) -> World {
        if variant % 2 == 0 {
            World::simple(coin, chain, first_height)
        } else {
            World::interleaved(coin, chain, first_height)
        }
    }

    /// A never-connected record (VALID_TRANSACTIONS | HAVE_DATA, pointing into a blk file that does not exist) at the height
    /// of `active`, whose KEY agrees with the active block's hash in part: variant 0 the first 8 bytes, 1 the last 8 bytes,
    /// 2 all but the last byte (sorts right next to it), 3 all but the first byte, 4 eight zero bytes followed by the active
    /// hash's tail. Its header is the active header with another nonce. (Real index keys are header hashes, where such
    /// agreement costs 2^64 work; nothing an implementation does with the keys may depend on that.)
    pub fn add_key_twin(&mut self, active: &IndexRec, variant: u8) {
        let mut k = active.hash;
        match variant % 5 {
            0 => k[8..].iter_mut().for_each(|b| *b = !*b),
            1 => k[..24].iter_mut().for_each(|b| *b = !*b),
            2 => k[31] ^= 1,
            3 => k[0] ^= 0x80,
            _ => k[..8].iter_mut().for_each(|b| *b = 0),
        }
        let mut header = active.header;
        header[76] ^= 0x55;
        self.put_rec(&IndexRec { hash: k, client_version: 270000, height: active.height, status: VALID_TRANSACTIONS | HAVE_DATA, ntx: 1, file: 4242, data_pos: 8, undo_pos: 0, header });
    }

    /// Canonical description (content-addressed identity and replay payload).
    pub fn describe(&self) -> serde_json::Value {
        use serde_json::json;
        let files: Vec<_> = self
            .files
            .iter()
            .map(|(n, f)| {
                json!({"no": n.to_string(), "name": f.name, "len": f.len, "chunks": f.chunks.iter().map(|(o, c)| json!([o, hex(c)])).collect::<Vec<_>>()})
            })
            .collect();
        let ops: Vec<_> = self
            .index_ops
            .iter()
            .map(|o| match o {
                IndexOp::Put(k, v) => json!(["put", hex(k), hex(v)]),
                IndexOp::Compact => json!(["compact"]),
                IndexOp::Reopen => json!(["reopen"]),
            })
            .collect();
        let extra: Vec<_> = self
            .extra
            .iter()
            .map(|e| match e {
                Extra::File(n, c) => json!(["file", n, hex(c)]),
                Extra::Dir(n) => json!(["dir", n]),
                Extra::Symlink(n, t) => json!(["symlink", n, t]),
                Extra::Nested(n, w) => json!(["nested", n, w.describe()]),
                Extra::Archived(n) => json!(["archived", n.to_string()]),
                Extra::LevelDb(n, kv) => json!(["leveldb", n, kv.iter().map(|(k, v)| json!([hex(k), hex(v)])).collect::<Vec<_>>()]),
            })
            .collect();
        json!({"coin": self.coin.name, "files": files, "index_ops": ops, "xor_key": self.xor_key.as_ref().map(|k| hex(k)), "extra": extra})
    }

    pub fn from_description(v: &serde_json::Value) -> World {
        use crate::ser::unhex;
        let coin = crate::coins::coin(v["coin"].as_str().unwrap());
        let mut w = World::new(coin);
        for f in v["files"].as_array().unwrap() {
            let n: u64 = f["no"].as_str().unwrap().parse().unwrap();
            let bf = BlkFile {
                name: f["name"].as_str().unwrap().to_string(),
                len: f["len"].as_u64().unwrap(),
                chunks: f["chunks"].as_array().unwrap().iter().map(|c| (c[0].as_u64().unwrap(), unhex(c[1].as_str().unwrap()))).collect(),
            };
            w.files.insert(n, bf);
        }
        for o in v["index_ops"].as_array().unwrap() {
            match o[0].as_str().unwrap() {
                "put" => w.index_ops.push(IndexOp::Put(unhex(o[1].as_str().unwrap()), unhex(o[2].as_str().unwrap()))),
                "compact" => w.index_ops.push(IndexOp::Compact),
                _ => w.index_ops.push(IndexOp::Reopen),
            }
        }
        w.xor_key = v["xor_key"].as_str().map(unhex);
        for e in v["extra"].as_array().unwrap() {
            match e[0].as_str().unwrap() {
                "file" => w.extra.push(Extra::File(e[1].as_str().unwrap().to_string(), unhex(e[2].as_str().unwrap()))),
                "symlink" => w.extra.push(Extra::Symlink(e[1].as_str().unwrap().to_string(), e[2].as_str().unwrap().to_string())),
                "nested" => w.extra.push(Extra::Nested(e[1].as_str().unwrap().to_string(), Box::new(World::from_description(&e[2])))),
                "archived" => w.extra.push(Extra::Archived(e[1].as_str().unwrap().parse().unwrap())),
                "leveldb" => w.extra.push(Extra::LevelDb(e[1].as_str().unwrap().to_string(), e[2].as_array().unwrap().iter().map(|p| (unhex(p[0].as_str().unwrap()), unhex(p[1].as_str().unwrap()))).collect())),
                _ => w.extra.push(Extra::Dir(e[1].as_str().unwrap().to_string())),
            }
        }
        w
    }

    /// Write the data directory. `dir` must not exist or be empty.
    pub fn materialise(&self, dir: &Path) -> std::io::Result<()> {
        fs::create_dir_all(dir)?;
        for f in self.files.values() {
            let mut fh = fs::File::create(dir.join(&f.name))?;
            for (o, c) in &f.chunks {
                fh.seek(SeekFrom::Start(*o))?;
                match &self.xor_key {
                    Some(k) if !k.is_empty() => {
                        let x: Vec<u8> = c.iter().enumerate().map(|(i, b)| b ^ k[((*o + i as u64) % k.len() as u64) as usize]).collect();
                        fh.write_all(&x)?;
                    }
                    _ => fh.write_all(c)?,
                }
            }
            fh.set_len(f.len)?;
        }
        if let Some(k) = &self.xor_key {
            fs::write(dir.join("xor.dat"), k)?;
        }
        for e in &self.extra {
            match e {
                Extra::File(n, c) => fs::write(dir.join(n), c)?,
                Extra::Dir(n) => fs::create_dir_all(dir.join(n))?,
                Extra::Symlink(n, t) => {
                    let _ = fs::remove_file(dir.join(n));
                    std::os::unix::fs::symlink(t, dir.join(n))?
                }
                Extra::Nested(n, w) => w.materialise(&dir.join(n))?,
                Extra::LevelDb(n, kv) => {
                    let ops: Vec<IndexOp> = kv.iter().map(|(k, v)| IndexOp::Put(k.clone(), v.clone())).collect();
                    let _ = fs::remove_dir_all(dir.join(n));
                    write_index(&dir.join(n), &ops).map_err(|e| std::io::Error::new(std::io::ErrorKind::Other, format!("leveldb {}: {}", n, e)))?;
                }
                Extra::Archived(n) => {
                    if let Some(f) = self.files.get(n) {
                        let mut arch = dir.as_os_str().to_os_string();
                        arch.push(".archive");
                        let arch = std::path::PathBuf::from(arch);
                        fs::create_dir_all(&arch)?;
                        let _ = fs::remove_file(arch.join(&f.name));
                        fs::rename(dir.join(&f.name), arch.join(&f.name))?;
                        std::os::unix::fs::symlink(arch.join(&f.name), dir.join(&f.name))?
                    }
                }
            }
        }
        write_index(&dir.join("index"), &self.index_ops).map_err(|e| std::io::Error::new(std::io::ErrorKind::Other, format!("leveldb: {}", e)))?;
        Ok(())
    }
}

fn ldb_opts() -> Options {
    let mut o = Options::default();
    o.create_if_missing = true;
    // as the node's LevelDB does: every (re)opening starts a new write-ahead log and MANIFEST, so the file numbers of an index
    // grow with the number of restarts it has seen
    o.reuse_logs = false;
    o
}

pub fn write_index(path: &Path, ops: &[IndexOp]) -> Result<(), String> {
    let mut db = DB::open(path, ldb_opts()).map_err(|e| e.to_string())?;
    for op in ops {
        match op {
            IndexOp::Put(k, v) => db.put(k, v).map_err(|e| e.to_string())?,
            IndexOp::Compact => {
                db.flush().map_err(|e| e.to_string())?;
                db.compact_range(&[0u8], &[0xffu8; 40]).map_err(|e| e.to_string())?;
            }
            IndexOp::Reopen => {
                db.flush().map_err(|e| e.to_string())?;
                drop(db);
                db = DB::open(path, ldb_opts()).map_err(|e| e.to_string())?;
            }
        }
    }
    db.flush().map_err(|e| e.to_string())?;
    drop(db);
    Ok(())
}

/// Key/value content of an index directory (read from a private copy so the original is untouched).
pub fn dump_index(path: &Path, scratch: &Path) -> Result<Vec<(Vec<u8>, Vec<u8>)>, String> {
    use rusty_leveldb::LdbIterator;
    let _ = fs::remove_dir_all(scratch);
    copy_dir(path, scratch).map_err(|e| e.to_string())?;
    let mut db = DB::open(scratch, Options::default()).map_err(|e| e.to_string())?;
    let mut it = db.new_iter().map_err(|e| e.to_string())?;
    let mut out = Vec::new();
    let (mut k, mut v) = (vec![], vec![]);
    while it.advance() {
        it.current(&mut k, &mut v);
        out.push((k.clone(), v.clone()));
    }
    drop(it);
    drop(db);
    let _ = fs::remove_dir_all(scratch);
    Ok(out)
}

pub fn copy_dir(from: &Path, to: &Path) -> std::io::Result<()> {
    fs::create_dir_all(to)?;
    for e in fs::read_dir(from)? {
        let e = e?;
        let p = e.path();
        if p.is_dir() {
            copy_dir(&p, &to.join(e.file_name()))?;
        } else {
            fs::copy(&p, to.join(e.file_name()))?;
        }
    }
    Ok(())
}

/// Scratch root: ${VERIF_SCRATCH:-/dev/shm}/rbp-verif.<pid>
pub fn scratch_root() -> PathBuf {
    let base = std::env::var("VERIF_SCRATCH").unwrap_or_else(|_| "/dev/shm".into());
    let p = PathBuf::from(base).join(format!("rbp-verif.{}", std::process::id()));
    fs::create_dir_all(&p).unwrap();
    p
}
