//! Own Base58Check and Bech32/Bech32m encoders and decoders.
use crate::hash::sha256d;

const B58: &[u8; 58] = b"123456789ABCDEFGHJKLMNPQRSTUVWXYZabcdefghijkmnopqrstuvwxyz";

pub fn base58_encode(data: &[u8]) -> String {
    let zeros = data.iter().take_while(|b| **b == 0).count();
    // big-number base conversion
    let mut digits: Vec<u8> = Vec::new(); // little endian base58 digits
    for &byte in data {
        let mut carry = byte as u32;
        for d in digits.iter_mut() {
            carry += (*d as u32) << 8;
            *d = (carry % 58) as u8;
            carry /= 58;
        }
        while carry > 0 {
            digits.push((carry % 58) as u8);
            carry /= 58;
        }
    }
    let mut s = String::new();
    for _ in 0..zeros {
        s.push('1');
    }
    for d in digits.iter().rev() {
        s.push(B58[*d as usize] as char);
    }
    s
}

pub fn base58_decode(s: &str) -> Option<Vec<u8>> {
    let zeros = s.bytes().take_while(|b| *b == b'1').count();
    let mut bytes: Vec<u8> = Vec::new(); // little endian
    for c in s.bytes() {
        let v = B58.iter().position(|x| *x == c)? as u32;
        let mut carry = v;
        for b in bytes.iter_mut() {
            carry += (*b as u32) * 58;
            *b = (carry & 0xff) as u8;
            carry >>= 8;
        }
        while carry > 0 {
            bytes.push((carry & 0xff) as u8);
            carry >>= 8;
        }
    }
    let mut out = vec![0u8; zeros];
    out.extend(bytes.iter().rev());
    Some(out)
}

pub fn base58check(version: u8, payload: &[u8]) -> String {
    let mut v = vec![version];
    v.extend_from_slice(payload);
    let c = sha256d(&v);
    v.extend_from_slice(&c[..4]);
    base58_encode(&v)
}

/// Returns (version byte, payload) if the checksum is valid.
pub fn base58check_decode(s: &str) -> Option<(u8, Vec<u8>)> {
    let v = base58_decode(s)?;
    if v.len() < 5 {
        return None;
    }
    let (body, chk) = v.split_at(v.len() - 4);
    if sha256d(body)[..4] != *chk {
        return None;
    }
    Some((body[0], body[1..].to_vec()))
}

const CHARSET: &[u8; 32] = b"qpzry9x8gf2tvdw0s3jn54khce6mua7l";
const BECH32_CONST: u32 = 1;
const BECH32M_CONST: u32 = 0x2bc830a3;

fn polymod(values: &[u8]) -> u32 {
    const GEN: [u32; 5] = [0x3b6a57b2, 0x26508e6d, 0x1ea119fa, 0x3d4233dd, 0x2a1462b3];
    let mut chk: u32 = 1;
    for v in values {
        let b = chk >> 25;
        chk = ((chk & 0x1ffffff) << 5) ^ (*v as u32);
        for (i, g) in GEN.iter().enumerate() {
            if (b >> i) & 1 == 1 {
                chk ^= g;
            }
        }
    }
    chk
}

fn hrp_expand(hrp: &str) -> Vec<u8> {
    let mut v: Vec<u8> = hrp.bytes().map(|c| c >> 5).collect();
    v.push(0);
    v.extend(hrp.bytes().map(|c| c & 31));
    v
}

fn convert_bits(data: &[u8], from: u32, to: u32, pad: bool) -> Option<Vec<u8>> {
    let mut acc: u32 = 0;
    let mut bits: u32 = 0;
    let mut ret = Vec::new();
    let maxv = (1u32 << to) - 1;
    for v in data {
        if (*v as u32) >> from != 0 {
            return None;
        }
        acc = (acc << from) | (*v as u32);
        bits += from;
        while bits >= to {
            bits -= to;
            ret.push(((acc >> bits) & maxv) as u8);
        }
    }
    if pad {
        if bits > 0 {
            ret.push(((acc << (to - bits)) & maxv) as u8);
        }
    } else if bits >= from || ((acc << (to - bits)) & maxv) != 0 {
        return None;
    }
    Some(ret)
}

/// Segwit address: witness version 0 -> Bech32, 1..16 -> Bech32m.
pub fn segwit_encode(hrp: &str, witver: u8, program: &[u8]) -> String {
    let mut data = vec![witver];
    data.extend(convert_bits(program, 8, 5, true).unwrap());
    let c = if witver == 0 { BECH32_CONST } else { BECH32M_CONST };
    let mut values = hrp_expand(hrp);
    values.extend_from_slice(&data);
    values.extend_from_slice(&[0; 6]);
    let pm = polymod(&values) ^ c;
    let mut s = String::from(hrp);
    s.push('1');
    for d in &data {
        s.push(CHARSET[*d as usize] as char);
    }
    for i in 0..6 {
        s.push(CHARSET[((pm >> (5 * (5 - i))) & 31) as usize] as char);
    }
    s
}

/// Returns (hrp, witness version, program) if the checksum (of the variant required by the version) is valid.
pub fn segwit_decode(s: &str) -> Option<(String, u8, Vec<u8>)> {
    if s.bytes().any(|c| c.is_ascii_uppercase()) && s.bytes().any(|c| c.is_ascii_lowercase()) {
        return None;
    }
    let s = s.to_ascii_lowercase();
    let pos = s.rfind('1')?;
    if pos < 1 || pos + 7 > s.len() {
        return None;
    }
    let hrp = &s[..pos];
    let mut data = Vec::new();
    for c in s[pos + 1..].bytes() {
        data.push(CHARSET.iter().position(|x| *x == c)? as u8);
    }
    let mut values = hrp_expand(hrp);
    values.extend_from_slice(&data);
    let pm = polymod(&values);
    let payload = &data[..data.len() - 6];
    if payload.is_empty() {
        return None;
    }
    let witver = payload[0];
    let want = if witver == 0 { BECH32_CONST } else { BECH32M_CONST };
    if pm != want || witver > 16 {
        return None;
    }
    let prog = convert_bits(&payload[1..], 5, 8, false)?;
    if prog.len() < 2 || prog.len() > 40 {
        return None;
    }
    Some((hrp.to_string(), witver, prog))
}

/// Self-test against published vectors; returns an error description on failure.
pub fn self_test() -> Result<(), String> {
    // Base58Check: genesis coinbase key hash / well-known addresses
    let h = crate::ser::unhex("62e907b15cbf27d5425399ebf6f0fb50ebb88f18");
    if base58check(0, &h) != "1A1zP1eP5QGefi2DMPTfTL5SLmv7DivfNa" {
        return Err("base58check genesis address".into());
    }
    if base58check_decode("1A1zP1eP5QGefi2DMPTfTL5SLmv7DivfNa") != Some((0, h.clone())) {
        return Err("base58check decode".into());
    }
    if base58check_decode("1A1zP1eP5QGefi2DMPTfTL5SLmv7DivfNb").is_some() {
        return Err("base58check accepts bad checksum".into());
    }
    // addresses asserted by the repository's own unit tests
    let h = crate::ser::unhex("12ab8dc588ca9d5787dde7eb29569da63c3a238c");
    if base58check(0, &h) != "12higDjoCCNXSA95xZMWUdPvXNmkAduhWv" {
        return Err("base58check p2pkh vector".into());
    }
    let h = crate::ser::unhex("e9c3dd0c07aac76179ebc76a6c78d4d67c6c160a");
    if base58check(5, &h) != "3P14159f73E4gFr7JterCCQh9QjiTjiZrG" {
        return Err("base58check p2sh vector".into());
    }
    // BIP173 / BIP350 vectors
    let v: [(&str, &str, u8, &str); 6] = [
        ("BC1QW508D6QEJXTDG4Y5R3ZARVARY0C5XW7KV8F3T4", "bc", 0, "751e76e8199196d454941c45d1b3a323f1433bd6"),
        ("tb1qrp33g0q5c5txsp9arysrx4k6zdkfs4nce4xj0gdcccefvpysxf3q0sl5k7", "tb", 0, "1863143c14c5166804bd19203356da136c985678cd4d27a1b8c6329604903262"),
        ("bc1pw508d6qejxtdg4y5r3zarvary0c5xw7kw508d6qejxtdg4y5r3zarvary0c5xw7kt5nd6y", "bc", 1, "751e76e8199196d454941c45d1b3a323f1433bd6751e76e8199196d454941c45d1b3a323f1433bd6"),
        ("BC1SW50QGDZ25J", "bc", 16, "751e"),
        ("bc1zw508d6qejxtdg4y5r3zarvaryvaxxpcs", "bc", 2, "751e76e8199196d454941c45d1b3a323"),
        ("bc1p0xlxvlhemja6c4dqv22uapctqupfhlxm9h8z3k2e72q4k9hcz7vqzk5jj0", "bc", 1, "79be667ef9dcbbac55a06295ce870b07029bfcdb2dce28d959f2815b16f81798"),
    ];
    for (a, hrp, ver, prog) in v {
        let p = crate::ser::unhex(prog);
        if segwit_encode(hrp, ver, &p) != a.to_ascii_lowercase() {
            return Err(format!("segwit encode {}", a));
        }
        if segwit_decode(a) != Some((hrp.to_string(), ver, p)) {
            return Err(format!("segwit decode {}", a));
        }
    }
    // invalid: v0 with bech32m checksum / v1 with bech32 checksum
    for bad in ["bc1qw508d6qejxtdg4y5r3zarvary0c5xw7kemeawh", "bc1p0xlxvlhemja6c4dqv22uapctqupfhlxm9h8z3k2e72q4k9hcz7vqh2y7hd"] {
        if segwit_decode(bad).is_some() {
            return Err(format!("segwit accepts {}", bad));
        }
    }
    Ok(())
}
