//! Result plumbing shared by all engines: counters, disagreements with failure signatures,
//! replay files, the partial-evidence document consumed by ./check, and a small parallel runner.
use crate::hash::sha256;
use crate::ser::hex;
use serde_json::{json, Value};
use std::collections::{BTreeMap, BTreeSet};
use std::path::PathBuf;
use std::sync::atomic::{AtomicUsize, Ordering};
use std::sync::Mutex;
use std::time::Instant;

#[derive(Clone, Debug)]
pub struct Disagreement {
    pub signature: String,
    pub detail: String,
    pub replay: Value,
}

pub struct Report {
    pub prop: String,
    pub engine: String,
    pub tier: String,
    pub started: Instant,
    pub states: u64,
    pub transitions: u64,
    pub nontrivial: BTreeSet<[u8; 8]>,
    pub rule: String,
    pub samples: Vec<Value>,
    pub bound: Value,
    pub caps_hit: Vec<String>,
    pub counters: BTreeMap<String, u64>,
    pub outcomes: BTreeSet<[u8; 8]>,
    pub disagreements: BTreeMap<String, (u64, Vec<Disagreement>)>,
    pub machinery_errors: Vec<String>,
    pub assumptions: Vec<String>,
    pub not_covered: Vec<String>,
    pub exhaustive: bool,
    pub sampled_supplement: Vec<Value>,
}

pub fn h8(b: &[u8]) -> [u8; 8] {
    let h = sha256(b);
    let mut o = [0u8; 8];
    o.copy_from_slice(&h[..8]);
    o
}

pub fn tier() -> String {
    std::env::var("VERIF_TIER").unwrap_or_else(|_| "quick".into())
}
pub fn is_thorough() -> bool {
    tier() == "thorough"
}
pub fn threads() -> usize {
    std::env::var("VERIF_THREADS").ok().and_then(|s| s.parse().ok()).unwrap_or_else(|| std::thread::available_parallelism().map(|n| n.get()).unwrap_or(8))
}
/// Wall-clock cap in seconds for one engine invocation (0 = none).
pub fn wall_cap() -> u64 {
    std::env::var("VERIF_WALL_CAP").ok().and_then(|s| s.parse().ok()).unwrap_or(0)
}

impl Report {
    pub fn new(prop: &str, engine: &str) -> Report {
        Report {
            prop: prop.into(),
            engine: engine.into(),
            tier: tier(),
            started: Instant::now(),
            states: 0,
            transitions: 0,
            nontrivial: BTreeSet::new(),
            rule: String::new(),
            samples: vec![],
            bound: json!({}),
            caps_hit: vec![],
            counters: BTreeMap::new(),
            outcomes: BTreeSet::new(),
            disagreements: BTreeMap::new(),
            machinery_errors: vec![],
            assumptions: vec![],
            not_covered: vec![],
            exhaustive: true,
            sampled_supplement: vec![],
        }
    }
    pub fn count(&mut self, k: &str, n: u64) {
        *self.counters.entry(k.to_string()).or_insert(0) += n;
    }
    pub fn sample(&mut self, v: Value) {
        if self.samples.len() < 6 {
            self.samples.push(v);
        }
    }
    pub fn disagree(&mut self, signature: &str, detail: String, replay: Value) {
        if signature.starts_with("machinery-") {
            self.machinery(format!("{}: {}", signature, detail));
            return;
        }
        let e = self.disagreements.entry(signature.to_string()).or_insert((0, vec![]));
        e.0 += 1;
        if e.1.len() < 3 {
            e.1.push(Disagreement { signature: signature.to_string(), detail, replay });
        }
    }
    pub fn machinery(&mut self, msg: String) {
        if self.machinery_errors.len() < 20 {
            self.machinery_errors.push(msg);
        }
    }
    pub fn merge(&mut self, o: Report) {
        self.states += o.states;
        self.transitions += o.transitions;
        self.nontrivial.extend(o.nontrivial);
        for s in o.samples {
            self.sample(s);
        }
        for (k, v) in o.counters {
            *self.counters.entry(k).or_insert(0) += v;
        }
        self.outcomes.extend(o.outcomes);
        for (k, (n, v)) in o.disagreements {
            let e = self.disagreements.entry(k).or_insert((0, vec![]));
            e.0 += n;
            for d in v {
                if e.1.len() < 3 {
                    e.1.push(d);
                }
            }
        }
        for m in o.machinery_errors {
            self.machinery(m);
        }
        self.caps_hit.extend(o.caps_hit);
        self.exhaustive &= o.exhaustive;
        self.sampled_supplement.extend(o.sampled_supplement);
    }

    /// Write replay files and the partial document; returns process exit code (0 done, 2 machinery error).
    pub fn finish(self) -> i32 {
        let out = std::env::var("VERIF_PARTIAL").unwrap_or_else(|_| format!("/verif/.build/partial/{}.{}.json", self.prop, self.engine));
        let replay_dir = PathBuf::from(std::env::var("VERIF_REPLAY_DIR").unwrap_or_else(|_| "/verif/replays".into()));
        let _ = std::fs::create_dir_all(&replay_dir);
        if let Some(p) = PathBuf::from(&out).parent() {
            let _ = std::fs::create_dir_all(p);
        }
        let mut counters = self.counters.clone();
        let retries = crate::run::TIMEOUT_RETRIES.load(std::sync::atomic::Ordering::SeqCst);
        if retries > 0 {
            counters.insert("executions_repeated_after_wall_limit".into(), retries);
        }
        let (dev, rel) = (crate::run::DEV_RUNS.load(std::sync::atomic::Ordering::SeqCst), crate::run::RELEASE_RUNS.load(std::sync::atomic::Ordering::SeqCst));
        if dev + rel > 0 {
            counters.insert("subject-runs:dev-profile-binary".into(), dev);
            counters.insert("subject-runs:release-profile-binary".into(), rel);
        }
        let mut dis = Vec::new();
        for (sig, (n, list)) in &self.disagreements {
            let mut files = Vec::new();
            for d in list {
                let doc = json!({"property": self.prop, "engine": self.engine, "signature": sig, "detail": d.detail, "case": d.replay});
                let text = serde_json::to_string_pretty(&doc).unwrap();
                let name = format!("{}-{}.json", self.prop, hex(&h8(text.as_bytes())));
                let path = replay_dir.join(name);
                let _ = std::fs::write(&path, text);
                files.push(json!({"replay": path.display().to_string(), "detail": d.detail}));
            }
            dis.push(json!({"signature": sig, "count": n, "cases": files}));
        }
        let doc = json!({
            "property": self.prop, "engine": self.engine, "tier": self.tier,
            "states": self.states, "transitions": self.transitions,
            "traces_validated_against_impl": self.transitions,
            "evaluations": self.transitions,
            "distinct_nontrivial": self.nontrivial.len(),
            "distinct_outcomes": self.outcomes.len(),
            "rule": self.rule, "samples": self.samples, "bound": self.bound, "caps_hit": self.caps_hit,
            "counters": counters, "exhaustive": self.exhaustive && self.caps_hit.is_empty(),
            "assumptions": self.assumptions, "not_covered": self.not_covered,
            "supplementary_sampled": self.sampled_supplement,
            "disagreements": dis, "machinery_errors": self.machinery_errors,
            "wall_s": self.started.elapsed().as_secs_f64(),
        });
        std::fs::write(&out, serde_json::to_string_pretty(&doc).unwrap()).expect("write partial");
        if !self.machinery_errors.is_empty() {
            for m in &self.machinery_errors {
                eprintln!("MACHINERY-ERROR {}", m);
            }
            return 2;
        }
        0
    }
}

/// Run `f` over all items on `threads()` workers; results in item order.
pub fn par_map<T: Sync, R: Send>(items: &[T], f: impl Fn(usize, usize, &T) -> R + Sync) -> Vec<R> {
    let n = items.len();
    let next = AtomicUsize::new(0);
    let out: Mutex<Vec<Option<R>>> = Mutex::new((0..n).map(|_| None).collect());
    let nt = threads().min(n.max(1));
    std::thread::scope(|s| {
        for w in 0..nt {
            let next = &next;
            let out = &out;
            let f = &f;
            s.spawn(move || loop {
                let i = next.fetch_add(1, Ordering::SeqCst);
                if i >= n {
                    break;
                }
                let r = f(w, i, &items[i]);
                out.lock().unwrap()[i] = Some(r);
            });
        }
    });
    out.into_inner().unwrap().into_iter().map(|x| x.unwrap()).collect()
}

/// Fold variant with bounded memory: each worker folds into its own accumulator.
pub fn par_fold<T: Sync, A: Send>(items: &[T], init: impl Fn() -> A + Sync, f: impl Fn(usize, usize, &T, &mut A) + Sync) -> Vec<A> {
    let n = items.len();
    let next = AtomicUsize::new(0);
    let nt = threads().min(n.max(1));
    let accs: Mutex<Vec<A>> = Mutex::new(Vec::new());
    std::thread::scope(|s| {
        for w in 0..nt {
            let next = &next;
            let f = &f;
            let init = &init;
            let accs = &accs;
            s.spawn(move || {
                let mut a = init();
                loop {
                    let i = next.fetch_add(1, Ordering::SeqCst);
                    if i >= n {
                        break;
                    }
                    f(w, i, &items[i], &mut a);
                }
                accs.lock().unwrap().push(a);
            });
        }
    });
    accs.into_inner().unwrap()
}
