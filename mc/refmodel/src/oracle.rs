//! Oracles comparing a run of the real binary with the reference model.
use crate::coins::Coin;
use crate::model::{self, MBlock};
use crate::run::RunResult;
use serde_json::{json, Value};
use std::collections::BTreeSet;

/// (signature, detail)
pub type Mismatch = (String, String);

fn mm(sig: &str, detail: String) -> Mismatch {
    (sig.to_string(), detail)
}

pub fn first_diff(a: &str, b: &str) -> String {
    let (la, lb): (Vec<&str>, Vec<&str>) = (a.lines().collect(), b.lines().collect());
    for i in 0..la.len().max(lb.len()) {
        let (x, y) = (la.get(i), lb.get(i));
        if x != y {
            let cut = |s: Option<&&str>| -> String {
                match s {
                    None => "<missing>".into(),
                    Some(s) => {
                        if s.len() > 300 {
                            format!("{}…[{}]", &s[..s.char_indices().take_while(|(i, _)| *i < 300).last().map(|x| x.0).unwrap_or(0)], s.len())
                        } else {
                            s.to_string()
                        }
                    }
                }
            };
            return format!("line {}: observed `{}` expected `{}`", i + 1, cut(x), cut(y));
        }
    }
    "equal".into()
}

pub fn in_range(chain: &[MBlock], s: u64, e: u64) -> Vec<MBlock> {
    chain.iter().filter(|b| b.height >= s && b.height <= e).cloned().collect()
}

pub fn expect_success(r: &RunResult) -> Vec<Mismatch> {
    let mut v = vec![];
    if r.stderr.contains("VERIF-HANG") {
        v.push(mm("run-does-not-terminate", format!("{} | stdout so far: {} bytes", r.stderr.lines().last().unwrap_or(""), r.stdout.len())));
        return v;
    }
    if r.stderr.contains("VERIF-TIMEOUT") || r.stderr.starts_with("SPAWN-ERROR") {
        v.push(mm("machinery-timeout", r.stderr.lines().last().unwrap_or("").to_string()));
        return v;
    }
    if r.code != Some(0) {
        let sig = if r.panicked() { "run-panicked" } else { "run-failed" };
        v.push(mm(sig, format!("exit {:?} signal {:?} stderr: {}", r.code, r.signal, r.stderr.lines().take(6).collect::<Vec<_>>().join(" | "))));
    }
    v
}

/// csvdump output for processed range [s,e] equals the model, byte for byte; names, totals, no tmp files.
pub fn check_csvdump(r: &RunResult, coin: &Coin, range: &[MBlock], s: u64, e: u64) -> Vec<Mismatch> {
    let mut v = expect_success(r);
    if !v.is_empty() {
        return v;
    }
    let m = model::csvdump(coin, range);
    let names = [("blocks", &m.blocks), ("transactions", &m.transactions), ("tx_in", &m.tx_in), ("tx_out", &m.tx_out)];
    let mut want: BTreeSet<String> = BTreeSet::new();
    for (k, text) in names {
        let name = format!("{}-{}-{}.csv", k, s, e);
        want.insert(name.clone());
        match r.files.get(&name) {
            None => v.push(mm("csvdump-file-missing", format!("{} missing; folder has {:?}", name, r.files.keys().collect::<Vec<_>>()))),
            Some(b) => {
                if b.as_slice() != text.as_bytes() {
                    v.push(mm(&format!("csvdump-{}-differs", k), format!("{}: {}", name, first_diff(&String::from_utf8_lossy(b), text))));
                }
            }
        }
    }
    for k in r.files.keys() {
        if !want.contains(k) {
            v.push(mm("csvdump-unexpected-file", format!("unexpected file {} in dump folder", k)));
        }
    }
    match r.summary_totals() {
        None => v.push(mm("csvdump-summary-missing", "completion summary not found".into())),
        Some(t) => {
            if t != (m.n_tx, m.n_in, m.n_out) {
                v.push(mm("csvdump-summary-totals", format!("summary {:?} rows written {:?}", t, (m.n_tx, m.n_in, m.n_out))));
            }
        }
    }
    v
}

fn rows_of(text: &str) -> (Option<String>, Vec<String>) {
    let mut it = text.lines();
    let h = it.next().map(|s| s.to_string());
    (h, it.map(|s| s.to_string()).collect())
}

fn check_rowset(r: &RunResult, name: &str, header: &str, want: &BTreeSet<String>, tag: &str) -> Vec<Mismatch> {
    let mut v = vec![];
    let text = match r.file_str(name) {
        None => {
            v.push(mm(&format!("{}-file-missing", tag), format!("{} missing; folder has {:?}", name, r.files.keys().collect::<Vec<_>>())));
            return v;
        }
        Some(t) => t,
    };
    if !text.is_empty() && !text.ends_with('\n') {
        v.push(mm(&format!("{}-truncated-line", tag), format!("{} does not end with a newline", name)));
    }
    let (h, rows) = rows_of(&text);
    if h.as_deref() != Some(header) {
        v.push(mm(&format!("{}-header", tag), format!("header {:?}", h)));
    }
    let got: BTreeSet<String> = rows.iter().cloned().collect();
    if got.len() != rows.len() {
        v.push(mm(&format!("{}-duplicate-row", tag), format!("{} rows, {} distinct", rows.len(), got.len())));
    }
    if &got != want {
        let extra: Vec<&String> = got.difference(want).take(3).collect();
        let missing: Vec<&String> = want.difference(&got).take(3).collect();
        v.push(mm(&format!("{}-rows-differ", tag), format!("unexpected {:?} missing {:?}", extra, missing)));
    }
    for k in r.files.keys() {
        if k != name {
            v.push(mm(&format!("{}-unexpected-file", tag), format!("unexpected file {} in dump folder", k)));
        }
    }
    v
}

pub fn check_unspent(r: &RunResult, coin: &Coin, range: &[MBlock], s: u64, e: u64) -> Vec<Mismatch> {
    let mut v = expect_success(r);
    if !v.is_empty() {
        return v;
    }
    let (u, n_tx, n_in, n_out) = model::utxo_set(coin, range);
    v.extend(check_rowset(r, &format!("unspent-{}-{}.csv", s, e), model::UNSPENT_HEADER, &model::unspent_rows(&u), "unspent"));
    match r.summary_totals() {
        None => v.push(mm("unspent-summary-missing", "completion summary not found".into())),
        Some(t) => {
            if t != (n_tx, n_in, n_out) {
                v.push(mm("unspent-summary-totals", format!("summary {:?} expected {:?}", t, (n_tx, n_in, n_out))));
            }
        }
    }
    v
}

pub fn check_balances(r: &RunResult, coin: &Coin, range: &[MBlock], s: u64, e: u64) -> Vec<Mismatch> {
    let mut v = expect_success(r);
    if !v.is_empty() {
        return v;
    }
    let (u, _, _, _) = model::utxo_set(coin, range);
    v.extend(check_rowset(r, &format!("balances-{}-{}.csv", s, e), model::BALANCES_HEADER, &model::balances_rows(&u), "balances"));
    v
}

pub fn check_stats(r: &RunResult, coin: &Coin, range: &[MBlock]) -> Vec<Mismatch> {
    let mut v = expect_success(r);
    if !v.is_empty() {
        return v;
    }
    let text = match r.record("simplestats") {
        None => return vec![mm("stats-report-missing", "no simplestats report in stdout".into())],
        Some(t) => t,
    };
    let rep = match model::parse_report(&text) {
        Err(e) => return vec![mm("stats-report-unparsable", e)],
        Ok(r) => r,
    };
    let s = model::simplestats(coin, range);
    for b in model::compare_report(&rep, &s) {
        let sig = b.split(':').next().unwrap_or("").replace(' ', "-");
        v.push(mm(&format!("stats-{}", sig), b));
    }
    v
}

/// Parsed opreturn lines: (height, txid, data)
pub fn parse_opreturn(r: &RunResult) -> Result<Vec<(u64, String, String)>, String> {
    let (_, raw) = r.log_records();
    let mut out: Vec<(u64, String, String)> = Vec::new();
    for l in raw {
        if let Some(rest) = l.strip_prefix("height: ") {
            let p = rest.find(" txid: ").ok_or_else(|| format!("bad line {}", l))?;
            let h: u64 = rest[..p].trim().parse().map_err(|_| format!("bad height in {}", l))?;
            let rest = &rest[p + 7..];
            if rest.len() < 64 + 10 || &rest[64..74] != "    data: " {
                return Err(format!("bad line {}", l));
            }
            out.push((h, rest[..64].to_string(), rest[74..].to_string()));
        } else if let Some(last) = out.last_mut() {
            // a payload containing a line break continues on the next stdout line
            last.2.push('\n');
            last.2.push_str(&l);
        } else if !l.is_empty() {
            return Err(format!("unexpected stdout line {:?}", l));
        }
    }
    Ok(out)
}

pub fn check_opreturn(r: &RunResult, coin: &Coin, range: &[MBlock]) -> Vec<Mismatch> {
    let v = expect_success(r);
    if !v.is_empty() {
        return v;
    }
    check_opreturn_lines(r, coin, range)
}

/// The printed lines alone (whatever the exit status): exactly the model's lines for `range`, in order.
pub fn check_opreturn_lines(r: &RunResult, coin: &Coin, range: &[MBlock]) -> Vec<Mismatch> {
    let mut v: Vec<Mismatch> = Vec::new();
    let got = match parse_opreturn(r) {
        Err(e) => return vec![mm("opreturn-unparsable", e)],
        Ok(g) => g,
    };
    let want = model::opreturn_lines(coin, range);
    // expected lines with data=None are optional (any text); exact sequence match with optional elements (DP)
    let (n, m) = (got.len(), want.len());
    let mut ok = vec![vec![false; m + 1]; n + 1];
    ok[n][m] = true;
    for wi in (0..m).rev() {
        for gi in (0..=n).rev() {
            let w = &want[wi];
            ok[gi][wi] = match &w.data {
                Some(d) => gi < n && got[gi].0 == w.height && got[gi].1 == w.txid && &got[gi].2 == d && ok[gi + 1][wi + 1],
                None => ok[gi][wi + 1] || (gi < n && got[gi].0 == w.height && got[gi].1 == w.txid && ok[gi + 1][wi + 1]),
            };
        }
    }
    if ok[0][0] {
        return v;
    }
    // explain: greedy walk to the first difference
    let mut gi = 0;
    for w in &want {
        match &w.data {
            Some(d) => match got.get(gi) {
                Some(g) if g.0 == w.height && g.1 == w.txid && &g.2 == d => gi += 1,
                Some(g) => {
                    let sig = if g.0 == w.height && g.1 == w.txid { "opreturn-payload-differs" } else { "opreturn-line-mismatch" };
                    v.push(mm(sig, format!("line {}: observed {:?} expected {:?}", gi + 1, g, (w.height, &w.txid, d))));
                    return v;
                }
                None => {
                    v.push(mm("opreturn-line-missing", format!("line {} missing: expected {:?}", gi + 1, (w.height, &w.txid, d))));
                    return v;
                }
            },
            None => {
                if let Some(g) = got.get(gi) {
                    if g.0 == w.height && g.1 == w.txid {
                        gi += 1;
                    }
                }
            }
        }
    }
    v.push(mm("opreturn-unexpected-line", format!("unexpected line {:?}", got.get(gi))));
    v
}

pub fn expected_brief(what: &str, s: u64, e: u64) -> Value {
    json!({"oracle": what, "range": [s, e]})
}
