//! Helpers to build well-formed logical chains.
use crate::coins::{genesis, Coin};
use crate::hash::H256;
use crate::model::MBlock;
use crate::script;
use crate::ser::{Block, Tx, TxIn, TxOut};

pub const COIN_VALUE: u64 = 100_000_000;

/// Coinbase whose scriptSig carries the height and a tag (unique txids).
pub fn coinbase(height: u64, tag: u32, outputs: Vec<TxOut>) -> Tx {
    let mut sig = vec![0x08];
    sig.extend_from_slice(&(height as u32).to_le_bytes());
    sig.extend_from_slice(&tag.to_le_bytes());
    Tx { version: 1, segwit: false, inputs: vec![TxIn::coinbase(sig)], outputs, locktime: 0, wide: 0 }
}

pub fn pay(addr_seed: u8, value: u64) -> TxOut {
    TxOut { value, script: script::p2pkh(&script::h20(addr_seed)) }
}

pub struct ChainBuilder {
    pub coin: &'static Coin,
    pub blocks: Vec<Block>,
    pub first_height: u64,
    pub time: u32,
    pub version: u32,
}

impl ChainBuilder {
    /// Chain starting at height 0 with the coin's real genesis block when it is known
    /// (otherwise a synthetic block 0).
    pub fn with_genesis(coin: &'static Coin) -> ChainBuilder {
        let mut cb = ChainBuilder { coin, blocks: vec![], first_height: 0, time: 1_600_000_000, version: 1 };
        match genesis(coin) {
            Some(g) => cb.blocks.push(g),
            None => {
                cb.push(vec![]);
            }
        }
        cb
    }
    /// Chain whose first block sits at `first_height` on top of an arbitrary parent hash.
    pub fn at(coin: &'static Coin, first_height: u64) -> ChainBuilder {
        ChainBuilder { coin, blocks: vec![], first_height, time: 1_600_000_000, version: 1 }
    }
    pub fn has_real_genesis(&self) -> bool {
        self.first_height == 0 && genesis(self.coin).map(|g| g.hash()) == self.blocks.first().map(|b| b.hash())
    }
    pub fn tip_hash(&self) -> H256 {
        match self.blocks.last() {
            Some(b) => b.hash(),
            None => {
                let mut h = [0x11u8; 32];
                h[0] = (self.first_height & 0xff) as u8;
                if self.first_height == 0 {
                    h = [0u8; 32];
                }
                h
            }
        }
    }
    pub fn next_height(&self) -> u64 {
        self.first_height + self.blocks.len() as u64
    }
    /// Append a block: a default coinbase followed by `txs`.
    pub fn push(&mut self, txs: Vec<Tx>) -> &Block {
        let h = self.next_height();
        let cbtx = coinbase(h, 0, vec![pay(1, 50 * COIN_VALUE)]);
        let mut all = vec![cbtx];
        all.extend(txs);
        self.push_raw(all)
    }
    /// Append a block with exactly these transactions.
    pub fn push_raw(&mut self, txs: Vec<Tx>) -> &Block {
        self.time += 600;
        let b = Block::build(self.version, self.tip_hash(), self.time, 0x1d00ffff, self.next_height() as u32 ^ 0x5555, txs);
        self.blocks.push(b);
        self.blocks.last().unwrap()
    }
    pub fn mblocks(&self) -> Vec<MBlock> {
        self.blocks.iter().enumerate().map(|(i, b)| MBlock { height: self.first_height + i as u64, size: b.ser().len() as u32, block: b.clone() }).collect()
    }
}

pub fn mblocks(chain: &[Block], first_height: u64) -> Vec<MBlock> {
    chain.iter().enumerate().map(|(i, b)| MBlock { height: first_height + i as u64, size: b.ser().len() as u32, block: b.clone() }).collect()
}
