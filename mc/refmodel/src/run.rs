//! Running the real binary on a materialised world and parsing what it produced.
use std::collections::BTreeMap;
use std::fs;
use std::os::unix::process::{CommandExt, ExitStatusExt};
use std::path::{Path, PathBuf};
use std::process::{Command, Stdio};

#[derive(Clone, Debug, PartialEq, Eq, Hash, PartialOrd, Ord)]
pub struct RunSpec {
    pub coin: String,
    pub callback: String,
    pub start: Option<u64>,
    pub end: Option<u64>,
    pub verify: bool,
    pub threads: u32,
    pub verbosity: u8,
    /// extra environment (LD_PRELOAD, fault plan ...)
    pub env: Vec<(String, String)>,
    /// RLIMIT_NOFILE / RLIMIT_FSIZE to apply in the child (0 = leave)
    pub rlimit_nofile: u64,
    pub rlimit_fsize: Option<u64>,
}

impl RunSpec {
    pub fn new(coin: &str, callback: &str) -> RunSpec {
        RunSpec { coin: coin.into(), callback: callback.into(), start: None, end: None, verify: false, threads: 2, verbosity: 0, env: vec![], rlimit_nofile: 0, rlimit_fsize: None }
    }
    pub fn range(mut self, s: Option<u64>, e: Option<u64>) -> RunSpec {
        self.start = s;
        self.end = e;
        self
    }
    pub fn verify(mut self, v: bool) -> RunSpec {
        self.verify = v;
        self
    }
    pub fn needs_dump(&self) -> bool {
        matches!(self.callback.as_str(), "csvdump" | "unspentcsvdump" | "balances")
    }
    /// Spelling of the command line (env entry VERIF_ARGV_FORM of the spec; default 0): 1 long options with `=`, 2 numbers with
    /// leading zeros, 3 numbers with a plus sign, 4 the options in another order (range and data directory before the coin).
    pub fn argv(&self, data: &Path, dump: &Path) -> Vec<String> {
        let form: u8 = self.env.iter().find(|(k, _)| k == "VERIF_ARGV_FORM").and_then(|(_, v)| v.parse().ok()).unwrap_or(0);
        if form != 0 {
            let num = |n: u64| match form {
                2 => format!("{:05}", n),
                3 => format!("+{}", n),
                _ => n.to_string(),
            };
            let mut range: Vec<String> = vec![];
            if let Some(e) = self.end {
                if form == 1 { range.push(format!("--end={}", e)) } else { range.extend(["-e".to_string(), num(e)]) }
            }
            if let Some(s) = self.start {
                if form == 1 { range.push(format!("--start={}", s)) } else { range.extend(["-s".to_string(), num(s)]) }
            }
            let coin: Vec<String> = if form == 1 { vec![format!("--coin={}", self.coin)] } else { vec!["-c".into(), self.coin.clone()] };
            // form 5: the defaults are left to the program - no -d (the runner points $HOME at a home directory whose default
            // folder for the coin is the data directory) and no -c for bitcoin
            let coin: Vec<String> = if form == 5 && self.coin == "bitcoin" { vec![] } else { coin };
            let dir: Vec<String> = if form == 5 { vec![] } else if form == 1 { vec![format!("--blockchain-dir={}", data.display())] } else { vec!["-d".into(), data.display().to_string()] };
            let mut a: Vec<String> = vec![];
            a.extend(range);
            a.extend(dir);
            for _ in 0..self.verbosity {
                a.push("-v".into());
            }
            a.extend(coin);
            if self.verify {
                a.push("--verify".into());
            }
            a.push(self.callback.clone());
            if self.needs_dump() {
                a.push(dump.display().to_string());
            }
            return a;
        }
        let mut a: Vec<String> = vec![];
        if self.verify {
            a.push("--verify".into());
        }
        for _ in 0..self.verbosity {
            a.push("-v".into());
        }
        a.push("-c".into());
        a.push(self.coin.clone());
        a.push("-d".into());
        a.push(data.display().to_string());
        if let Some(s) = self.start {
            a.push("-s".into());
            a.push(s.to_string());
        }
        if let Some(e) = self.end {
            a.push("-e".into());
            a.push(e.to_string());
        }
        a.push(self.callback.clone());
        if self.needs_dump() {
            a.push(dump.display().to_string());
        }
        a
    }
    /// `argv` with the two paths as they are (they need not be UTF-8).
    pub fn argv_os(&self, data: &Path, dump: &Path) -> Vec<std::ffi::OsString> {
        let (pd, pp) = ("\u{1}DATA\u{1}", "\u{1}DUMP\u{1}");
        self.argv(Path::new(pd), Path::new(pp))
            .into_iter()
            .map(|a| {
                for (mark, real) in [(pd, data), (pp, dump)] {
                    if let Some(pos) = a.find(mark) {
                        let mut o = std::ffi::OsString::from(&a[..pos]);
                        o.push(real.as_os_str());
                        o.push(&a[pos + mark.len()..]);
                        return o;
                    }
                }
                std::ffi::OsString::from(a)
            })
            .collect()
    }
    pub fn describe(&self) -> serde_json::Value {
        serde_json::json!({"coin": self.coin, "callback": self.callback, "start": self.start, "end": self.end, "verify": self.verify,
            "threads": self.threads, "verbosity": self.verbosity, "env": self.env, "rlimit_nofile": self.rlimit_nofile, "rlimit_fsize": self.rlimit_fsize})
    }
    pub fn from_description(v: &serde_json::Value) -> RunSpec {
        RunSpec {
            coin: v["coin"].as_str().unwrap().into(),
            callback: v["callback"].as_str().unwrap().into(),
            start: v["start"].as_u64(),
            end: v["end"].as_u64(),
            verify: v["verify"].as_bool().unwrap_or(false),
            threads: v["threads"].as_u64().unwrap_or(2) as u32,
            verbosity: v["verbosity"].as_u64().unwrap_or(0) as u8,
            env: v["env"].as_array().map(|a| a.iter().map(|p| (p[0].as_str().unwrap().to_string(), p[1].as_str().unwrap().to_string())).collect()).unwrap_or_default(),
            rlimit_nofile: v["rlimit_nofile"].as_u64().unwrap_or(0),
            rlimit_fsize: v["rlimit_fsize"].as_u64(),
        }
    }
}

#[derive(Clone, Debug, Default)]
pub struct RunResult {
    pub code: Option<i32>,
    pub signal: Option<i32>,
    pub stdout: String,
    pub stderr: String,
    /// dump folder content after the run
    pub files: BTreeMap<String, Vec<u8>>,
}

/// Wall limit per execution. rusty-leveldb's iterator does read sampling with `rand::random` in a loop whose
/// length is a heavy-tailed random walk (db_iter.rs: `while byte_count < 0 { byte_count += random_period() }` with a
/// period that may be negative): about 1 run in 10^4 spins for seconds to minutes. The random choice does not
/// influence any output, so an execution that exceeds the limit is killed and repeated (counted in the evidence).
fn spec_timeout(spec: &RunSpec) -> u64 {
    spec.env.iter().find(|(k, _)| k == "VERIF_RUN_TIMEOUT").and_then(|(_, v)| v.parse().ok()).unwrap_or(20)
}

pub static TIMEOUT_RETRIES: std::sync::atomic::AtomicU64 = std::sync::atomic::AtomicU64::new(0);
static WATCH: std::sync::Mutex<Vec<(u32, std::time::Instant)>> = std::sync::Mutex::new(Vec::new());
/// (pid, blocked): `blocked` = at the moment the limit struck every thread of the process was sleeping (state S in
/// /proc/<pid>/task/*/stat) - it was waiting for something, not computing
static KILLED: std::sync::Mutex<Vec<(u32, bool)>> = std::sync::Mutex::new(Vec::new());

fn all_threads_sleeping(pid: u32) -> bool {
    let mut n = 0;
    if let Ok(rd) = fs::read_dir(format!("/proc/{}/task", pid)) {
        for e in rd.flatten() {
            if let Ok(stat) = fs::read_to_string(e.path().join("stat")) {
                // the state is the first field after the parenthesised command name
                let state = stat.rfind(')').and_then(|p| stat[p + 1..].trim_start().chars().next()).unwrap_or('?');
                if state != 'S' {
                    return false;
                }
                n += 1;
            }
        }
    }
    n > 0
}
static WATCHDOG: std::sync::Once = std::sync::Once::new();

fn start_watchdog() {
    WATCHDOG.call_once(|| {
        std::thread::spawn(|| loop {
            std::thread::sleep(std::time::Duration::from_millis(200));
            let now = std::time::Instant::now();
            let mut w = WATCH.lock().unwrap();
            let mut k = KILLED.lock().unwrap();
            w.retain(|(pid, deadline)| {
                if now >= *deadline {
                    // two looks 50 ms apart: a process that is merely between two time slices is not taken for a blocked one
                    let blocked = all_threads_sleeping(*pid) && {
                        std::thread::sleep(std::time::Duration::from_millis(50));
                        all_threads_sleeping(*pid)
                    };
                    unsafe { libc::kill(*pid as i32, libc::SIGKILL) };
                    k.push((*pid, blocked));
                    false
                } else {
                    true
                }
            });
        });
    });
}

/// Like Command::output(), but kills the child after `timeout_s` and retries (up to 5 attempts).
pub fn output_with_watchdog(cmd: &mut Command, timeout_s: u64) -> std::io::Result<std::process::Output> {
    start_watchdog();
    let mut last = None;
    let mut blocked_runs = 0;
    let mut attempts = 0;
    for _attempt in 0..5 {
        attempts += 1;
        let child = cmd.spawn()?;
        let pid = child.id();
        WATCH.lock().unwrap().push((pid, std::time::Instant::now() + std::time::Duration::from_secs(timeout_s)));
        let out = child.wait_with_output();
        WATCH.lock().unwrap().retain(|(p, _)| *p != pid);
        let was_killed = {
            let mut k = KILLED.lock().unwrap();
            let hit = k.iter().find(|(p, _)| *p == pid).map(|(_, b)| *b);
            k.retain(|(p, _)| *p != pid);
            if hit == Some(true) {
                blocked_runs += 1;
            }
            hit.is_some()
        };
        let out = out?;
        if !was_killed {
            return Ok(out);
        }
        TIMEOUT_RETRIES.fetch_add(1, std::sync::atomic::Ordering::SeqCst);
        last = Some(out);
        // blocked both times: a third look would show the same
        if blocked_runs == attempts && attempts >= 2 {
            break;
        }
    }
    let mut out = last.unwrap();
    if blocked_runs == attempts {
        // not slowness: every execution sat with every thread asleep when the limit struck (a deadlock, a wait for
        // something that never comes). That is an observation about the subject, not about the machinery.
        out.stderr.extend_from_slice(format!("\nVERIF-HANG: the process did not terminate: in {} of {} executions every thread was blocked (asleep) when the wall limit of {} s struck\n", blocked_runs, attempts, timeout_s).as_bytes());
    } else {
        out.stderr.extend_from_slice(b"\nVERIF-TIMEOUT: execution exceeded the wall limit 5 times\n");
    }
    Ok(out)
}

pub fn subject_bin() -> PathBuf {
    PathBuf::from(std::env::var("RBP_BIN").unwrap_or_else(|_| "/verif/.build/subject/debug/rusty-blockparser".into()))
}

pub fn read_dir_files(dir: &Path) -> BTreeMap<String, Vec<u8>> {
    let mut m = BTreeMap::new();
    if let Ok(rd) = fs::read_dir(dir) {
        for e in rd.flatten() {
            if e.path().is_file() {
                m.insert(e.file_name().to_string_lossy().into_owned(), fs::read(e.path()).unwrap_or_default());
            }
        }
    }
    m
}

/// How the two directories are named on the command line (env entry VERIF_PATH_FORM of the spec; default 0):
/// 0 absolute; 1 relative to the current directory (= their parent); 2 absolute with a trailing slash; 3 relative with `.` and
/// `..` components and trailing slashes; 4 through symbolic links; 5 current directory = the data directory (`-d .`, `../dump`); 6-8 current directory = the dump folder, named `""`, `.`, `./`; 9 through links with spaces, quotes and non-ASCII characters in their names; 10 through links whose names are not UTF-8; 11 through a path of more than 600 bytes.
pub fn path_form(spec: &RunSpec, data: &Path, dump: &Path) -> (Option<PathBuf>, PathBuf, PathBuf) {
    let form: u8 = spec.env.iter().find(|(k, _)| k == "VERIF_PATH_FORM").and_then(|(_, v)| v.parse().ok()).unwrap_or(0);
    let parent = data.parent().unwrap_or(Path::new("/")).to_path_buf();
    let name = |p: &Path| p.file_name().map(|n| n.to_string_lossy().into_owned()).unwrap_or_default();
    match form {
        1 => (Some(parent), PathBuf::from(name(data)), PathBuf::from(name(dump))),
        2 => (None, PathBuf::from(format!("{}/", data.display())), PathBuf::from(format!("{}/", dump.display()))),
        3 => (Some(parent), PathBuf::from(format!("./{0}/../{0}/", name(data))), PathBuf::from(format!("./{}/./", name(dump)))),
        4 => {
            let (ld, lp) = (parent.join("lnk-data"), parent.join("lnk-dump"));
            let _ = fs::remove_file(&ld);
            let _ = fs::remove_file(&lp);
            let _ = std::os::unix::fs::symlink(data, &ld);
            let _ = std::os::unix::fs::symlink(dump, &lp);
            (None, ld, lp)
        }
        5 => (Some(data.to_path_buf()), PathBuf::from("."), PathBuf::from(format!("../{}", name(dump)))),
        // current directory = the dump folder, named by the empty string (`"$OUT"` with OUT unset), by `.` and by `./`
        6 => (Some(dump.to_path_buf()), data.to_path_buf(), PathBuf::from("")),
        7 => (Some(dump.to_path_buf()), PathBuf::from(format!("../{}", name(data))), PathBuf::from(".")),
        8 => (Some(dump.to_path_buf()), data.to_path_buf(), PathBuf::from("./")),
        // through links whose names contain spaces, quotes, a leading dash component and non-ASCII characters (9), and bytes
        // that are not UTF-8 (10)
        9 | 10 => {
            use std::os::unix::ffi::OsStringExt;
            let (nd, np): (std::ffi::OsString, std::ffi::OsString) = if form == 9 {
                ("my data 'dir' \u{fc}\u{3b2}\u{1f600};x".into(), "-dump folder \"\u{e9}\"".into())
            } else {
                (std::ffi::OsString::from_vec(b"data-\xff\xfe-\xc3".to_vec()), std::ffi::OsString::from_vec(b"dump-\x80\xe2\x28".to_vec()))
            };
            let (ld, lp) = (parent.join(nd), parent.join(np));
            let _ = fs::remove_file(&ld);
            let _ = fs::remove_file(&lp);
            let _ = std::os::unix::fs::symlink(data, &ld);
            let _ = std::os::unix::fs::symlink(dump, &lp);
            (None, ld, lp)
        }
        // through a path of more than 600 bytes (three long components)
        11 => {
            let long = parent.join("p".repeat(200)).join("q".repeat(200)).join("r".repeat(200));
            let _ = fs::create_dir_all(&long);
            let (ld, lp) = (long.join("data"), long.join("dump"));
            let _ = fs::remove_file(&ld);
            let _ = fs::remove_file(&lp);
            let _ = std::os::unix::fs::symlink(data, &ld);
            let _ = std::os::unix::fs::symlink(dump, &lp);
            (None, ld, lp)
        }
        _ => (None, data.to_path_buf(), dump.to_path_buf()),
    }
}

pub static DEV_RUNS: std::sync::atomic::AtomicU64 = std::sync::atomic::AtomicU64::new(0);
pub static RELEASE_RUNS: std::sync::atomic::AtomicU64 = std::sync::atomic::AtomicU64::new(0);

/// Which build of the subject executes this run. The build profile is a dimension of every E1 enumeration: users run the
/// release profile (no overflow checks, no debug assertions, optimised), the repository's tests run the dev profile. When a
/// release binary is available (RBP_BIN_RELEASE) one run in four goes to it, chosen by a hash of the run's options and of the
/// data directory's file list - a function of the case, so a replay takes the same binary. `VERIF_PROFILE=dev|release` in the
/// spec's environment pins the choice; runs under the fault-injection shim stay on the dev binary (their intercepted call
/// sequences are compared with a recorded fault-free sequence of that binary).
fn case_hash(data: &Path, spec: &RunSpec) -> [u8; 32] {
    let mut listing: Vec<(String, u64)> = fs::read_dir(data).map(|rd| rd.flatten().map(|e| (e.file_name().to_string_lossy().into_owned(), e.metadata().map(|m| m.len()).unwrap_or(0))).collect()).unwrap_or_default();
    listing.sort();
    crate::hash::sha256(format!("{}{:?}", spec.describe(), listing).as_bytes())
}

/// The number of worker threads is a dimension as well: a run that asks for the default of the harness (2) gets 1, 2, 3 or 16
/// workers, chosen by the same hash of the case (a single worker takes rayon's sequential paths, which a machine with one CPU
/// or a container limited to one does all the time). Runs that name another count, and runs under the fault-injection shim,
/// keep theirs.
fn pick_threads(data: &Path, spec: &RunSpec) -> u32 {
    if spec.threads != 2 || spec.env.iter().any(|(k, _)| k.starts_with("FAULTFS_") || k == "VERIF_THREADS_PIN") {
        return spec.threads;
    }
    [1u32, 2, 3, 16][(case_hash(data, spec)[1] % 4) as usize]
}

fn pick_binary(bin: &Path, data: &Path, spec: &RunSpec) -> PathBuf {
    let release = match std::env::var("RBP_BIN_RELEASE") {
        Ok(p) if !p.is_empty() && Path::new(&p).exists() => PathBuf::from(p),
        _ => return bin.to_path_buf(),
    };
    let pinned = spec.env.iter().find(|(k, _)| k == "VERIF_PROFILE").map(|(_, v)| v.as_str());
    let use_release = match pinned {
        Some("release") => true,
        Some(_) => false,
        None => {
            if bin != subject_bin() || spec.env.iter().any(|(k, _)| k.starts_with("FAULTFS_")) {
                false
            } else {
                case_hash(data, spec)[0] % 4 == 0
            }
        }
    };
    if use_release {
        RELEASE_RUNS.fetch_add(1, std::sync::atomic::Ordering::Relaxed);
        release
    } else {
        DEV_RUNS.fetch_add(1, std::sync::atomic::Ordering::Relaxed);
        bin.to_path_buf()
    }
}

pub fn run_bin(bin: &Path, data: &Path, dump: &Path, spec: &RunSpec) -> RunResult {
    let mut cmd = Command::new(pick_binary(bin, data, spec));
    let (cwd, data_arg, dump_arg) = path_form(spec, data, dump);
    cmd.args(spec.argv_os(&data_arg, &dump_arg));
    if let Some(c) = cwd {
        cmd.current_dir(c);
    }
    cmd.env_clear();
    let threads = pick_threads(data, spec);
    if threads > 0 {
        cmd.env("RAYON_NUM_THREADS", threads.to_string());
    }
    cmd.env("HOME", data);
    if spec.env.iter().any(|(k, v)| k == "VERIF_ARGV_FORM" && v == "5") {
        // the data directory is reached through the coin's default folder below $HOME, as when -d is not given
        let folder = match spec.coin.as_str() {
            "bitcoin" => ".bitcoin/blocks",
            "testnet3" => ".bitcoin/testnet3",
            "namecoin" => ".namecoin",
            "litecoin" => ".litecoin/blocks",
            "dogecoin" => ".dogecoin/blocks",
            "myriadcoin" => ".myriadcoin/blocks",
            "unobtanium" => ".unobtanium/blocks",
            _ => ".notecoin/blocks",
        };
        let home = data.parent().unwrap_or(Path::new("/")).join(format!("home-{}", spec.coin));
        let link = home.join(folder);
        let _ = fs::create_dir_all(link.parent().unwrap_or(&home));
        let _ = fs::remove_file(&link);
        let _ = std::os::unix::fs::symlink(data, &link);
        cmd.env("HOME", &home);
    }
    cmd.env("RUST_BACKTRACE", "0");
    // determinism shim (see faultfs/faultfs.c): fixed getrandom stream => fixed HashMap order, no read-sampling random walk
    if let Ok(shim) = std::env::var("VERIF_SHIM") {
        if !shim.is_empty() {
            cmd.env("LD_PRELOAD", shim);
            cmd.env("VERIF_DETRAND", std::env::var("VERIF_DETRAND").unwrap_or_else(|_| "1".into()));
        }
    }
    for (k, v) in &spec.env {
        cmd.env(k, v);
    }
    cmd.stdin(Stdio::null()).stdout(Stdio::piped()).stderr(Stdio::piped());
    // who listens is part of the environment: VERIF_STDOUT_GONE / VERIF_STDERR_GONE hand the child a pipe whose reading end
    // is already closed (`... | head` after head has left, a supervisor that closed its end): every write fails with EPIPE
    for (var, is_out) in [("VERIF_STDOUT_GONE", true), ("VERIF_STDERR_GONE", false)] {
        if spec.env.iter().any(|(k, _)| k == var) {
            use std::os::unix::io::FromRawFd;
            let mut fds = [0i32; 2];
            if unsafe { libc::pipe2(fds.as_mut_ptr(), libc::O_CLOEXEC) } == 0 {
                unsafe { libc::close(fds[0]) };
                let w = unsafe { Stdio::from_raw_fd(fds[1]) };
                if is_out {
                    cmd.stdout(w);
                } else {
                    cmd.stderr(w);
                }
            }
        }
    }
    let (nofile, fsize) = (spec.rlimit_nofile, spec.rlimit_fsize);
    // address-space limit (env entry VERIF_RLIMIT_AS of the spec, bytes): how the system answers an allocation request
    let as_limit: Option<u64> = spec.env.iter().find(|(k, _)| k == "VERIF_RLIMIT_AS").and_then(|(_, v)| v.parse().ok());
    if nofile > 0 || fsize.is_some() || as_limit.is_some() {
        unsafe {
            cmd.pre_exec(move || {
                if nofile > 0 {
                    let r = libc::rlimit { rlim_cur: nofile, rlim_max: nofile };
                    libc::setrlimit(libc::RLIMIT_NOFILE, &r);
                }
                if let Some(a) = as_limit {
                    let r = libc::rlimit { rlim_cur: a, rlim_max: a };
                    libc::setrlimit(libc::RLIMIT_AS, &r);
                }
                if let Some(f) = fsize {
                    libc::signal(libc::SIGXFSZ, libc::SIG_IGN);
                    let r = libc::rlimit { rlim_cur: f, rlim_max: f };
                    libc::setrlimit(libc::RLIMIT_FSIZE, &r);
                }
                Ok(())
            });
        }
    }
    // who listens, continued: VERIF_STDOUT_TTY hands the child a terminal (the slave side of a pseudo-terminal in raw mode, so that
    // what is read from the master side is byte for byte what the program wrote) instead of a pipe
    let mut tty_reader: Option<std::thread::JoinHandle<Vec<u8>>> = None;
    if spec.env.iter().any(|(k, _)| k == "VERIF_STDOUT_TTY") {
        use std::os::unix::io::FromRawFd;
        let (mut m, mut sl) = (0i32, 0i32);
        if unsafe { libc::openpty(&mut m, &mut sl, std::ptr::null_mut(), std::ptr::null_mut(), std::ptr::null_mut()) } == 0 {
            unsafe {
                let mut tio: libc::termios = std::mem::zeroed();
                if libc::tcgetattr(sl, &mut tio) == 0 {
                    libc::cfmakeraw(&mut tio);
                    libc::tcsetattr(sl, libc::TCSANOW, &tio);
                }
                libc::fcntl(m, libc::F_SETFD, libc::FD_CLOEXEC);
                libc::fcntl(sl, libc::F_SETFD, libc::FD_CLOEXEC);
                cmd.stdout(Stdio::from_raw_fd(sl));
            }
            tty_reader = Some(std::thread::spawn(move || {
                use std::io::Read;
                let mut f = unsafe { fs::File::from_raw_fd(m) };
                let mut all = Vec::new();
                let mut buf = [0u8; 65536];
                loop {
                    match f.read(&mut buf) {
                        Ok(0) | Err(_) => break, // EIO: every descriptor of the slave side is closed
                        Ok(n) => all.extend_from_slice(&buf[..n]),
                    }
                }
                all
            }));
        }
    }
    let mut out = match output_with_watchdog(&mut cmd, spec_timeout(spec)) {
        Ok(o) => o,
        Err(e) => {
            return RunResult { code: None, signal: None, stdout: String::new(), stderr: format!("SPAWN-ERROR {}", e), files: BTreeMap::new() };
        }
    };
    drop(cmd); // releases the parent's descriptor of the terminal's slave side
    if let Some(h) = tty_reader {
        out.stdout = h.join().unwrap_or_default();
    }
    RunResult {
        code: out.status.code(),
        signal: out.status.signal(),
        stdout: String::from_utf8_lossy(&out.stdout).into_owned(),
        stderr: String::from_utf8_lossy(&out.stderr).into_owned(),
        files: read_dir_files(dump),
    }
}

impl RunResult {
    pub fn ok(&self) -> bool {
        self.code == Some(0)
    }
    pub fn panicked(&self) -> bool {
        self.stderr.contains("panicked at") || self.signal.is_some() || self.code == Some(101)
    }
    /// stdout split into log records (message text without the `[HH:MM:SS] LEVEL - target: ` prefix) and raw lines
    pub fn log_records(&self) -> (Vec<(String, String, String)>, Vec<String>) {
        let mut recs: Vec<(String, String, String)> = Vec::new();
        let mut raw = Vec::new();
        let mut in_rec = false;
        // split on line feeds only: a payload may contain carriage returns
        let body = self.stdout.strip_suffix('\n').unwrap_or(&self.stdout);
        for line in body.split('\n') {
            if let Some((lvl, target, msg)) = parse_log_prefix(line) {
                recs.push((lvl, target, msg));
                in_rec = true;
            } else if line.starts_with("height: ") {
                raw.push(line.to_string());
                in_rec = false;
            } else if in_rec {
                let last = recs.last_mut().unwrap();
                last.2.push('\n');
                last.2.push_str(line);
            } else {
                raw.push(line.to_string());
            }
        }
        (recs, raw)
    }
    pub fn declared_start(&self) -> Option<u64> {
        let (recs, _) = self.log_records();
        for (_, t, m) in &recs {
            if t == "parser" {
                if let Some(r) = m.strip_prefix("Processing blocks starting from height ") {
                    return r.trim_end_matches(" ...").trim().parse().ok();
                }
            }
        }
        None
    }
    pub fn declared_end(&self) -> Option<u64> {
        let (recs, _) = self.log_records();
        for (_, t, m) in &recs {
            if t == "parser" {
                if let Some(r) = m.strip_prefix("Done. Processed blocks up to height ") {
                    return r.split(' ').next()?.parse().ok();
                }
            }
        }
        None
    }
    pub fn record(&self, target: &str) -> Option<String> {
        let (recs, _) = self.log_records();
        recs.into_iter().filter(|r| r.1 == target).map(|r| r.2).last()
    }
    pub fn error_height(&self) -> Option<u64> {
        for l in self.stderr.lines() {
            if let Some(p) = l.find("Error at height ") {
                let r = &l[p + 16..];
                let n: String = r.chars().take_while(|c| c.is_ascii_digit()).collect();
                return n.parse().ok();
            }
        }
        None
    }
    pub fn final_files(&self) -> Vec<&String> {
        self.files.keys().filter(|k| k.ends_with(".csv")).collect()
    }
    pub fn tmp_files(&self) -> Vec<&String> {
        self.files.keys().filter(|k| k.ends_with(".tmp")).collect()
    }
    pub fn file_str(&self, name: &str) -> Option<String> {
        self.files.get(name).map(|b| String::from_utf8_lossy(b).into_owned())
    }
    /// Summary totals of csvdump / unspentcsvdump: (transactions, inputs, outputs)
    pub fn summary_totals(&self) -> Option<(u64, u64, u64)> {
        let m = self.record("callback")?;
        let g = |k: &str| -> Option<u64> {
            let p = m.find(k)?;
            m[p + k.len()..].trim_start().split_whitespace().next()?.parse().ok()
        };
        Some((g("-> transactions:")?, g("-> inputs:")?, g("-> outputs:")?))
    }
    pub fn brief(&self) -> serde_json::Value {
        let trunc = |s: &str| -> String {
            if s.len() > 1500 {
                format!("{}…[{} bytes]", &s[..s.char_indices().take_while(|(i, _)| *i < 1500).last().map(|x| x.0).unwrap_or(0)], s.len())
            } else {
                s.to_string()
            }
        };
        serde_json::json!({"code": self.code, "signal": self.signal, "stdout": trunc(&strip_time(&self.stdout)), "stderr": trunc(&strip_time(&self.stderr)),
            "files": self.files.iter().map(|(k, v)| (k.clone(), serde_json::json!(v.len()))).collect::<serde_json::Map<_, _>>()})
    }
}

fn parse_log_prefix(line: &str) -> Option<(String, String, String)> {
    // [HH:MM:SS] LEVEL - target: msg
    let b = line.as_bytes();
    if b.len() < 12 || b[0] != b'[' || b[9] != b']' || b[3] != b':' || b[6] != b':' {
        return None;
    }
    let rest = &line[11..];
    let p = rest.find(" - ")?;
    let lvl = &rest[..p];
    if !matches!(lvl, "INFO" | "WARN" | "ERROR" | "DEBUG" | "TRACE") {
        return None;
    }
    let rest = &rest[p + 3..];
    let q = rest.find(": ")?;
    Some((lvl.to_string(), rest[..q].to_string(), rest[q + 2..].to_string()))
}

/// Remove wall-clock text so outputs of two runs can be compared.
pub fn strip_time(s: &str) -> String {
    let mut out = String::with_capacity(s.len());
    for line in s.lines() {
        let b = line.as_bytes();
        let l = if b.len() >= 11 && b[0] == b'[' && b[9] == b']' { &line[11..] } else { line };
        if let Some(p) = l.find(" in ") {
            if l.ends_with(" minutes.") {
                out.push_str(&l[..p]);
                out.push('\n');
                continue;
            }
        }
        out.push_str(l);
        out.push('\n');
    }
    out
}

/// Canonical observation of a run (wall-clock text and scratch paths removed).
pub fn observe(r: &RunResult, root: &Path) -> serde_json::Value {
    use serde_json::json;
    let rs = root.display().to_string();
    let clean = |s: &str| strip_time(s).replace(&rs, "<ROOT>");
    let mut files = serde_json::Map::new();
    for (k, v) in &r.files {
        let s = String::from_utf8_lossy(v);
        // row order of the two hash-map dumps is unspecified: compare as sorted rows
        let text = if k.starts_with("unspent") || k.starts_with("balances") {
            let mut lines: Vec<&str> = s.lines().collect();
            if lines.len() > 1 {
                lines[1..].sort();
            }
            lines.join("\n")
        } else {
            s.into_owned()
        };
        let text = if text.len() > 20000 { format!("{}…[{} bytes, sha256 {}]", &text[..2000], text.len(), crate::ser::hex(&crate::hash::sha256(text.as_bytes()))) } else { text };
        files.insert(k.clone(), json!(text));
    }
    let mut out = clean(&r.stdout);
    if out.contains("Transaction Types:") {
        // type entries (two lines each) come from a HashMap: sort them
        let lines: Vec<&str> = out.lines().collect();
        let mut res: Vec<String> = Vec::new();
        let mut i = 0;
        while i < lines.len() {
            res.push(lines[i].to_string());
            if lines[i].trim_end().ends_with("Transaction Types:") {
                i += 1;
                let mut entries: Vec<(String, String)> = Vec::new();
                while i < lines.len() {
                    if lines[i].starts_with("   -> ") && i + 1 < lines.len() && lines[i + 1].trim_start().starts_with("first seen in block") {
                        entries.push((lines[i].to_string(), lines[i + 1].to_string()));
                        i += 2;
                    } else if lines[i].is_empty() {
                        i += 1;
                    } else {
                        break;
                    }
                }
                entries.sort();
                for (a, b) in entries {
                    res.push(a);
                    res.push(b);
                    res.push(String::new());
                }
                continue;
            }
            i += 1;
        }
        out = res.join("\n");
        out.push('\n');
    }
    let trunc = |s: String| if s.len() > 20000 { format!("{}…[{} bytes]", &s[..2000], s.len()) } else { s };
    json!({"code": r.code, "signal": r.signal, "stdout": trunc(out), "stderr": trunc(clean(&r.stderr)), "files": files})
}

