// prints what rusty-leveldb's read-sampling period would be on its first draws (same rand version and call)
fn main() {
    let v: Vec<isize> = (0..4).map(|_| rand::random::<isize>() % (2 * 1048576)).collect();
    let m: std::collections::HashMap<u32, u32> = (0..5).map(|i| (i, i)).collect();
    println!("{:?} {:?}", v, m.keys().collect::<Vec<_>>());
}
