#!/bin/sh
# Offline build of everything the checks need (run once after a fresh restore; ./check rebuilds incrementally).
set -e
cd "$(dirname "$0")"
export CARGO_NET_OFFLINE=true
export RBP_SRC="${VERIF_SUBJECT:-/repo}/src"
mkdir -p .build evidence replays
cargo build --offline --manifest-path "${VERIF_SUBJECT:-/repo}/Cargo.toml" --target-dir .build/subject
cargo build --offline --release --manifest-path "${VERIF_SUBJECT:-/repo}/Cargo.toml" --target-dir .build/subject-release
(cd mc && cargo build --offline --workspace --target-dir "$PWD/../.build/mc" && cargo build --offline --release -p inproc --target-dir "$PWD/../.build/mc")
if [ -f faultfs/faultfs.c ]; then gcc -O2 -shared -fPIC -o .build/faultfs.so faultfs/faultfs.c -ldl; fi
./check --record-fingerprint
echo setup done
